(* FNum.v — the binary64 instance of NumOps, used by the correspondence checks (coq/cases/*.v) to EXECUTE the
   model inside Coq (vm_compute) on the very floats the implementation saw.
   exp and ln are Gallina programs over PrimFloat (argument reduction + series); they are used only for
   execution, never in a theorem: an error in them can only cause a (false) disagreement, never an unsound "holds".
   Measured against libm on the correspondence inputs: relative error below 1e-13. *)
From Coq Require Import ZArith List Bool PrimFloat Uint63 FloatOps SpecFloat.
From PV Require Import Num.
Import ListNotations.
Local Open Scope float_scope.

Fixpoint fipow (x : float) (n : nat) : float := match n with O => 1 | S k => x * fipow x k end.

Definition ln2_hi := 0x1.62e42fefa39efp-1.

(* nearest integer of x (|x| < 2^51) as Z *)
Definition fround_Z (x : float) : Z :=
  let d := (x + 0x1.8p52) - 0x1.8p52 in
  match Prim2SF d with
  | S754_finite s m e => let v := if (0 <=? e)%Z then Z.shiftl (Z.pos m) e else Z.shiftr (Z.pos m) (- e) in
                         if s then (- v)%Z else v
  | _ => 0%Z
  end.
Definition Z2f (k : Z) : float := float_of_Z k.

Fixpoint exp_taylor (n : nat) (r acc k : float) : float :=
  match n with O => acc | S n' => exp_taylor n' r (1 + acc * r / k) (k - 1) end.

Definition fexp (x : float) : float :=
  if x <? -745 then 0 else if 710 <? x then infinity else
  if PrimFloat.eqb x x then
    let k := fround_Z (x / ln2_hi) in
    let kf := Z2f k in
    (* two-part ln 2 for the reduction *)
    let r := (x - kf * 0x1.62e42feep-1) - kf * 0x1.a39ef35793c76p-33 in
    let p := exp_taylor 22 r 1 22 in
    ldexp p k
  else nan.

(* ln: x = m * 2^e, m in [sqrt(1/2), sqrt 2); ln m = 2 atanh((m-1)/(m+1)) *)
Fixpoint atanh_series (n : nat) (z2 acc k : float) : float :=
  match n with O => acc | S n' => atanh_series n' z2 (1 / k + z2 * acc) (k - 2) end.

Definition fln (x : float) : float :=
  if x <? 0 then nan else if PrimFloat.eqb x 0 then neg_infinity else
  if PrimFloat.eqb x infinity then infinity else
  if PrimFloat.eqb x x then
    let '(m, e) := frexp x in
    let '(m, e) := if m <? 0x1.6a09e667f3bcdp-1 then (m * 2, (e - 1)%Z) else (m, e) in
    let z := (m - 1) / (m + 1) in
    let z2 := z * z in
    let s := atanh_series 19 z2 (1 / 39) 37 in
    2 * z * s + Z2f e * 0x1.62e42feep-1 + Z2f e * 0x1.a39ef35793c76p-33
  else nan.

Definition frpow (x y : float) : float := fexp (y * fln x).

Definition FOps : NumOps := {|
  num := float; add := PrimFloat.add; sub := PrimFloat.sub; mul := PrimFloat.mul; div := PrimFloat.div;
  neg := PrimFloat.opp; nabs := PrimFloat.abs; nexp := fexp; nln := fln; rpow := frpow;
  ipow := fipow; lit := fun _ _ f => f; leb := PrimFloat.leb; ltb := PrimFloat.ltb; eqb := PrimFloat.eqb |}.

(* relative closeness used when comparing with values that went through a text parser or libm *)
Definition fclose (a b : float) : bool :=
  let d := PrimFloat.abs (a - b) in
  let s := PrimFloat.abs a + PrimFloat.abs b in
  PrimFloat.leb d (0x1.12e0be826d695p-30 * s).   (* 1e-9 *)
Definition fclose_tol (tol a b : float) : bool :=
  let d := PrimFloat.abs (a - b) in
  let s := PrimFloat.abs a + PrimFloat.abs b in
  PrimFloat.leb d (tol * s).
