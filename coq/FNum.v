(* FNum.v — the binary64 instance of NumOps, used by the correspondence checks (coq/cases/*.v) to EXECUTE the
   model inside Coq (vm_compute) on the very floats the implementation saw.  exp / ln / general powers are not
   needed by the families executed this way (persistence, unit conversion, composition conversion) and return nan. *)
From Coq Require Import ZArith List Bool PrimFloat Uint63.
From PV Require Import Num.
Import ListNotations.

Fixpoint fipow (x : float) (n : nat) : float := match n with O => 1%float | S k => (x * fipow x k)%float end.

Definition FOps : NumOps := {|
  num := float; add := PrimFloat.add; sub := PrimFloat.sub; mul := PrimFloat.mul; div := PrimFloat.div;
  neg := PrimFloat.opp; nabs := PrimFloat.abs; nexp := fun _ => nan; nln := fun _ => nan; rpow := fun _ _ => nan;
  ipow := fipow; lit := fun _ _ f => f; leb := PrimFloat.leb; ltb := PrimFloat.ltb; eqb := PrimFloat.eqb |}.

(* relative closeness used when comparing with values that went through a text parser *)
Definition fclose (a b : float) : bool :=
  let d := PrimFloat.abs (a - b)%float in
  let s := (PrimFloat.abs a + PrimFloat.abs b)%float in
  PrimFloat.leb d (0x1.12e0be826d695p-30 * s)%float.   (* 1e-9 *)
