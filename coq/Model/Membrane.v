(* Model of pyvaporation/membrane/membrane.py (and IdealExperiment of experiments/ideal.py). *)
From Coq Require Import ZArith List Bool PrimFloat Arith.
From PV Require Import Num PyBase Model.Component Model.Mixture Model.Permeance.
Import ListNotations.

Section Membrane.
  Context (N : NumOps).
  Local Notation "a +! b" := (add N a b) (at level 50, left associativity).
  Local Notation "a -! b" := (sub N a b) (at level 50, left associativity).
  Local Notation "a *! b" := (mul N a b) (at level 40, left associativity).
  Local Notation "a /! b" := (div N a b) (at level 40, left associativity).
  Local Notation "# k" := (ilit N k) (at level 9, format "# k").
  Local Notation Permeance := (Permeance N).
  Local Notation Component := (Component N).

  Record Experiment := {
    ex_T : num N; ex_comp : nat; ex_P : Permeance; ex_Ea : option (num N) }.

  (* get_penetrant_data: experiments whose component has the same name; ideal_experiments = None -> AttributeError *)
  Definition penetrant (exps : option (list Experiment)) (c : Component) : res (list Experiment) :=
    match exps with
    | None => Err AttributeError
    | Some l => Ok (filter (fun e => Nat.eqb (ex_comp e) (cname c)) l)
    end.

  (* min(range(len(l)), key = ...): the first index whose key is strictly smallest so far *)
  Fixpoint argmin_from (best : nat) (kbest : num N) (i : nat) (ks : list (num N)) : nat :=
    match ks with
    | [] => best
    | k :: t => if ltb N k kbest then argmin_from i k (S i) t else argmin_from best kbest (S i) t
    end.
  Definition argmin (ks : list (num N)) : res nat :=
    match ks with [] => Err ValueError | k :: t => Ok (argmin_from 0 k 1 t) end.

  (* ordinary least squares slope of y against x (what numpy.linalg.lstsq returns for the design
     matrix [x, 1]; ORACLE ASSUMPTION, compared numerically on every run) *)
  Definition ols_slope (xs ys : list (num N)) : num N :=
    let n := ilit N (Z.of_nat (length xs)) in
    let sx := psum N xs in
    let sy := psum N ys in
    let sxy := psum N (map (fun p => fst p *! snd p) (combine xs ys)) in
    let sxx := psum N (map (fun x => x *! x) xs) in
    (n *! sxy -! sx *! sy) /! (n *! sxx -! sx *! sx).

  Definition activation_energy (exps : option (list Experiment)) (c : Component) : res (num N) :=
    l <- penetrant exps c ;;
    match l with
    | [] => Err IndexError
    | e0 :: rest =>
        match rest with
        | [] => match ex_Ea e0 with None => Err ValueError | Some ea => Ok ea end
        | _ =>
            let xs := map (fun e => #1 /! ex_T e) l in
            let ys := map (fun e => nln N (pval (ex_P e))) l in
            Ok (neg N (ols_slope xs ys *! Rgas N))
        end
    end.

  Definition arrhenius (v ea T Te : num N) : num N :=
    v *! nexp N (neg N ea /! Rgas N *! (#1 /! T -! #1 /! Te)).

  Definition get_permeance (exps : option (list Experiment)) (T : num N) (c : Component)
      (initial : option Permeance) : res Permeance :=
    l <- penetrant exps c ;;
    idx <- argmin (map (fun e => nabs N (ex_T e -! T)) l) ;;
    match nth_error l idx with
    | None => Err IndexError
    | Some e =>
        given <- convert N (ex_P e) KG (Some c) ;;
        match ex_Ea e with
        | None =>
            if eqb N (ex_T e) T then Ok given
            else ea <- activation_energy exps c ;; mk_permeance_m N (arrhenius (pval given) ea T (ex_T e)) KG
        | Some ea =>
            if eqb N (ex_T e) T then Ok given
            else match initial with
                 | Some ip => mk_permeance_m N (arrhenius (pval ip) ea T (ex_T e)) KG
                 | None => mk_permeance_m N (arrhenius (pval given) ea T (ex_T e)) KG
                 end
        end
    end.

  Definition ideal_selectivity (exps : option (list Experiment)) (T : num N) (ca cb : Component) (molar : bool)
    : res (num N) :=
    pa <- get_permeance exps T ca None ;;
    if molar then
      pa' <- convert N pa SI (Some ca) ;;
      pb <- get_permeance exps T cb None ;;
      pb' <- convert N pb SI (Some cb) ;;
      Ok (pval pa' /! pval pb')
    else
      pb <- get_permeance exps T cb None ;;
      Ok (pval pa /! pval pb).

  Definition pure_component_flux (exps : option (list Experiment)) (T : num N) (c : Component)
      (Tp pp : option (num N)) : res (num N) :=
    match Tp, pp with
    | None, None =>
        p <- get_permeance exps T c None ;; v <- vapor_pressure N c T ;; Ok (pval p *! v)
    | Some tp, None =>
        p <- get_permeance exps T c None ;; v <- vapor_pressure N c T ;; vp <- vapor_pressure N c tp ;;
        Ok (pval p *! (v -! vp))
    | None, Some pr =>
        p <- get_permeance exps T c None ;; v <- vapor_pressure N c T ;; Ok (pval p *! (v -! pr))
    | Some _, Some _ => Err ValueError
    end.
End Membrane.

Arguments ex_T {N}. Arguments ex_comp {N}. Arguments ex_P {N}. Arguments ex_Ea {N}.
