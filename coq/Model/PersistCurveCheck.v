(* Executable comparison functions for the curve / JSON persistence correspondence (coq/cases/Persist_curve.v). *)
From Coq Require Import ZArith List Bool PrimFloat Arith.
From PV Require Import Num FNum PyBase Model.Component Model.Mixture Model.Permeance Model.Solver Model.Process Model.Curve
  Model.Persist Model.PersistCheck Model.PersistCurve.
Import ListNotations.

Definition pair_close (a b : float * float) : bool := fclose (fst a) (fst b) && fclose (snd a) (snd b).
Definition ppair_close (a b : Permeance FOps * Permeance FOps) : bool := perm_close (fst a) (fst b) && perm_close (snd a) (snd b).

(* [impl = None]: the implementation raised *)
Definition curve_close (model : res (Curve FOps)) (impl : option (Curve FOps)) : bool :=
  match model, impl with
  | Ok a, Some b =>
      fclose (cv_T a) (cv_T b) && list_eqb comp_close (cv_xs a) (cv_xs b) && list_eqb pair_close (cv_J a) (cv_J b)
      && opt_close (cv_Tp a) (cv_Tp b) && opt_close (cv_pp a) (cv_pp b) && list_eqb ppair_close (cv_P a) (cv_P b)
  | Err _, None => true
  | _, _ => false
  end.

(* a loaded DiffusionCurveSet: the same number of curves, pairwise close, in the same order *)
Definition set_close (model : res (list (Curve FOps))) (impl : option (list (Curve FOps))) : bool :=
  match model, impl with
  | Ok a, Some b => list_eqb (fun x y => curve_close (Ok x) (Some y)) a b
  | Err _, None => true
  | _, _ => false
  end.

Definition saved_same (model : res (list (list (Cell FOps)))) (file : list (list (Cell FOps))) : bool :=
  match model with Ok t => table_eqb true t file | Err _ => false end.

Definition all_keys : list JKey := [K_n; K_m; K_alpha; K_a; K_b; K_area; K_T0; K_m0; K_xval; K_xtype; K_Tp; K_pp].

Definition jval_eqb (a b : JVal FOps) : bool :=
  match a, b with
  | JNum x, JNum y => PrimFloat.eqb x y
  | JNat x, JNat y => Nat.eqb x y
  | JList x, JList y => list_eqb PrimFloat.eqb x y
  | JNull, JNull => true
  | JCType x, JCType y => ctype_eqb x y
  | _, _ => false
  end.

(* same keys, same values (key order in the file is not significant) *)
Definition jobj_same (model file : JObj FOps) : bool :=
  Nat.eqb (length model) (length file) &&
  forallb (fun k => match jget FOps k model, jget FOps k file with
                    | Ok a, Ok b => jval_eqb a b | Err _, Err _ => true | _, _ => false end) all_keys.

Definition pf_same (model : res (PervFn FOps)) (impl : PervFn FOps) : bool :=
  match model with
  | Ok a => Nat.eqb (pf_n a) (pf_n impl) && Nat.eqb (pf_m a) (pf_m impl) && PrimFloat.eqb (pf_alpha a) (pf_alpha impl)
            && list_eqb PrimFloat.eqb (pf_a a) (pf_a impl) && list_eqb PrimFloat.eqb (pf_b a) (pf_b impl)
  | Err _ => false
  end.

Definition cond_same (model : res (Conditions FOps)) (impl : option (Conditions FOps)) : bool :=
  match model, impl with
  | Ok a, Some b => PrimFloat.eqb (cd_A a) (cd_A b) && PrimFloat.eqb (cd_T0 a) (cd_T0 b) && PrimFloat.eqb (cd_m0 a) (cd_m0 b)
                  && comp_close (cd_x0 a) (cd_x0 b) && opt_close (cd_Tp a) (cd_Tp b) && opt_close (cd_pp a) (cd_pp b)
                  && match cd_prog a, cd_prog b with None, None => true | _, _ => false end
  | Err _, None => true
  | _, _ => false
  end.

Definition noPP : PPfun FOps := fun _ _ _ => Err AssertionError.
