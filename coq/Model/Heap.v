(* A small explicit heap for the places where the Python code shares mutable arrays between objects
   (property C20): the coefficient arrays a / b of a PervaporationFunction are numpy views shared between a
   function and its scaled copy (PervaporationFunction.__mul__), and the single-curve branch of the non-ideal
   models assigns b[0] in place. *)
From Coq Require Import ZArith List Bool Arith.
From PV Require Import Num PyBase.
Import ListNotations.

Section Heap.
  Context (N : NumOps).
  Definition loc := nat.
  Definition heap := list (list (num N)).            (* location -> array contents *)

  Definition alloc (h : heap) (arr : list (num N)) : heap * loc := (h ++ [arr], length h).
  Definition read (h : heap) (l : loc) : list (num N) := nth l h [].
  Fixpoint update {A} (l : list A) (i : nat) (v : A) : list A :=
    match l, i with
    | [], _ => []
    | _ :: t, O => v :: t
    | x :: t, S j => x :: update t j v
    end.
  Definition write0 (h : heap) (l : loc) (v : num N) : heap := update h l (update (read h l) 0 v).

  (* a PervaporationFunction object: scalars by value, coefficient arrays by reference *)
  Record FnObj := { fo_n : nat; fo_m : nat; fo_alpha : num N; fo_a : loc; fo_b : loc }.

  (* find_best_fit / fit / from_array: the result owns freshly allocated arrays *)
  Definition new_fn (h : heap) (n m : nat) (alpha : num N) (a b : list (num N)) : heap * FnObj :=
    let '(h1, la) := alloc h a in
    let '(h2, lb) := alloc h1 b in
    (h2, {| fo_n := n; fo_m := m; fo_alpha := alpha; fo_a := la; fo_b := lb |}).

  (* __mul__: new object, SAME arrays *)
  Definition fn_mul (f : FnObj) (c : num N) : FnObj :=
    {| fo_n := fo_n f; fo_m := fo_m f; fo_alpha := mul N (fo_alpha f) c; fo_a := fo_a f; fo_b := fo_b f |}.

  (* the single-curve branch: g = f * factor ; g.b[0] = v  (in place) *)
  Definition rescale_obj (h : heap) (f : FnObj) (factor v : num N) : heap * FnObj :=
    let g := fn_mul f factor in (write0 h (fo_b g) v, g).

  (* one call of a non-ideal model as far as the heap is concerned: the search allocates, the branch re-scales *)
  Definition nonideal_call (h : heap) (n m : nat) (alpha : num N) (a b : list (num N)) (factor v : num N) : heap * FnObj :=
    let '(h1, f) := new_fn h n m alpha a b in rescale_obj h1 f factor v.
End Heap.
Arguments fo_n {N}. Arguments fo_m {N}. Arguments fo_alpha {N}. Arguments fo_a {N}. Arguments fo_b {N}.
