(* Model of pyvaporation/diffusion_curve/diffusion_curve.py (DiffusionCurve construction and
   metrics), Pervaporation.ideal_diffusion_curve and the ProcessModel metrics of process.py. *)
From Coq Require Import ZArith List Bool PrimFloat Arith.
From PV Require Import Num PyBase Model.Component Model.Mixture Model.Permeance Model.Solver.
Import ListNotations.

Section Curve.
  Context (N : NumOps).
  Local Notation "a +! b" := (add N a b) (at level 50, left associativity).
  Local Notation "a -! b" := (sub N a b) (at level 50, left associativity).
  Local Notation "a *! b" := (mul N a b) (at level 40, left associativity).
  Local Notation "a /! b" := (div N a b) (at level 40, left associativity).
  Local Notation "# k" := (ilit N k) (at level 9, format "# k").
  Local Notation Composition := (Composition N).
  Local Notation Permeance := (Permeance N).
  Local Notation Mixture := (Mixture N).

  Record CurveIn := {
    ci_T : num N;
    ci_xs : list Composition;
    ci_J : option (list (num N * num N));
    ci_Tp : option (num N); ci_pp : option (num N);
    ci_P : option (list (Permeance * Permeance)) }.

  (* a constructed curve always has both fluxes and permeances (lists are assumed to have the length of ci_xs) *)
  Record Curve := {
    cv_T : num N; cv_xs : list Composition; cv_J : list (num N * num N);
    cv_Tp : option (num N); cv_pp : option (num N); cv_P : list (Permeance * Permeance) }.

  Definition convert_pair (m : Mixture) (p : Permeance * Permeance) : res (Permeance * Permeance) :=
    a <- convert N (fst p) KG (Some (c1 m)) ;; b <- convert N (snd p) KG (Some (c2 m)) ;; Ok (a, b).

  Definition point_permeate_comp (J : num N * num N) : res Composition :=
    mk_comp N (fst J /! (#0 +! fst J +! snd J)) Weight.

  (* [fix4]: see Solver.permeate_pressures_gen; the curve itself always converts to mole fractions *)
  (* [PP T x ct] stands for get_partial_pressures(T, mixture, x, ct) (a cut point of the bridges) *)
  Definition PPfun := num N -> Composition -> ActModel -> res (num N * num N).
  Definition real_PP (m : Mixture) : PPfun := fun T x ct => partial_pressures N T m x ct.

  Definition invert_point (PP : PPfun) (m : Mixture) (Tp pp : option (num N))
      (J : num N * num N) (pf : num N * num N) (y : Composition) : res (Permeance * Permeance) :=
    match Tp, pp with
    | None, None => Ok (mk_permeance N (fst J /! fst pf) KG, mk_permeance N (snd J /! snd pf) KG)
    | Some tp, None =>
        q <- PP tp y NRTL ;;
        Ok (mk_permeance N (fst J /! (fst pf -! fst q)) KG, mk_permeance N (snd J /! (snd pf -! snd q)) KG)
    | None, Some p =>
        ym <- to_molar N y m ;;
        Ok (mk_permeance N (fst J /! (fst pf -! p *! first N ym)) KG,
            mk_permeance N (snd J /! (snd pf -! p *! second N ym)) KG)
    | Some _, Some _ => Err ValueError
    end.

  Fixpoint map3M {A B C D} (f : A -> B -> C -> res D) (la : list A) (lb : list B) (lc : list C) : res (list D) :=
    match la, lb, lc with
    | a :: ta, b :: tb, c :: tc => d <- f a b c ;; ds <- map3M f ta tb tc ;; Ok (d :: ds)
    | [], _, _ => Ok []
    | _, _, _ => Err IndexError
    end.

  (* DiffusionCurve.__attrs_post_init__ *)
  Definition mk_curve (PP : PPfun) (m : Mixture) (c : CurveIn) : res Curve :=
    match ci_J c, ci_P c with
    | None, None => Err ValueError
    | None, Some P =>
        pfs <- mapM (fun x => PP (ci_T c) x NRTL) (ci_xs c) ;;
        P' <- mapM (convert_pair m) P ;;
        Js <- map3M (fun p pf (_ : unit) => Ok (pval (fst p) *! fst pf, pval (snd p) *! snd pf)) P' pfs (map (fun _ => tt) P') ;;
        P'' <- mapM (convert_pair m) P' ;;
        Ok {| cv_T := ci_T c; cv_xs := ci_xs c; cv_J := Js; cv_Tp := ci_Tp c; cv_pp := ci_pp c; cv_P := P'' |}
    | Some Js, None =>
        ys <- mapM point_permeate_comp Js ;;
        pfs <- mapM (fun x => PP (ci_T c) x NRTL) (ci_xs c) ;;
        P <- map3M (invert_point PP m (ci_Tp c) (ci_pp c)) Js pfs ys ;;
        Ok {| cv_T := ci_T c; cv_xs := ci_xs c; cv_J := Js; cv_Tp := ci_Tp c; cv_pp := ci_pp c; cv_P := P |}
    | Some Js, Some P =>
        P' <- mapM (convert_pair m) P ;;
        Ok {| cv_T := ci_T c; cv_xs := ci_xs c; cv_J := Js; cv_Tp := ci_Tp c; cv_pp := ci_pp c; cv_P := P' |}
    end.

  (* metrics *)
  Definition curve_permeate_composition (c : Curve) : res (list Composition) := mapM point_permeate_comp (cv_J c).

  Definition sep_factor_point (m : Mixture) (y x : Composition) : res (num N) :=
    xw <- to_weight N x m ;;
    Ok ((first N y /! second N y) /! (first N xw /! second N xw)).

  Definition curve_separation_factor (m : Mixture) (c : Curve) : res (list (num N)) :=
    ys <- curve_permeate_composition c ;;
    xw <- mapM (fun x => to_weight N x m) (cv_xs c) ;;
    map3M (fun y x (_ : unit) => Ok ((first N y /! second N y) /! (first N x /! second N x))) ys xw (map (fun _ => tt) ys).

  Definition curve_psi (m : Mixture) (c : Curve) : res (list (num N)) :=
    sf <- curve_separation_factor m c ;;
    map3M (fun J s (_ : unit) => Ok ((#0 +! fst J +! snd J) *! (s -! #1))) (cv_J c) sf (map (fun _ => tt) sf).

  Definition curve_selectivity (m : Mixture) (c : Curve) : res (list (num N)) :=
    mapM (fun p => a <- convert N (fst p) SI (Some (c1 m)) ;; b <- convert N (snd p) SI (Some (c2 m)) ;;
                   Ok (pval a /! pval b)) (cv_P c).

  (* Pervaporation.ideal_diffusion_curve *)
  Definition ideal_diffusion_curve (PP : PPfun) (m : Mixture) (slv : SolveArgs N -> res (num N * num N))
      (T : num N) (xs : list Composition) (Tp pp : option (num N)) (prec : num N) (ct : ActModel) : res Curve :=
    Js <- mapM (fun x => slv {| sa_T := T; sa_x := x; sa_prec := prec; sa_Tp := Tp; sa_pp := pp;
                                sa_P1 := None; sa_P2 := None; sa_ct := ct |}) xs ;;
    mk_curve PP m {| ci_T := T; ci_xs := xs; ci_J := Some Js; ci_Tp := Tp; ci_pp := pp; ci_P := None |}.

  (* ProcessModel metrics (process.py 82-113) on reported series *)
  Definition process_separation_factor (y x : Composition) : num N :=
    (first N y /! second N y) /! (first N x /! second N x).
  Definition process_psi (J : num N * num N) (sf : num N) : num N := (#0 +! fst J +! snd J) *! (sf -! #1).
  Definition process_selectivity (P : Permeance * Permeance) : num N := pval (fst P) /! pval (snd P).
End Curve.

Arguments ci_T {N}. Arguments ci_xs {N}. Arguments ci_J {N}. Arguments ci_Tp {N}. Arguments ci_pp {N}. Arguments ci_P {N}.
Arguments cv_T {N}. Arguments cv_xs {N}. Arguments cv_J {N}. Arguments cv_Tp {N}. Arguments cv_pp {N}. Arguments cv_P {N}.
