(* Model of Pervaporation.non_ideal_diffusion_curve (pervaporation.py 622-840). *)
From Coq Require Import ZArith List Bool PrimFloat Arith.
From PV Require Import Num PyBase Model.Component Model.Mixture Model.Permeance Model.Solver Model.Process Model.Curve.
Import ListNotations.

Section NonIdealCurve.
  Context (N : NumOps).
  Local Notation "a +! b" := (add N a b) (at level 50, left associativity).
  Local Notation "a *! b" := (mul N a b) (at level 40, left associativity).
  Local Notation Composition := (Composition N).
  Local Notation Permeance := (Permeance N).

  Section Loop.
    Variables (slv : SolveArgs N -> res (num N * num N)) (f1 f2 : PervFn N) (FR1 FR2 : num N).
    Variables (T delta prec : num N) (Tp pp : option (num N)) (ct : ActModel).

    (* one point per iteration: the next composition is validated first, then the fluxes at the current point,
       then the permeances of the next point *)
    Fixpoint nic_loop (k : nat) (x : Composition) (P : Permeance * Permeance)
      : res (list (Composition * (num N * num N) * (Permeance * Permeance))) :=
      match k with
      | O => Ok []
      | S k' =>
          x' <- mk_comp N (first N x +! delta) Weight ;;
          J <- slv {| sa_T := T; sa_x := x; sa_prec := prec; sa_Tp := Tp; sa_pp := pp;
                      sa_P1 := Some (fst P); sa_P2 := Some (snd P); sa_ct := ct |} ;;
          p1 <- mk_permeance_m N (pf_call N f1 (first N x') T *! FR1) KG ;;
          p2 <- mk_permeance_m N (pf_call N f2 (first N x') T *! FR2) KG ;;
          rest <- nic_loop k' x' (p1, p2) ;;
          Ok ((x, J, P) :: rest)
      end.
  End Loop.

  Definition non_ideal_curve (PP : PPfun N) (m : Mixture N) slv (ea : Component N -> res (num N)) (single : option (num N))
      (raw1 raw2 : PervFn N) (T : num N) (x0 : Composition) (delta : num N) (n : nat) (Tp pp : option (num N))
      (ip : option (Permeance * Permeance)) (prec : num N) (ct : ActModel) : res (Curve N) :=
    fits <- nonideal_fits N single false T ea m raw1 raw2 ;;
    x0w <- to_weight N x0 m ;;
    init <- nonideal_initial N m (fst fits) (snd fits) x0w T ip ;;
    pts <- nic_loop slv (fst fits) (snd fits) (fst (snd init)) (snd (snd init)) T delta prec Tp pp ct (S n) x0w (fst init) ;;
    mk_curve N PP m {| ci_T := T; ci_xs := map (fun p => fst (fst p)) pts; ci_J := Some (map (fun p => snd (fst p)) pts);
                       ci_Tp := Tp; ci_pp := pp; ci_P := Some (map snd pts) |}.
End NonIdealCurve.
