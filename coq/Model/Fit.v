(* Model of pyvaporation/optimizer/optimizer.py (Measurements, PervaporationFunction.from_array,
   fit / find_best_fit selection logic over a [minimize] oracle) and fit_vle of uniquac_fitting.py. *)
From Coq Require Import ZArith List Bool PrimFloat Arith.
From PV Require Import Num PyBase Model.Component Model.Mixture Model.Permeance Model.Solver Model.Process.
Import ListNotations.

Section Fit.
  Context (N : NumOps).
  Local Notation "a -! b" := (sub N a b) (at level 50, left associativity).
  Local Notation "a ^! k" := (ipow N a k) (at level 30, right associativity).
  Local Notation "# k" := (ilit N k) (at level 9, format "# k").
  Local Notation Composition := (Composition N).
  Local Notation Permeance := (Permeance N).
  Local Notation PervFn := (PervFn N).

  Record Meas := { ms_x : num N; ms_t : num N; ms_p : num N }.

  (* one diffusion curve as seen by Measurements.from_diffusion_curve_*: temperature and points *)
  Record CurvePts := { cs_T : num N; cs_pts : list (Composition * (Permeance * Permeance)) }.

  Definition curve_measurements (m : Mixture N) (second_comp : bool) (c : CurvePts) : res (list Meas) :=
    mapM (fun pt => xw <- to_weight N (fst pt) m ;;
                    Ok {| ms_x := first N xw; ms_t := cs_T c;
                          ms_p := pval (if second_comp then snd (snd pt) else fst (snd pt)) |}) (cs_pts c).

  Fixpoint measurements (m : Mixture N) (second_comp : bool) (cs : list CurvePts) : res (list Meas) :=
    match cs with
    | [] => Ok []
    | c :: t => a <- curve_measurements m second_comp c ;; b <- measurements m second_comp t ;; Ok (a ++ b)
    end.

  (* PervaporationFunction.from_array *)
  Definition from_array (arr : list (num N)) (n m : nat) : res PervFn :=
    if Nat.eqb (length arr) (2 + n + m) then
      match arr with
      | [] => Err AssertionError
      | al :: rest => Ok {| pf_n := n; pf_m := m; pf_alpha := al; pf_a := firstn n rest; pf_b := skipn n rest |}
      end
    else Err AssertionError.

  (* sum of squared errors of a function on data (find_best_fit's loss) *)
  Definition sq_loss (c : PervFn) (data : list Meas) : num N :=
    psum N (map (fun d => (pf_call N c (ms_x d) (ms_t d) -! ms_p d) ^! 2) data).

  (* keep the first candidate whose loss is strictly smaller than the best so far (best_loss starts at +inf) *)
  Fixpoint best_of {A} (cands : list (A * num N)) (best : option (A * num N)) : option (A * num N) :=
    match cands with
    | [] => best
    | (c, l) :: t =>
        match best with
        | None => best_of t (Some (c, l))
        | Some (_, bl) => if ltb N l bl then best_of t (Some (c, l)) else best_of t best
        end
    end.

  Definition grid_of (n m : nat) : list (nat * nat) :=
    flat_map (fun i => map (fun j => (i, j)) (seq 0 (S m))) (seq 0 (S n)).

  (* find_best_fit with explicit maximum orders; [fitf i j] is fit(data, n=i, m=j, include_zero, component_index) *)
  Definition find_best_fit (fitf : nat -> nat -> PervFn) (grid : list (nat * nat)) (data : list Meas) : option PervFn :=
    match best_of (map (fun ij => (fitf (fst ij) (snd ij), sq_loss (fitf (fst ij) (snd ij)) data)) grid) None with
    | Some (c, _) => Some c
    | None => None
    end.

  (* fit: optional zero points (one per distinct temperature, in the iteration order [uniq] of a Python set),
     then the minimiser (oracle) and from_array *)
  Definition zero_points (idx : nat) (temps : list (num N)) : list Meas :=
    map (fun t => {| ms_x := ilit N (Z.of_nat idx); ms_t := t; ms_p := #0 |}) temps.
  Definition fit_data (uniq : list (num N) -> list (num N)) (data : list Meas) (iz : bool) (idx : nat) : list Meas :=
    if iz then data ++ zero_points idx (uniq (map ms_t data)) else data.
  Definition fit (minimize : list Meas -> nat -> nat -> list (num N)) (uniq : list (num N) -> list (num N))
      (data : list Meas) (n m : nat) (iz : bool) (idx : nat) : res PervFn :=
    if Nat.leb idx 1 then from_array (minimize (fit_data uniq data iz idx) n m) n m else Err ValueError.

  (* fit_vle: best of the optimisation methods, error starts at 1000 *)
  Fixpoint vle_best (cands : list (list (num N) * num N)) (best : list (num N)) (err : num N) : list (num N) :=
    match cands with
    | [] => best
    | (x, e) :: t => if ltb N e err then vle_best t x e else vle_best t best err
    end.
End Fit.

Arguments ms_x {N}. Arguments ms_t {N}. Arguments ms_p {N}. Arguments cs_T {N}. Arguments cs_pts {N}.
