(* Executable comparison helpers for the numeric correspondence (coq/cases/Num_*.v): the model instantiated at
   binary64 (FOps) is run by vm_compute on the inputs the implementation was run on. *)
From Coq Require Import ZArith List Bool PrimFloat Arith.
From PV Require Import Num FNum PyBase Model.Component Model.Mixture Model.Permeance Model.Solver Model.Membrane
  Model.Process Model.Curve Model.NonIdealCurve Model.Fit Model.Persist Model.PersistCheck.
Import ListNotations.
Open Scope bool_scope.

Definition tol : float := 0x1.ad7f29abcaf48p-24%float.    (* 1e-7 *)
Definition fnear (a b : float) : bool :=
  fclose_tol tol a b || PrimFloat.leb (PrimFloat.abs (a - b)) 0x1p-900%float.

Definition pair_near (a b : float * float) : bool := fnear (fst a) (fst b) && fnear (snd a) (snd b).
Definition opt_near (a b : option float) : bool :=
  match a, b with Some x, Some y => fnear x y | None, None => true | _, _ => false end.
Definition comp_near (a b : Composition FOps) : bool := fnear (cp a) (cp b) && ctype_eqb (ctype a) (ctype b).
Definition perm_near (a b : Permeance FOps) : bool := fnear (pval a) (pval b) && units_eqb (punits a) (punits b).

Definition row_near (a b : PRow FOps) : bool :=
  fnear (r_time a) (r_time b) && fnear (r_m a) (r_m b) && comp_near (r_x a) (r_x b) && fnear (r_T a) (r_T b)
  && perm_near (fst (r_P a)) (fst (r_P b)) && perm_near (snd (r_P a)) (snd (r_P b))
  && pair_near (r_J a) (r_J b) && comp_near (r_y a) (r_y b) && fnear (r_Q a) (r_Q b) && opt_near (r_Qc a) (r_Qc b).

(* outcome of the implementation: a value, or "raised" (any exception class of the ValueError family /
   ZeroDivisionError / a non-finite result, identified as one class) *)
Inductive Outcome (A : Type) := Returned (a : A) | Raised.
Arguments Returned {A}. Arguments Raised {A}.

Definition agree {A} (near : A -> A -> bool) (model : res A) (impl : Outcome A) : bool :=
  match model, impl with
  | Ok a, Returned b => near a b
  | Err _, Raised => true
  | _, _ => false
  end.

Definition rows_near := list_eqb row_near.

(* the membrane as a function usable by the process / solver models *)
Definition perm_of (exps : option (list (Experiment FOps))) : float -> Component FOps -> res (Permeance FOps) :=
  fun T c => get_permeance FOps exps T c None.

(* ---- curves, non-ideal curves, fits ---- *)
Definition ppair_near (a b : Permeance FOps * Permeance FOps) : bool := perm_near (fst a) (fst b) && perm_near (snd a) (snd b).
Definition nums_near := list_eqb fnear.
Definition metrics_near (a b : list (float * float) * list (Permeance FOps * Permeance FOps) * list float * (list float * list float * list float)) : bool :=
  let '(ja, pa, ya, (sa, qa, la)) := a in
  let '(jb, pb, yb, (sb, qb, lb)) := b in
  list_eqb pair_near ja jb && list_eqb ppair_near pa pb && nums_near ya yb && nums_near sa sb && nums_near qa qb && nums_near la lb.
Definition nicurve_near (a b : list (Composition FOps) * list (float * float) * list (Permeance FOps * Permeance FOps)) : bool :=
  let '(xa, ja, pa) := a in
  let '(xb, jb, pb) := b in
  list_eqb comp_near xa xb && list_eqb pair_near ja jb && list_eqb ppair_near pa pb.
Definition meas_near (a b : list (float * (float * float))) : bool :=
  list_eqb (fun p q => fnear (fst p) (fst q) && pair_near (snd p) (snd q)) a b.
