(* Executable comparison functions for the persistence correspondence (coq/cases/Persist_*.v). *)
From Coq Require Import ZArith List Bool PrimFloat Arith.
From PV Require Import Num FNum PyBase Model.Component Model.Mixture Model.Permeance Model.Solver Model.Process Model.Persist.
Import ListNotations.

Definition ctype_eqb (a b : CType) : bool := match a, b with Molar, Molar | Weight, Weight => true | _, _ => false end.

Definition cell_eqb (exact : bool) (a b : Cell FOps) : bool :=
  match a, b with
  | CNum x, CNum y => if exact then PrimFloat.eqb x y else fclose x y
  | CEmpty, CEmpty => true
  | CName x, CName y => Nat.eqb x y
  | CCType x, CCType y => ctype_eqb x y
  | CUnits x, CUnits y => units_eqb x y
  | _, _ => false
  end.

Fixpoint list_eqb {A} (f : A -> A -> bool) (l l' : list A) : bool :=
  match l, l' with
  | [], [] => true
  | a :: t, b :: t' => f a b && list_eqb f t t'
  | _, _ => false
  end.

Definition table_eqb (exact : bool) (t t' : list (list (Cell FOps))) : bool := list_eqb (list_eqb (cell_eqb exact)) t t'.

Definition opt_close (a b : option float) : bool :=
  match a, b with Some x, Some y => fclose x y | None, None => true | _, _ => false end.
Definition comp_close (a b : Composition FOps) : bool := fclose (cp a) (cp b) && ctype_eqb (ctype a) (ctype b).
Definition perm_close (a b : Permeance FOps) : bool := fclose (pval a) (pval b) && units_eqb (punits a) (punits b).

Definition row_close (a b : PRow FOps) : bool :=
  fclose (r_time a) (r_time b) && fclose (r_m a) (r_m b) && comp_close (r_x a) (r_x b) && fclose (r_T a) (r_T b)
  && perm_close (fst (r_P a)) (fst (r_P b)) && perm_close (snd (r_P a)) (snd (r_P b))
  && fclose (fst (r_J a)) (fst (r_J b)) && fclose (snd (r_J a)) (snd (r_J b)) && comp_close (r_y a) (r_y b)
  && fclose (r_Q a) (r_Q b) && opt_close (r_Qc a) (r_Qc b).

Definition loaded_close (model : res (list (PRow FOps) * option float * option float))
    (impl : list (PRow FOps) * option float * option float) : bool :=
  match model with
  | Ok (rows, tp, pp) => list_eqb row_close rows (fst (fst impl)) && opt_close tp (snd (fst impl)) && opt_close pp (snd impl)
  | Err _ => false
  end.

Definition mk_mix (M1 M2 : float) : Mixture FOps :=
  let z := 0%float in
  let c := fun M : float => Build_Component FOps 0%nat M (Build_VPConst FOps Antoine z z z) (Build_HCConst FOps z z z z) None in
  Build_Mixture FOps (c M1) (c M2) None None.
