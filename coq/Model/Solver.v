(* Model of the flux solver of pyvaporation/pervaporation/pervaporation.py (lines 18-216):
   get_permeate_composition_from_fluxes, get_partial_fluxes_from_permeate_composition,
   calculate_partial_fluxes and the two helpers built on it. *)
From Coq Require Import ZArith List Bool PrimFloat Arith.
From PV Require Import Num PyBase Model.Component Model.Mixture Model.Permeance.
Import ListNotations.

Section Solver.
  Context (N : NumOps).
  Local Notation "a +! b" := (add N a b) (at level 50, left associativity).
  Local Notation "a -! b" := (sub N a b) (at level 50, left associativity).
  Local Notation "a *! b" := (mul N a b) (at level 40, left associativity).
  Local Notation "a /! b" := (div N a b) (at level 40, left associativity).
  Local Notation "# k" := (ilit N k) (at level 9, format "# k").
  Local Notation Composition := (Composition N).
  Local Notation Permeance := (Permeance N).
  Local Notation Mixture := (Mixture N).

  (* Composition(p = J1 / sum((J1, J2)), type = weight); Python's sum starts from int 0 *)
  Definition comp_of_fluxes (J : num N * num N) : res Composition :=
    mk_comp N (fst J /! (#0 +! fst J +! snd J)) Weight.

  Record FluxArgs := {
    fa_P1 : Permeance; fa_P2 : Permeance;
    fa_y : Composition;            (* permeate composition *)
    fa_x : Composition;            (* feed composition *)
    fa_T : num N;
    fa_Tp : option (num N); fa_pp : option (num N);
    fa_ct : ActModel }.

  (* [fix4 = false]: permeate-pressure branch as written (pressure * MASS fraction; finding F4);
     [fix4 = true]: pressure * mole fraction, the law DiffusionCurve inverts with *)
  Definition permeate_pressures_gen (spec fix4 : bool) (m : Mixture) (a : FluxArgs)
    : res (num N * num N) :=
    match fa_Tp a, fa_pp a with
    | None, None => Ok (#0, #0)
    | Some tp, None => partial_pressures_gen N spec tp m (fa_y a) (fa_ct a)
    | None, Some p =>
        if fix4
        then ym <- to_molar N (fa_y a) m ;; Ok (p *! first N ym, p *! second N ym)
        else Ok (p *! first N (fa_y a), p *! second N (fa_y a))
    | Some _, Some _ => Err ValueError
    end.

  Definition fluxes_from_permeate_gen (spec fix4 : bool) (m : Mixture) (a : FluxArgs)
    : res (num N * num N) :=
    pf <- partial_pressures_gen N spec (fa_T a) m (fa_x a) (fa_ct a) ;;
    pp <- permeate_pressures_gen spec fix4 m a ;;
    Ok (pval (fa_P1 a) *! (fst pf -! fst pp), pval (fa_P2 a) *! (snd pf -! snd pp)).
  Definition fluxes_from_permeate := fluxes_from_permeate_gen false false.

  (* ---- the fixed-point loop ---- *)
  Definition step_dist (y' y : Composition) : num N :=
    nmax N (nabs N (first N y' -! first N y)) (nabs N (second N y' -! second N y)).

  (* [fuel] = remaining iterations allowed by the cap; running out raises ValueError *)
  Fixpoint solve_loop (fuel : nat) (F : Composition -> res (num N * num N))
      (prec d : num N) (y : Composition) : res Composition :=
    if leb N prec d then
      match fuel with
      | O => Err ValueError
      | S f =>
          J <- F y ;;
          y' <- comp_of_fluxes J ;;
          solve_loop f F prec (step_dist y' y) y'
      end
    else Ok y.

  Definition solver_cap : nat := Nat.mul 100 100.

  Record SolveArgs := {
    sa_T : num N;
    sa_x : Composition;
    sa_prec : num N;
    sa_Tp : option (num N); sa_pp : option (num N);
    sa_P1 : option Permeance; sa_P2 : option Permeance;
    sa_ct : ActModel }.

  (* [perm T k] models membrane.get_permeance(T, component k) *)
  Definition resolve_permeances (m : Mixture)
      (perm : num N -> Component N -> res Permeance) (a : SolveArgs) : res (Permeance * Permeance) :=
    match sa_P1 a, sa_P2 a with
    | Some p1, Some p2 => Ok (p1, p2)
    | _, _ =>
        q1 <- perm (sa_T a) (c1 m) ;; q1 <- convert N q1 KG (Some (c1 m)) ;;
        q2 <- perm (sa_T a) (c2 m) ;; q2 <- convert N q2 KG (Some (c2 m)) ;;
        Ok (q1, q2)
    end.

  Definition mk_flux_args (a : SolveArgs) (P : Permeance * Permeance) (y : Composition) : FluxArgs :=
    {| fa_P1 := fst P; fa_P2 := snd P; fa_y := y; fa_x := sa_x a; fa_T := sa_T a;
       fa_Tp := sa_Tp a; fa_pp := sa_pp a; fa_ct := sa_ct a |}.

  (* calculate_partial_fluxes with the driving-force evaluation [F] abstract (it is
     [fluxes_from_permeate m] in the real code; the bridge of the loop keeps it and the feed
     partial pressures [PP] abstract) *)
  Definition solve_with (cap : nat)
      (PP : num N -> Composition -> ActModel -> res (num N * num N))
      (F : FluxArgs -> res (num N * num N)) (m : Mixture)
      (perm : num N -> Component N -> res Permeance) (a : SolveArgs) : res (num N * num N) :=
    P <- resolve_permeances m perm a ;;
    pf <- PP (sa_T a) (sa_x a) (sa_ct a) ;;
    y0 <- comp_of_fluxes (pval (fst P) *! fst pf, pval (snd P) *! snd pf) ;;
    y <- solve_loop cap (fun y => F (mk_flux_args a P y)) (sa_prec a) #1 y0 ;;
    F (mk_flux_args a P y).

  Definition solve_gen (spec fix4 : bool) (m : Mixture) perm a :=
    solve_with solver_cap (fun T x ct => partial_pressures_gen N spec T m x ct)
               (fluxes_from_permeate_gen spec fix4 m) m perm a.
  Definition solve := solve_gen false false.

  (* helpers *)
  Definition permeate_composition (slv : SolveArgs -> res (num N * num N)) (a : SolveArgs) : res Composition :=
    J <- slv a ;; mk_comp N (fst J /! (fst J +! snd J)) Weight.

  Definition separation_factor (m : Mixture) (slv : SolveArgs -> res (num N * num N)) (a : SolveArgs)
    : res (num N) :=
    y <- permeate_composition slv a ;;
    x <- to_weight N (sa_x a) m ;;
    Ok ((second N x /! first N x) /! (second N y /! first N y)).
End Solver.

Arguments fa_P1 {N}. Arguments fa_P2 {N}. Arguments fa_y {N}. Arguments fa_x {N}. Arguments fa_T {N}.
Arguments fa_Tp {N}. Arguments fa_pp {N}. Arguments fa_ct {N}.
Arguments sa_T {N}. Arguments sa_x {N}. Arguments sa_prec {N}. Arguments sa_Tp {N}. Arguments sa_pp {N}.
Arguments sa_P1 {N}. Arguments sa_P2 {N}. Arguments sa_ct {N}.
