(* Model of TemperatureProgram / Conditions (conditions.py), PervaporationFunction evaluation
   (optimizer.py) and the four process models of pervaporation.py. *)
From Coq Require Import ZArith List Bool PrimFloat Arith.
From PV Require Import Num PyBase Model.Component Model.Mixture Model.Permeance Model.Solver.
Import ListNotations.

Inductive ProgType := Poly | Expo | Loga | OtherProg.
Inductive PKind := IdealIso | IdealNonIso | NonIdealIso | NonIdealNonIso.

Section Process.
  Context (N : NumOps).
  Local Notation "a +! b" := (add N a b) (at level 50, left associativity).
  Local Notation "a -! b" := (sub N a b) (at level 50, left associativity).
  Local Notation "a *! b" := (mul N a b) (at level 40, left associativity).
  Local Notation "a /! b" := (div N a b) (at level 40, left associativity).
  Local Notation "a ^! k" := (ipow N a k) (at level 30, right associativity).
  Local Notation "# k" := (ilit N k) (at level 9, format "# k").
  Local Notation Composition := (Composition N).
  Local Notation Permeance := (Permeance N).
  Local Notation Mixture := (Mixture N).
  Local Notation Component := (Component N).

  (* ---------- TemperatureProgram ---------- *)
  Record TProg := { tp_coef : list (num N); tp_type : ProgType }.

  (* [c_i * x ** (i + off)] for the list starting at index i0 *)
  Fixpoint poly_terms (cs : list (num N)) (x : num N) (e : nat) : list (num N) :=
    match cs with [] => [] | c :: t => (c *! x ^! e) :: poly_terms t x (S e) end.

  Definition program (p : TProg) (t : num N) : res (num N) :=
    match tp_type p with
    | Poly => Ok (psum N (poly_terms (tp_coef p) t 0))
    | Expo => match tp_coef p with
              | [] => Err IndexError
              | c0 :: cs => Ok (c0 *! nexp N (psum N (poly_terms cs t 0)))
              end
    | Loga => match tp_coef p with
              | [] => Err IndexError
              | c0 :: cs => Ok (c0 *! nln N (psum N (poly_terms cs t 0)))
              end
    | OtherProg => Err AttributeError
    end.

  Record Conditions := {
    cd_A : num N; cd_T0 : num N; cd_m0 : num N; cd_x0 : Composition;
    cd_Tp : option (num N); cd_pp : option (num N); cd_prog : option TProg }.

  (* ---------- PervaporationFunction ---------- *)
  Record PervFn := { pf_n : nat; pf_m : nat; pf_alpha : num N; pf_a : list (num N); pf_b : list (num N) }.
  Definition pf_call (f : PervFn) (x t : num N) : num N :=
    pf_alpha f *! nexp N (psum N (poly_terms (pf_a f) x 1) -! psum N (poly_terms (pf_b f) x 0) /! t).
  Definition pf_mul (f : PervFn) (c : num N) : PervFn :=
    {| pf_n := pf_n f; pf_m := pf_m f; pf_alpha := pf_alpha f *! c; pf_a := pf_a f; pf_b := pf_b f |}.

  (* ---------- heats ---------- *)
  Definition latent_per_kg (c : Component) (T : num N) : res (num N) :=
    h <- vaporisation_heat N c T ;; Ok (h /! mw c *! #1000).

  Record PRow := {
    r_time : num N; r_m : num N; r_x : Composition; r_T : num N;
    r_P : Permeance * Permeance; r_J : num N * num N; r_y : Composition;
    r_Q : num N; r_Qc : option (num N) }.
  Record PState := { st_m : num N; st_x : Composition; st_T : num N; st_P : Permeance * Permeance }.

  Section Run.
    Variable kind : PKind.
    Variable m : Mixture.
    Variable cd : Conditions.
    Variables (dt prec : num N) (ct : ActModel).
    Variable slv : SolveArgs N -> res (num N * num N).
    Variable perm : num N -> Component -> res Permeance.    (* membrane.get_permeance *)
    Variables (f1 f2 : PervFn) (FR1 FR2 : num N).            (* non-ideal kinds only *)

    Definition is_iso : bool := match kind with IdealIso | NonIdealIso => true | _ => false end.

    Definition step_permeances (st : PState) : res (Permeance * Permeance) :=
      match kind with
      | IdealNonIso =>
          p1 <- perm (st_T st) (c1 m) ;; p2 <- perm (st_T st) (c2 m) ;; Ok (p1, p2)
      | _ => Ok (st_P st)
      end.

    Definition cond_heat (T d1 d2 : num N) : res (option (num N)) :=
      match cd_Tp cd with
      | None => Ok None
      | Some tp =>
          k1 <- latent_per_kg (c1 m) tp ;;
          k2 <- latent_per_kg (c2 m) tp ;;
          let s1 := cooling_heat N (c1 m) T tp in
          let s2 := cooling_heat N (c2 m) T tp in
          Ok (Some (k1 *! d1 +! k2 *! d2 +! (s1 *! d1 +! s2 *! d2) *! (T -! tp)))
      end.

    Definition next_temperature (k : nat) (st : PState) (Q : num N) : res (num N) :=
      if is_iso then Ok (st_T st)
      else
        T' <- match cd_prog cd with
              | None =>
                  let hc1 := specific_heat N (c1 m) (st_T st) /! mw (c1 m) in
                  let hc2 := specific_heat N (c2 m) (st_T st) /! mw (c2 m) in
                  let cpm := first N (st_x st) *! hc1 +! second N (st_x st) *! hc2 in
                  Ok (st_T st -! Q /! (cpm *! st_m st))
              | Some pr => program pr (dt *! ilit N (Z.of_nat k) +! dt)
              end ;;
        if ltb N #0 T' then Ok T' else Err ValueError.

    Definition next_permeances (st : PState) (x' : Composition) (T' : num N) : res (Permeance * Permeance) :=
      match kind with
      | NonIdealIso =>
          p1 <- mk_permeance_m N (pf_call f1 (first N (st_x st)) (cd_T0 cd) *! FR1) KG ;;
          p2 <- mk_permeance_m N (pf_call f2 (first N (st_x st)) (cd_T0 cd) *! FR2) KG ;;
          Ok (p1, p2)
      | NonIdealNonIso =>
          p1 <- mk_permeance_m N (pf_call f1 (first N x') T' *! FR1) KG ;;
          p2 <- mk_permeance_m N (pf_call f2 (first N x') T' *! FR2) KG ;;
          Ok (p1, p2)
      | _ => Ok (st_P st)
      end.

    Definition step (k : nat) (st : PState) : res (PRow * PState) :=
      let T := st_T st in
      e1 <- latent_per_kg (c1 m) T ;;
      e2 <- latent_per_kg (c2 m) T ;;
      P <- step_permeances st ;;
      J <- slv {| sa_T := T; sa_x := st_x st; sa_prec := prec; sa_Tp := cd_Tp cd; sa_pp := cd_pp cd;
                  sa_P1 := Some (fst P); sa_P2 := Some (snd P); sa_ct := ct |} ;;
      y <- mk_comp N (fst J /! (#0 +! fst J +! snd J)) Weight ;;
      let d1 := fst J *! cd_A cd *! dt in
      let d2 := snd J *! cd_A cd *! dt in
      Qc <- cond_heat T d1 d2 ;;
      let Q := e1 *! d1 +! e2 *! d2 in
      let m' := st_m st -! d1 -! d2 in
      if ltb N #0 m' then
        x' <- mk_comp N ((cp (st_x st) *! st_m st -! d1) /! m') Weight ;;
        T' <- next_temperature k st Q ;;
        P' <- next_permeances st x' T' ;;
        Ok ({| r_time := dt *! ilit N (Z.of_nat k); r_m := st_m st; r_x := st_x st; r_T := T; r_P := P;
               r_J := J; r_y := y; r_Q := Q; r_Qc := Qc |},
            {| st_m := m'; st_x := x'; st_T := T'; st_P := P' |})
      else Err ValueError.

    Fixpoint run_from (n k : nat) (st : PState) : res (list PRow) :=
      match n with
      | O => Ok []
      | S n' =>
          rs <- step k st ;;
          rows <- run_from n' (S k) (snd rs) ;;
          Ok (fst rs :: rows)
      end.
  End Run.

  (* ---------- entry points ---------- *)
  Definition dummy_fn : PervFn := {| pf_n := 0; pf_m := 0; pf_alpha := #0; pf_a := []; pf_b := [] |}.

  Definition ideal_isothermal (m : Mixture) (cd : Conditions) (n : nat) (dt prec : num N) (ct : ActModel)
      slv (perm : num N -> Component -> res Permeance) : res (list PRow) :=
    p1 <- perm (cd_T0 cd) (c1 m) ;;
    p2 <- perm (cd_T0 cd) (c2 m) ;;
    x0 <- to_weight N (cd_x0 cd) m ;;
    run_from IdealIso m cd dt prec ct slv perm dummy_fn dummy_fn #0 #0 n 0
      {| st_m := cd_m0 cd; st_x := x0; st_T := cd_T0 cd; st_P := (p1, p2) |}.

  Definition ideal_non_isothermal (m : Mixture) (cd : Conditions) (n : nat) (dt prec : num N) (ct : ActModel)
      slv (perm : num N -> Component -> res Permeance) : res (list PRow) :=
    x0 <- to_weight N (cd_x0 cd) m ;;
    run_from IdealNonIso m cd dt prec ct slv perm dummy_fn dummy_fn #0 #0 n 0
      {| st_m := cd_m0 cd; st_x := x0; st_T := cd_T0 cd;
         st_P := ({| pval := #0; punits := KG |}, {| pval := #0; punits := KG |}) |}.

  (* initial permeances and facilitation factors of the non-ideal models, from the two fitted functions *)
  Definition nonideal_initial (m : Mixture) (f1 f2 : PervFn) (x0 : Composition) (T0 : num N)
      (ip : option (Permeance * Permeance)) : res ((Permeance * Permeance) * (num N * num N)) :=
    P0 <- match ip with
          | None => Ok (mk_permeance N (pf_call f1 (first N x0) T0) KG, mk_permeance N (pf_call f2 (first N x0) T0) KG)
          | Some ip =>
              q1 <- convert N (fst ip) KG (Some (c1 m)) ;;
              q2 <- convert N (snd ip) KG (Some (c2 m)) ;;
              Ok (q1, q2)
          end ;;
    Ok (P0, (pval (fst P0) /! pf_call f1 (first N x0) T0, pval (snd P0) /! pf_call f2 (first N x0) T0)).

  Definition non_ideal_process (iso : bool) (m : Mixture) (cd : Conditions) (n : nat) (dt prec : num N)
      (ct : ActModel) slv (f1 f2 : PervFn) (ip : option (Permeance * Permeance)) : res (list PRow) :=
    x0 <- to_weight N (cd_x0 cd) m ;;
    init <- nonideal_initial m f1 f2 x0 (cd_T0 cd) ip ;;
    run_from (if iso then NonIdealIso else NonIdealNonIso) m cd dt prec ct slv (fun _ _ => Err ValueError)
      f1 f2 (fst (snd init)) (snd (snd init)) n 0
      {| st_m := cd_m0 cd; st_x := x0; st_T := cd_T0 cd; st_P := fst init |}.

  (* ---------- single-curve Arrhenius re-scaling of a fitted function ---------- *)
  Definition rescale_fit (f : PervFn) (Ea Tc : num N) : res PervFn :=
    match pf_b f with
    | [] => Err IndexError
    | b0 :: bt =>
        Ok {| pf_n := pf_n f; pf_m := pf_m f;
              pf_alpha := pf_alpha f *! nexp N (neg N b0 /! Tc +! Ea /! (Rgas N *! Tc));
              pf_a := pf_a f; pf_b := (Ea /! Rgas N) :: bt |}
    end.

  (* which fits the non-ideal entry points use, from the raw results of find_best_fit:
     [single = Some Tc]: the curve set has exactly one curve, measured at Tc;
     [always]: the non-isothermal process re-scales unconditionally, the others only when Tc <> T *)
  Definition nonideal_fits (single : option (num N)) (always : bool) (T : num N)
      (ea : Component -> res (num N)) (m : Mixture) (raw1 raw2 : PervFn) : res (PervFn * PervFn) :=
    match single with
    | None => Ok (raw1, raw2)
    | Some Tc =>
        if always then
          e1 <- ea (c1 m) ;; e2 <- ea (c2 m) ;;
          g1 <- rescale_fit raw1 e1 Tc ;; g2 <- rescale_fit raw2 e2 Tc ;; Ok (g1, g2)
        else if eqb N Tc T then Ok (raw1, raw2)
        else
          e1 <- ea (c1 m) ;; e2 <- ea (c2 m) ;;
          g1 <- rescale_fit raw1 e1 Tc ;; g2 <- rescale_fit raw2 e2 Tc ;; Ok (g1, g2)
    end.

  Definition non_ideal_entry (iso : bool) (m : Mixture) (cd : Conditions) (n : nat) (dt prec : num N)
      (ct : ActModel) slv (ea : Component -> res (num N)) (single : option (num N))
      (raw1 raw2 : PervFn) (ip : option (Permeance * Permeance)) (curve_xs : list Composition)
    : res (list PRow * (PervFn * PervFn)) :=
    (* the opening loop converts every mole-fraction composition of the curve set and discards the result
       (only its validation can have an effect) *)
    _ <- mapM (fun c => to_weight N c m) curve_xs ;;
    fits <- nonideal_fits single (negb iso) (cd_T0 cd) ea m raw1 raw2 ;;
    rows <- non_ideal_process iso m cd n dt prec ct slv (fst fits) (snd fits) ip ;;
    Ok (rows, fits).

  (* what is requested from find_best_fit *)
  Record FitReq := { fq_n : option nat; fq_m : option nat; fq_iz : bool; fq_idx : nat }.
  Definition fit_requests (process : bool) (single : bool) (n1 m1 n2 m2 : option nat) (iz : bool)
    : FitReq * FitReq :=
    if single then
      ({| fq_n := n1; fq_m := Some 0%nat; fq_iz := (if process then false else iz); fq_idx := 0 |},
       {| fq_n := n2; fq_m := Some 0%nat; fq_iz := (if process then false else iz); fq_idx := 1 |})
    else
      ({| fq_n := n1; fq_m := m1; fq_iz := iz; fq_idx := 0 |},
       {| fq_n := n2; fq_m := m2; fq_iz := iz; fq_idx := 1 |}).
End Process.

Arguments tp_coef {N}. Arguments tp_type {N}.
Arguments cd_A {N}. Arguments cd_T0 {N}. Arguments cd_m0 {N}. Arguments cd_x0 {N}. Arguments cd_Tp {N}.
Arguments cd_pp {N}. Arguments cd_prog {N}.
Arguments pf_n {N}. Arguments pf_m {N}. Arguments pf_alpha {N}. Arguments pf_a {N}. Arguments pf_b {N}.
Arguments r_time {N}. Arguments r_m {N}. Arguments r_x {N}. Arguments r_T {N}. Arguments r_P {N}.
Arguments r_J {N}. Arguments r_y {N}. Arguments r_Q {N}. Arguments r_Qc {N}.
Arguments st_m {N}. Arguments st_x {N}. Arguments st_T {N}. Arguments st_P {N}.
