(* Model of the remaining persistence entry points:
     DiffusionCurve.save / DiffusionCurve.from_frame (diffusion_curve.py; DiffusionCurveSet.load groups by curve_id and
     calls from_frame per group), PervaporationFunction.safe_save / safe_load (optimizer.py) and
     Conditions.safe_save / safe_load (conditions.py).
   Storage itself (pandas CSV, json) is an oracle assumed to hand back what it was given; the column / key maps, the unit
   and composition conversions on load and the re-construction through DiffusionCurve.__attrs_post_init__ are modelled. *)
From Coq Require Import ZArith List Bool Arith.
From PV Require Import Num PyBase Model.Component Model.Mixture Model.Permeance Model.Solver Model.Process Model.Curve
  Model.Persist.
Import ListNotations.

Section PersistCurve.
  Context (N : NumOps).
  Local Notation Composition := (Composition N).
  Local Notation Permeance := (Permeance N).
  Local Notation Cell := (Cell N).

  (* ---------------- DiffusionCurve.save: one line per feed composition, DC_SET_COLUMNS order ---------------- *)
  Definition save_curve_row (curve_id membrane mixture comment : nat) (T : num N) (Tp pp : option (num N))
      (x : Composition) (J : num N * num N) (P : Permeance * Permeance) : list Cell :=
    [ CName curve_id; CName membrane; CName mixture; CNum T; cell_opt N Tp; cell_opt N pp;
      CNum (cp x); CCType (ctype x); CNum (fst J); CNum (snd J); CNum (pval (fst P)); CNum (pval (snd P));
      CUnits (punits (fst P)); CName comment ].

  (* pandas.DataFrame({...}) raises ValueError when the columns have different lengths *)
  Definition save_curve (curve_id membrane mixture comment : nat) (c : Curve N) : res (list (list Cell)) :=
    map3M (fun x J P => Ok (save_curve_row curve_id membrane mixture comment (cv_T c) (cv_Tp c) (cv_pp c) x J P))
          (cv_xs c) (cv_J c) (cv_P c).

  (* ---------------- DiffusionCurve.from_frame ---------------- *)
  Definition cell_num (c : Cell) : option (num N) := match c with CNum v => Some v | _ => None end.
  Definition col (k : nat) (row : list Cell) : Cell := nth k row CEmpty.

  (* data[col].isna().mean() == 0 : every line has a value (an empty frame never reaches from_frame) *)
  Definition all_present (k : nat) (table : list (list Cell)) : bool :=
    forallb (fun row => match col k row with CEmpty => false | _ => true end) table.

  Definition row_fluxes (row : list Cell) : res (num N * num N) :=
    match cell_num (col 8 row), cell_num (col 9 row) with
    | Some a, Some b => Ok (a, b)
    | _, _ => Err TypeError
    end.

  Definition row_permeances (m : Mixture N) (u0 : Units) (row : list Cell) : res (Permeance * Permeance) :=
    match cell_num (col 10 row), cell_num (col 11 row) with
    | Some a, Some b =>
        p1 <- convert N (mk_permeance N a u0) KG (Some (c1 m)) ;;
        p2 <- convert N (mk_permeance N b u0) KG (Some (c2 m)) ;;
        Ok (p1, p2)
    | _, _ => Err TypeError
    end.

  Definition row_composition (m : Mixture N) (row : list Cell) : res Composition :=
    match col 6 row, col 7 row with
    | CNum p, CCType t => c <- mk_comp N p t ;; to_weight N c m
    | _, _ => Err ValueError
    end.

  Definition load_curve (PP : PPfun N) (m : Mixture N) (table : list (list Cell)) : res (Curve N) :=
    match table with
    | [] => Err IndexError
    | row0 :: _ =>
        J <- (if all_present 8 table && all_present 9 table then Js <- mapM row_fluxes table ;; Ok (Some Js) else Ok None) ;;
        P <- (if all_present 10 table && all_present 11 table && all_present 12 table then
                match col 12 row0 with
                | CUnits u0 => Ps <- mapM (row_permeances m u0) table ;; Ok (Some Ps)
                | _ => Err ValueError
                end
              else Ok None) ;;
        match J, P with
        | None, None => Err ValueError
        | _, _ =>
            match cell_num (col 3 row0) with
            | None => Err TypeError
            | Some T =>
                xs <- mapM (row_composition m) table ;;
                mk_curve N PP m {| ci_T := T; ci_xs := xs; ci_J := J; ci_Tp := cell_num (col 4 row0);
                                   ci_pp := cell_num (col 5 row0); ci_P := P |}
            end
        end
    end.

  (* ---------------- JSON forms ---------------- *)
  Inductive JKey := K_n | K_m | K_alpha | K_a | K_b
                  | K_area | K_T0 | K_m0 | K_xval | K_xtype | K_Tp | K_pp.
  Inductive JVal := JNum (v : num N) | JNat (k : nat) | JList (l : list (num N)) | JNull | JCType (t : CType).

  Definition jkey_eqb (a b : JKey) : bool :=
    match a, b with
    | K_n, K_n | K_m, K_m | K_alpha, K_alpha | K_a, K_a | K_b, K_b | K_area, K_area | K_T0, K_T0 | K_m0, K_m0
    | K_xval, K_xval | K_xtype, K_xtype | K_Tp, K_Tp | K_pp, K_pp => true
    | _, _ => false
    end.
  Definition JObj := list (JKey * JVal).
  Fixpoint jget (k : JKey) (o : JObj) : res JVal :=
    match o with [] => Err KeyError | (k', v) :: t => if jkey_eqb k k' then Ok v else jget k t end.

  Definition jopt (o : option (num N)) : JVal := match o with Some v => JNum v | None => JNull end.

  (* PervaporationFunction.safe_save / safe_load: the attrs class has no validators, values are passed through *)
  Definition pf_to_json (f : PervFn N) : JObj :=
    [ (K_n, JNat (pf_n f)); (K_m, JNat (pf_m f)); (K_alpha, JNum (pf_alpha f)); (K_a, JList (pf_a f)); (K_b, JList (pf_b f)) ].
  Definition pf_from_json (o : JObj) : res (PervFn N) :=
    n <- jget K_n o ;; m <- jget K_m o ;; al <- jget K_alpha o ;; a <- jget K_a o ;; b <- jget K_b o ;;
    match n, m, al, a, b with
    | JNat n, JNat m, JNum al, JList a, JList b => Ok {| pf_n := n; pf_m := m; pf_alpha := al; pf_a := a; pf_b := b |}
    | _, _, _, _, _ => Err TypeError
    end.

  (* Conditions.safe_save / safe_load: the temperature programme is not stored *)
  Definition cond_to_json (c : Conditions N) : JObj :=
    [ (K_area, JNum (cd_A c)); (K_T0, JNum (cd_T0 c)); (K_m0, JNum (cd_m0 c)); (K_xval, JNum (cp (cd_x0 c)));
      (K_xtype, JCType (ctype (cd_x0 c))); (K_Tp, jopt (cd_Tp c)); (K_pp, jopt (cd_pp c)) ].
  Definition jnum_opt (v : JVal) : res (option (num N)) :=
    match v with JNum x => Ok (Some x) | JNull => Ok None | _ => Err TypeError end.
  Definition cond_from_json (o : JObj) : res (Conditions N) :=
    A <- jget K_area o ;; T0 <- jget K_T0 o ;; m0 <- jget K_m0 o ;; xv <- jget K_xval o ;; xt <- jget K_xtype o ;;
    tp <- jget K_Tp o ;; pp <- jget K_pp o ;;
    match A, T0, m0, xv, xt with
    | JNum A, JNum T0, JNum m0, JNum xv, JCType xt =>
        x <- mk_comp N xv xt ;; tp' <- jnum_opt tp ;; pp' <- jnum_opt pp ;;
        Ok {| cd_A := A; cd_T0 := T0; cd_m0 := m0; cd_x0 := x; cd_Tp := tp'; cd_pp := pp'; cd_prog := None |}
    | _, _, _, _, _ => Err TypeError
    end.
End PersistCurve.

Arguments JNum {N}. Arguments JNat {N}. Arguments JList {N}. Arguments JNull {N}. Arguments JCType {N}.

(* ---------------- DiffusionCurveSet.load ----------------
   data.groupby("curve_id") iterates the distinct identifiers in ascending order; every group keeps the lines of the file
   in file order; each group goes through from_frame.  (Identifiers are modelled as numbers: pandas reads an all-numeric
   column as integers and sorts it numerically; the mixture is looked up per group by name — the model takes it as given.) *)
Section PersistCurveSet.
  Context (N : NumOps).
  Local Notation Cell := (Cell N).

  Definition row_id (row : list Cell) : nat := match col N 0 row with CName k => k | _ => 0 end.

  Fixpoint insert_id (k : nat) (l : list nat) : list nat :=
    match l with
    | [] => [k]
    | h :: t => if Nat.ltb k h then k :: l else if Nat.eqb k h then l else h :: insert_id k t
    end.
  (* ascending, duplicate-free list of the identifiers that occur *)
  Definition curve_ids (table : list (list Cell)) : list nat := fold_right (fun r acc => insert_id (row_id r) acc) [] table.
  Definition group_of (k : nat) (table : list (list Cell)) : list (list Cell) := filter (fun r => Nat.eqb (row_id r) k) table.

  Definition load_set (PP : PPfun N) (m : Mixture N) (table : list (list Cell)) : res (list (Curve N)) :=
    mapM (fun k => load_curve N PP m (group_of k table)) (curve_ids table).
End PersistCurveSet.
