(* Model of pyvaporation/permeance/permeance.py *)
From Coq Require Import ZArith List Bool PrimFloat Arith.
From PV Require Import Num PyBase Model.Component.
Import ListNotations.

(* the unit strings "GPU", "SI", "kg/(m2*h*kPa)"; any other string is [OtherUnit tag] *)
Inductive Units := GPU | SI | KG | OtherUnit (tag : nat).
Definition units_eqb (a b : Units) : bool :=
  match a, b with
  | GPU, GPU | SI, SI | KG, KG => true
  | OtherUnit x, OtherUnit y => Nat.eqb x y
  | _, _ => false
  end.

Section Permeance.
  Context (N : NumOps).
  Local Notation "a *! b" := (mul N a b) (at level 40, left associativity).
  Local Notation "a /! b" := (div N a b) (at level 40, left associativity).
  Local Notation "a +! b" := (add N a b) (at level 50, left associativity).
  Local Notation "# k" := (ilit N k) (at level 9, format "# k").

  Record Permeance := { pval : num N; punits : Units }.
  (* attrs converter: x if x >= 0 else 0 *)
  Definition mk_permeance (v : num N) (u : Units) : Permeance :=
    {| pval := if leb N #0 v then v else #0; punits := u |}.

  (* the same constructor in monadic form: the clamp test is evaluated even when the object is
     discarded afterwards (look-ahead element of the process loops) *)
  Definition mk_permeance_m (v : num N) (u : Units) : res Permeance :=
    if leb N #0 v then Ok {| pval := v; punits := u |} else Ok {| pval := #0; punits := u |}.

  Definition perm_add (a b : Permeance) : res Permeance :=
    if units_eqb (punits a) (punits b)
    then Ok (mk_permeance (pval a +! pval b) (punits a))
    else Err ValueError.

  Definition lit_gpu : num N := lit N 335 (-12) 0x1.70561e00b154cp-32%float.
  Definition lit_3600 : num N := lit N 36 2 0x1.c2p+11%float.

  (* conversion_dict[u] ; KeyError when the key is absent *)
  Definition conv_factor (c : option (Component N)) (u : Units) : res (num N) :=
    match u with
    | GPU => Ok lit_gpu
    | SI => Ok #1
    | KG => match c with
            | Some k => Ok (#1 /! (mw k *! lit_3600))
            | None => Err KeyError
            end
    | OtherUnit _ => Err KeyError
    end.

  Definition convert (p : Permeance) (to : Units) (c : option (Component N)) : res Permeance :=
    if units_eqb to (punits p) then Ok p
    else
      match c, to with
      | None, KG => Err ValueError
      | _, _ =>
          f_from <- conv_factor c (punits p) ;;
          f_to <- conv_factor c to ;;
          Ok (mk_permeance (pval p *! f_from /! f_to) to)
      end.
End Permeance.
Arguments pval {N}. Arguments punits {N}.
