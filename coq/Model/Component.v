(* Model of pyvaporation/components/component.py and the constant records of utils.py.
   Operation order follows the Python source (the bridge lemmas are proved by conversion). *)
From Coq Require Import ZArith List PrimFloat.
From PV Require Import Num PyBase.
Import ListNotations.

Inductive VPType := Antoine | Frost | OtherVP.

Section Component.
  Context (N : NumOps).
  Local Notation "a +! b" := (add N a b) (at level 50, left associativity).
  Local Notation "a -! b" := (sub N a b) (at level 50, left associativity).
  Local Notation "a *! b" := (mul N a b) (at level 40, left associativity).
  Local Notation "a /! b" := (div N a b) (at level 40, left associativity).
  Local Notation "a ^! k" := (ipow N a k) (at level 30, right associativity).
  Local Notation "# k" := (ilit N k) (at level 9, format "# k").

  (* utils.R = 8.314462 *)
  Definition Rgas : num N := lit N 8314462 (-6) 0x1.0a10129cbab65p+3%float.
  Definition negRgas : num N := lit N (-8314462) (-6) (-0x1.0a10129cbab65p+3)%float.

  Record VPConst := { vp_type : VPType; vp_a : num N; vp_b : num N; vp_c : num N }.
  Record HCConst := { hc_a : num N; hc_b : num N; hc_c : num N; hc_d : num N }.
  (* q_interaction is never None after UNIQUACConstants.__attrs_post_init__ *)
  Record UQConst := { uq_r : num N; uq_q : num N; uq_qi : num N }.
  Record Component := {
    cname : nat;                 (* the name string, used only for equality *)
    mw : num N;
    vpc : VPConst;
    hcc : HCConst;
    uqc : option UQConst }.

  Definition vapor_pressure (c : Component) (T : num N) : res (num N) :=
    let k := vpc c in
    match vp_type k with
    | Antoine => Ok (rpow N #10 (vp_a k +! vp_b k /! (T +! vp_c k)))
    | Frost => Ok (nexp N (vp_a k +! vp_b k /! T +! vp_c k /! T ^! 2))
    | OtherVP => Err ValueError
    end.

  Definition vaporisation_heat (c : Component) (T : num N) : res (num N) :=
    let k := vpc c in
    match vp_type k with
    | Antoine =>
        Ok (neg N ((T /! (T +! vp_c k)) ^! 2 *! Rgas *! vp_b k *! nln N #10) /! #1000)
    | Frost => Ok (negRgas *! (vp_b k +! #2 *! vp_c k /! T) /! #1000)
    | OtherVP => Err ValueError
    end.

  Definition specific_heat (c : Component) (T : num N) : num N :=
    let h := hcc c in
    hc_a h +! hc_b h *! T +! hc_c h *! T ^! 2 +! hc_d h *! T ^! 3.

  Definition cooling_heat (c : Component) (t0 t1 : num N) : num N :=
    let h := hcc c in
    hc_a h *! (t0 -! t1)
    +! hc_b h *! (t0 ^! 2 -! t1 ^! 2) /! #2
    +! hc_c h *! (t0 ^! 3 -! t1 ^! 3) /! #3
    +! hc_d h *! (t0 ^! 4 -! t1 ^! 4) /! #4.
End Component.

Arguments vp_type {N}. Arguments vp_a {N}. Arguments vp_b {N}. Arguments vp_c {N}.
Arguments hc_a {N}. Arguments hc_b {N}. Arguments hc_c {N}. Arguments hc_d {N}.
Arguments uq_r {N}. Arguments uq_q {N}. Arguments uq_qi {N}.
Arguments cname {N}. Arguments mw {N}. Arguments vpc {N}. Arguments hcc {N}. Arguments uqc {N}.
