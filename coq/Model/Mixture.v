(* Model of pyvaporation/mixtures/mixture.py *)
From Coq Require Import ZArith List Bool PrimFloat.
From PV Require Import Num PyBase Model.Component.
Import ListNotations.

Inductive CType := Molar | Weight.
Inductive ActModel := NRTL | UNIQUAC | OtherModel.

Section Mixture.
  Context (N : NumOps).
  Local Notation "a +! b" := (add N a b) (at level 50, left associativity).
  Local Notation "a -! b" := (sub N a b) (at level 50, left associativity).
  Local Notation "a *! b" := (mul N a b) (at level 40, left associativity).
  Local Notation "a /! b" := (div N a b) (at level 40, left associativity).
  Local Notation "a ^! k" := (ipow N a k) (at level 30, right associativity).
  Local Notation "# k" := (ilit N k) (at level 9, format "# k").
  Local Notation Component := (Component N).

  Record NRTLParams := {
    g12 : num N; g21 : num N; alpha12 : num N; alpha21 : option (num N);
    a12 : num N; a21 : num N }.
  Record UQParams := {
    ualpha12 : num N; ualpha21 : num N; ubeta12 : num N; ubeta21 : num N; uz : num N }.

  (* Mixture.__attrs_post_init__ rejects a mixture with neither parameter set:
     [mk_mixture] is the constructor, [Mixture] the validated record. *)
  Record Mixture := {
    c1 : Component; c2 : Component;
    nrtl : option NRTLParams; uniquac : option UQParams }.
  Definition mk_mixture (a b : Component) (n : option NRTLParams) (u : option UQParams)
    : res Mixture :=
    match n, u with
    | None, None => Err ValueError
    | _, _ => Ok {| c1 := a; c2 := b; nrtl := n; uniquac := u |}
    end.

  Record Composition := { cp : num N; ctype : CType }.
  (* attrs validator _is_in_0_to_1_range: not 0 <= value <= 1 -> ValueError *)
  Definition mk_comp (p : num N) (t : CType) : res Composition :=
    if leb N #0 p && leb N p #1 then Ok {| cp := p; ctype := t |} else Err ValueError.
  Definition first (c : Composition) : num N := cp c.
  Definition second (c : Composition) : num N := #1 -! cp c.

  Definition to_molar (c : Composition) (m : Mixture) : res Composition :=
    match ctype c with
    | Molar => Ok c
    | Weight =>
        mk_comp ((cp c /! mw (c1 m)) /! (cp c /! mw (c1 m) +! (#1 -! cp c) /! mw (c2 m))) Molar
    end.

  Definition to_weight (c : Composition) (m : Mixture) : res Composition :=
    match ctype c with
    | Weight => Ok c
    | Molar =>
        mk_comp ((mw (c1 m) *! cp c) /! (mw (c1 m) *! cp c +! mw (c2 m) *! (#1 -! cp c))) Weight
    end.

  (* ---- NRTL ---- *)
  Definition nrtl_tau (p : NRTLParams) (T : num N) : num N * num N :=
    (a12 p +! g12 p /! (Rgas N *! T), a21 p +! g21 p /! (Rgas N *! T)).
  Definition nrtl_gexp (p : NRTLParams) (T : num N) : num N * num N :=
    let '(t0, t1) := nrtl_tau p T in
    match alpha21 p with
    | None => (nexp N (neg N t0 *! alpha12 p), nexp N (neg N t1 *! alpha12 p))
    | Some al21 => (nexp N (neg N t0 *! alpha12 p), nexp N (neg N t1 *! al21))
    end.
  Definition nrtl_gamma (p : NRTLParams) (T : num N) (c : Composition) : num N * num N :=
    let '(t0, t1) := nrtl_tau p T in
    let '(g0, g1) := nrtl_gexp p T in
    let x1 := first c in let x2 := second c in
    (nexp N (x2 ^! 2 *! (t1 *! (g1 /! (x1 +! x2 *! g1)) ^! 2 +! t0 *! g0 /! (x2 +! x1 *! g0) ^! 2)),
     nexp N (x1 ^! 2 *! (t0 *! (g0 /! (x2 +! x1 *! g0)) ^! 2 +! t1 *! g1 /! (x1 +! x2 *! g1) ^! 2))).

  (* ---- UNIQUAC ---- *)
  Definition lit_1em5 : num N := lit N 1 (-5) 0x1.4f8b588e368f1p-17%float.
  Definition lit_099999 : num N := lit N 99999 (-5) 0x1.fffeb074a771dp-1%float.

  (* [spec = false]: the formula as written in mixture.py (second residual bracket as is);
     [spec = true]: the second coefficient as the mirror image of the first. *)
  (* 1 - 0.99999 evaluated by CPython in binary64 (a constant of the code, not a formula) *)
  Definition lit_1m099999 : num N := lit N 999999999995449 (-20) 0x1.4f8b588e30000p-17%float.

  Definition uniquac_gamma_gen (spec : bool) (u : UQParams) (k1 k2 : UQConst N) (T : num N)
      (x1 x2 : num N) : num N * num N :=
    let r1 := uq_r k1 in let r2 := uq_r k2 in
    let q1 := uq_q k1 in let q2 := uq_q k2 in
    let qi1 := uq_qi k1 in let qi2 := uq_qi k2 in
    let phi_sum := x1 *! r1 +! x2 *! r2 in
    let phi_1 := x1 *! r1 /! phi_sum in
    let phi_2 := x2 *! r2 /! phi_sum in
    let ths_g := x1 *! q1 +! x2 *! q2 in
    let th1_g := x1 *! q1 /! ths_g in
    let th2_g := x2 *! q2 /! ths_g in
    let ths_i := x1 *! qi1 +! x2 *! qi2 in
    let th1_i := x1 *! qi1 /! ths_i in
    let th2_i := x2 *! qi2 /! ths_i in
    let l_1 := uz u /! #2 *! (r1 -! q1) -! (r1 -! #1) in
    let l_2 := uz u /! #2 *! (r2 -! q2) -! (r2 -! #1) in
    let a_12 := ualpha12 u +! ubeta12 u /! T in
    let a_21 := ualpha21 u +! ubeta21 u /! T in
    let tau_12 := nexp N (neg N a_12 /! T) in
    let tau_21 := nexp N (neg N a_21 /! T) in
    let gamma_1 := nexp N (
        nln N (phi_1 /! x1)
        +! uz u /! #2 *! q1 *! nln N (th1_g /! phi_1)
        +! phi_2 *! (l_1 -! r1 /! r2 *! l_2)
        -! qi1 *! nln N (th1_i +! th2_i *! tau_21)
        +! th2_i *! qi1 *! (tau_21 /! (th1_i +! th2_i *! tau_21)
                           -! tau_12 /! (th2_i +! th1_i *! tau_12))) in
    let bracket_2 :=
      if spec
      then tau_12 /! (th2_i +! th1_i *! tau_12) -! tau_21 /! (th1_i +! th2_i *! tau_21)
      else tau_12 /! (th2_i +! th1_i *! tau_21) -! tau_12 /! (th1_i +! th2_i *! tau_12) in
    let gamma_2 := nexp N (
        nln N (phi_2 /! x2)
        +! uz u /! #2 *! q2 *! nln N (th2_g /! phi_2)
        +! phi_1 *! (l_2 -! r2 /! r1 *! l_1)
        -! qi2 *! nln N (th2_i +! th1_i *! tau_12)
        +! th1_i *! qi2 *! bracket_2) in
    (gamma_1, gamma_2).
  Definition uniquac_gamma := uniquac_gamma_gen false.
  Definition uniquac_gamma_spec := uniquac_gamma_gen true.

  (* calculate_activity_coefficients; an unknown model string falls off the end of the
     Python function (returns None) and the caller fails with TypeError: modelled as Err TypeError *)
  Definition activity_gen (spec : bool) (T : num N) (m : Mixture) (c : Composition) (ct : ActModel)
    : res (num N * num N) :=
    c <- to_molar c m ;;
    match ct with
    | NRTL =>
        match nrtl m with
        | None => Err ValueError
        | Some p => Ok (nrtl_gamma p T c)
        end
    | UNIQUAC =>
        (* the two end-point tests are evaluated before the parameter checks *)
        let k2 := fun x1 x2 : num N =>
          match uniquac m with
          | None => Err ValueError
          | Some u =>
              match uqc (c1 m), uqc (c2 m) with
              | Some k1, Some k2 => Ok (uniquac_gamma_gen spec u k1 k2 T x1 x2)
              | _, _ => Err ValueError
              end
          end in
        let k1 := fun c : Composition =>
          if eqb N (second c) #0 then k2 lit_099999 lit_1m099999 else k2 (first c) (second c) in
        (* after the substitution the second test runs on the constant 0.00001: 1 - 0.00001 == 0 is false *)
        if eqb N (first c) #0 then k2 lit_1em5 lit_099999 else k1 c
    | OtherModel => Err TypeError
    end.
  Definition activity := activity_gen false.

  Definition partial_pressures_gen (spec : bool) (T : num N) (m : Mixture) (c : Composition)
      (ct : ActModel) : res (num N * num N) :=
    c <- to_molar c m ;;
    g <- activity_gen spec T m c ct ;;
    p1 <- vapor_pressure N (c1 m) T ;;
    p2 <- vapor_pressure N (c2 m) T ;;
    Ok (p1 *! fst g *! first c, p2 *! snd g *! second c).
  Definition partial_pressures := partial_pressures_gen false.
End Mixture.

Arguments g12 {N}. Arguments g21 {N}. Arguments alpha12 {N}. Arguments alpha21 {N}.
Arguments a12 {N}. Arguments a21 {N}.
Arguments ualpha12 {N}. Arguments ualpha21 {N}. Arguments ubeta12 {N}. Arguments ubeta21 {N}.
Arguments uz {N}.
Arguments c1 {N}. Arguments c2 {N}. Arguments nrtl {N}. Arguments uniquac {N}.
Arguments cp {N}. Arguments ctype {N}.
