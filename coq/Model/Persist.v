(* Model of the persistence layer: the column maps of ProcessModel.save / load (process.py), DiffusionCurve.save /
   from_frame (diffusion_curve.py), the JSON forms of PervaporationFunction and Conditions, and an abstract file
   system for _generate_process_path.  Numbers are carried as opaque values: storage itself (pandas / json / joblib)
   is an oracle assumed to return what it was given. *)
From Coq Require Import ZArith List Bool Arith.
From PV Require Import Num PyBase Model.Component Model.Mixture Model.Permeance Model.Solver Model.Process Model.Curve.
Import ListNotations.

Section Persist.
  Context (N : NumOps).
  Local Notation Composition := (Composition N).
  Local Notation Permeance := (Permeance N).

  Inductive Cell :=
  | CNum (v : num N) | CEmpty | CName (tag : nat) | CCType (t : CType) | CUnits (u : Units).

  Definition cell_opt (o : option (num N)) : Cell := match o with Some v => CNum v | None => CEmpty end.

  (* one line of process_model.csv, in the order of PROCESS_MODEL_COLUMNS *)
  Definition save_row (membrane mixture comment : nat) (r : PRow N) (Tp pp : option (num N)) : list Cell :=
    [ CName membrane; CName mixture; CNum (r_time r); CNum (r_m r); CNum (r_T r); cell_opt Tp; cell_opt pp;
      CNum (first N (r_x r)); CCType (ctype (r_x r)); CNum (first N (r_y r)); CCType (ctype (r_y r));
      CNum (fst (r_J r)); CNum (snd (r_J r)); CNum (pval (fst (r_P r))); CNum (pval (snd (r_P r)));
      CUnits (punits (fst (r_P r))); CNum (r_Q r); cell_opt (r_Qc r); CName comment ].

  Definition save_process (membrane mixture comment : nat) (rows : list (PRow N)) (Tp pp : option (num N)) : list (list Cell) :=
    map (fun r => save_row membrane mixture comment r Tp pp) rows.

  (* what ProcessModel.load rebuilds from one line; [u0] = the units cell of the FIRST line (process.py uses .iloc[0]) *)
  Definition load_row (m : Mixture N) (u0 : Units) (cells : list Cell) : res (PRow N) :=
    match cells with
    | [ CName _; CName _; CNum t; CNum fm; CNum fT; _; _; CNum x; CCType xt; CNum y; CCType yt;
        CNum j1; CNum j2; CNum p1; CNum p2; CUnits _; CNum q; qc; CName _ ] =>
        xw <- (c <- mk_comp N x xt ;; to_weight N c m) ;;
        yw <- (c <- mk_comp N y yt ;; to_weight N c m) ;;
        q1 <- convert N (mk_permeance N p1 u0) KG (Some (c1 m)) ;;
        q2 <- convert N (mk_permeance N p2 u0) KG (Some (c2 m)) ;;
        Ok {| r_time := t; r_m := fm; r_x := xw; r_T := fT; r_P := (q1, q2); r_J := (j1, j2); r_y := yw; r_Q := q;
              r_Qc := match qc with CNum v => Some v | _ => None end |}
    | _ => Err KeyError
    end.

  Definition first_units (table : list (list Cell)) : Units :=
    match table with
    | (_ :: _ :: _ :: _ :: _ :: _ :: _ :: _ :: _ :: _ :: _ :: _ :: _ :: _ :: _ :: CUnits u :: _) :: _ => u
    | _ => KG
    end.
  Definition first_opt (k : nat) (table : list (list Cell)) : option (num N) :=
    match table with
    | row :: _ => match nth k row CEmpty with CNum v => Some v | _ => None end
    | [] => None
    end.

  Definition load_process (m : Mixture N) (table : list (list Cell)) : res (list (PRow N) * option (num N) * option (num N)) :=
    rows <- mapM (load_row m (first_units table)) table ;;
    Ok (rows, first_opt 5 table, first_opt 6 table).

  (* ---- abstract file system for _generate_process_path ---- *)
  Definition FS := list nat.                       (* names of the existing process directories under results/ *)
  (* mkdir(exist_ok=False) on the name derived from hash(datetime.now()) (an arbitrary value) *)
  Definition generate_process_path (fs : FS) (name : nat) : res (FS * nat) :=
    if existsb (Nat.eqb name) fs then Err FileExistsError else Ok (name :: fs, name).
End Persist.
Arguments CNum {N}. Arguments CEmpty {N}. Arguments CName {N}. Arguments CCType {N}. Arguments CUnits {N}.
