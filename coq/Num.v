(* Num.v — the abstract numeric interface every model function is generic over,
   and its two instances: ROps (Coq reals: what the theorems are about) and,
   in FNum.v, FOps (binary64: what the correspondence check executes). *)
From Coq Require Import Reals ZArith List Bool PrimFloat Uint63 Lra.
Import ListNotations.

Record NumOps := {
  num : Type;
  add : num -> num -> num;
  sub : num -> num -> num;
  mul : num -> num -> num;
  div : num -> num -> num;
  neg : num -> num;
  nabs : num -> num;
  nexp : num -> num;
  nln : num -> num;
  rpow : num -> num -> num;      (* Python  x ** y  with a float exponent *)
  ipow : num -> nat -> num;      (* Python  x ** k  with a non-negative int literal k *)
  lit : Z -> Z -> float -> num;  (* decimal mantissa, decimal exponent, the binary64 value *)
  leb : num -> num -> bool;
  ltb : num -> num -> bool;
  eqb : num -> num -> bool }.

(* Python int constants *)
Definition float_of_Z (k : Z) : float :=
  match k with
  | Z0 => 0%float
  | Zpos _ => of_uint63 (of_Z k)
  | Zneg p => (- of_uint63 (of_Z (Zpos p)))%float
  end.
Definition ilit (N : NumOps) (k : Z) : num N := lit N k 0 (float_of_Z k).

Section Derived.
  Context (N : NumOps).
  Definition zero := ilit N 0.
  Definition one := ilit N 1.
  (* Python's max(a, b): b if b > a else a *)
  Definition nmax (a b : num N) : num N := if ltb N a b then b else a.
  (* Python's sum([...]) starts from int 0 *)
  Fixpoint psum_from (acc : num N) (l : list (num N)) : num N :=
    match l with [] => acc | x :: t => psum_from (add N acc x) t end.
  Definition psum (l : list (num N)) : num N := psum_from zero l.
End Derived.

(* ---------- the real-number instance ---------- *)
Local Open Scope R_scope.
Definition Rlit (m e : Z) : R :=
  match e with
  | Z0 => IZR m
  | Zpos p => IZR m * 10 ^ Pos.to_nat p
  | Zneg p => IZR m / 10 ^ Pos.to_nat p
  end.
Definition Rleb (a b : R) : bool := if Rle_dec a b then true else false.
Definition Rltb (a b : R) : bool := if Rlt_dec a b then true else false.
Definition Reqb (a b : R) : bool := if Req_EM_T a b then true else false.

Definition ROps : NumOps := {|
  num := R; add := Rplus; sub := Rminus; mul := Rmult; div := Rdiv;
  neg := Ropp; nabs := Rabs; nexp := exp; nln := ln; rpow := Rpower; ipow := pow;
  lit := fun m e _ => Rlit m e; leb := Rleb; ltb := Rltb; eqb := Reqb |}.

Lemma Rleb_true a b : Rleb a b = true <-> a <= b.
Proof. unfold Rleb; destruct (Rle_dec a b); split; intros; try easy; discriminate. Qed.
Lemma Rleb_false a b : Rleb a b = false <-> b < a.
Proof. unfold Rleb; destruct (Rle_dec a b); split; intros; try easy; try lra; discriminate. Qed.
Lemma Rltb_true a b : Rltb a b = true <-> a < b.
Proof. unfold Rltb; destruct (Rlt_dec a b); split; intros; try easy; discriminate. Qed.
Lemma Rltb_false a b : Rltb a b = false <-> b <= a.
Proof. unfold Rltb; destruct (Rlt_dec a b); split; intros; try easy; try lra; discriminate. Qed.
Lemma Reqb_true a b : Reqb a b = true <-> a = b.
Proof. unfold Reqb; destruct (Req_EM_T a b); split; intros; try easy; discriminate. Qed.
Lemma Reqb_false a b : Reqb a b = false <-> a <> b.
Proof. unfold Reqb; destruct (Req_EM_T a b); split; intros; try easy; discriminate. Qed.

Lemma nmax_R a b : nmax ROps a b = Rmax a b.
Proof.
  unfold nmax; cbn. unfold Rltb, Rmax.
  destruct (Rlt_dec a b), (Rle_dec a b); try reflexivity; lra.
Qed.

(* unfold the projections of ROps so that ring/field/lra see plain real arithmetic *)
Ltac rnum :=
  change (num ROps) with R in *;
  cbn [num add sub mul div neg nabs nexp nln rpow ipow lit leb ltb eqb ROps
       ilit zero one Rlit float_of_Z] in *;
  repeat match goal with
  | |- context [Pos.to_nat ?p] =>
      let n := eval vm_compute in (Pos.to_nat p) in change (Pos.to_nat p) with n
  | H : context [Pos.to_nat ?p] |- _ =>
      let n := eval vm_compute in (Pos.to_nat p) in change (Pos.to_nat p) with n in H
  end.

Lemma if_true {A} (c : bool) (a b : A) : c = true -> (if c then a else b) = a.
Proof. intros ->; reflexivity. Qed.
Lemma if_false {A} (c : bool) (a b : A) : c = false -> (if c then a else b) = b.
Proof. intros ->; reflexivity. Qed.
