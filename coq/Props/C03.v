(* C03 — heat balance: evaporation heat, self-cooling and temperature programme are exact. *)
From Coq Require Import Reals Lra List.
From PV Require Import Num PyBase Model.Component Model.Mixture Model.Permeance Model.Solver Model.Process
  Lemmas.Composition Lemmas.Process.
Import ListNotations.
Local Open Scope R_scope.

Section C03.
  Variable kind : PKind.
  Variable m : Mixture ROps.
  Variable cd : Conditions ROps.
  Variables (dt prec : R) (ct : ActModel).
  Variable slv : SolveArgs ROps -> res (R * R).
  Variable perm : R -> Component ROps -> res (Permeance ROps).
  Variables (f1 f2 : PervFn ROps) (FR1 FR2 : R).
  Variables (n k : nat) (st : PState ROps) (rows : list (PRow ROps)).
  Hypothesis Hrun : run_from ROps kind m cd dt prec ct slv perm f1 f2 FR1 FR2 n k st = Ok rows.

  (* Q[i] = h1(T[i]) d1 + h2(T[i]) d2 with h_c(T) = vaporisation_heat_c(T) / M_c * 1000 (each component its own
     heat and molar mass, at the temperature of that step); Qc reported exactly when a permeate temperature is given *)
  Theorem C03_heats i row : nth_error rows i = Some row ->
    (exists e1 e2, latent_per_kg ROps (c1 m) (r_T row) = Ok e1 /\ latent_per_kg ROps (c2 m) (r_T row) = Ok e2 /\
       r_Q row = e1 * (fst (r_J row) * cd_A cd * dt) + e2 * (snd (r_J row) * cd_A cd * dt))
    /\ (r_Qc row = None <-> cd_Tp cd = None)
    /\ cond_heat ROps m cd (r_T row) (fst (r_J row) * cd_A cd * dt) (snd (r_J row) * cd_A cd * dt) = Ok (r_Qc row).
  Proof. exact (heat_row kind m cd dt prec ct slv perm f1 f2 FR1 FR2 n k st rows Hrun i row). Qed.

  (* T[i+1] = next_temperature(state i, Q[i]) — unfolded below for the three regimes *)
  Theorem C03_next_temperature i row row' : nth_error rows i = Some row -> nth_error rows (S i) = Some row' ->
    exists sti, r_m row = st_m sti /\ r_x row = st_x sti /\ r_T row = st_T sti /\
      next_temperature ROps kind m cd dt (k + i) sti (r_Q row) = Ok (r_T row').
  Proof. exact (temperature_next kind m cd dt prec ct slv perm f1 f2 FR1 FR2 n k st rows Hrun i row row'). Qed.

  Theorem C03_isothermal i row : is_iso kind = true -> nth_error rows i = Some row -> r_T row = st_T st.
  Proof. exact (temperature_iso kind m cd dt prec ct slv perm f1 f2 FR1 FR2 n k st rows Hrun i row). Qed.
End C03.

(* the regimes of next_temperature, as equations *)
Theorem C03_self_cooling kind (m : Mixture ROps) cd dt k (st : PState ROps) Q T' :
  is_iso kind = false -> cd_prog cd = None ->
  next_temperature ROps kind m cd dt k st Q = Ok T' ->
  T' = st_T st - Q / ((cp (st_x st) * (specific_heat ROps (c1 m) (st_T st) / mw (c1 m))
                       + (1 - cp (st_x st)) * (specific_heat ROps (c2 m) (st_T st) / mw (c2 m))) * st_m st)
  /\ 0 < T'.
Proof.
  intros Hk Hp. unfold next_temperature. rewrite Hk, Hp. cbn [bind]. unfold first, second. rnum.
  destruct (Rltb 0 _) eqn:E; [|discriminate]. intros H; injection H as <-.
  split; [reflexivity | apply Rltb_true; exact E].
Qed.

Theorem C03_programme kind (m : Mixture ROps) cd dt k (st : PState ROps) Q T' pr :
  is_iso kind = false -> cd_prog cd = Some pr ->
  next_temperature ROps kind m cd dt k st Q = Ok T' ->
  program ROps pr (dt * INR k + dt) = Ok T' /\ 0 < T'.
Proof.
  intros Hk Hp. unfold next_temperature. rewrite Hk, Hp. rewrite INR_ilit. rnum.
  destruct (program ROps pr (dt * INR k + dt)) as [T1|?]; [|discriminate]. cbn [bind]. rnum.
  destruct (Rltb 0 T1) eqn:E; [|discriminate]. intros H; injection H as <-.
  split; [reflexivity | apply Rltb_true; exact E].
Qed.

(* isothermal and non-isothermal ideal models agree at step 0 (fluxes, heats) when started from the same state *)
Theorem C03_step0_agree (m : Mixture ROps) cd dt prec ct slv perm (st : PState ROps) p1 p2 r1 s1 r2 s2 :
  perm (st_T st) (c1 m) = Ok p1 -> perm (st_T st) (c2 m) = Ok p2 -> st_P st = (p1, p2) ->
  step ROps IdealIso m cd dt prec ct slv perm (dummy_fn ROps) (dummy_fn ROps) 0 0 0 st = Ok (r1, s1) ->
  step ROps IdealNonIso m cd dt prec ct slv perm (dummy_fn ROps) (dummy_fn ROps) 0 0 0 st = Ok (r2, s2) ->
  r_J r1 = r_J r2 /\ r_Q r1 = r_Q r2 /\ r_Qc r1 = r_Qc r2 /\ r_y r1 = r_y r2 /\ r_P r1 = r_P r2.
Proof.
  intros Hp1 Hp2 HP H1 H2. unfold step in H1, H2. unfold step_permeances in H1, H2.
  rewrite Hp1, Hp2 in H2. rewrite HP in H1. cbn [bind] in H2.
  destruct (latent_per_kg ROps (c1 m) (st_T st)); [|discriminate]. cbn [bind] in *.
  destruct (latent_per_kg ROps (c2 m) (st_T st)); [|discriminate]. cbn [bind] in *.
  destruct (slv _) as [J|]; [|discriminate]. cbn [bind] in *.
  destruct (mk_comp ROps _ Weight) as [y|] in H1, H2; [|discriminate]. cbn [bind] in *.
  destruct (cond_heat ROps m cd (st_T st) _ _) as [Qc|]; [|discriminate]. cbn [bind] in *.
  destruct (ltb ROps _ _); [|discriminate].
  destruct (mk_comp ROps _ Weight) as [x'|] in H1, H2; [|discriminate]. cbn [bind] in *.
  destruct (next_temperature ROps IdealIso m cd dt 0 st _); [|discriminate].
  destruct (next_temperature ROps IdealNonIso m cd dt 0 st _); [|discriminate]. cbn [bind] in *.
  injection H1 as <- <-. injection H2 as <- <-. cbn [r_J r_Q r_Qc r_y r_P]. repeat split.
Qed.

Print Assumptions C03_heats.
Print Assumptions C03_self_cooling.
Print Assumptions C03_step0_agree.
