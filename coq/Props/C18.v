(* C18 — reported process states are physically admissible, otherwise the call raises. *)
From Coq Require Import Reals Lra List.
From PV Require Import Num PyBase Model.Component Model.Mixture Model.Permeance Model.Solver Model.Process
  Lemmas.Composition Lemmas.Process.
Import ListNotations.
Local Open Scope R_scope.

Section C18.
  Variable kind : PKind.
  Variable m : Mixture ROps.
  Variable cd : Conditions ROps.
  Variables (dt prec : R) (ct : ActModel).
  Variable slv : SolveArgs ROps -> res (R * R).
  Variable perm : R -> Component ROps -> res (Permeance ROps).
  Variables (f1 f2 : PervFn ROps) (FR1 FR2 : R).
  Variables (n k : nat) (st : PState ROps) (rows : list (PRow ROps)).
  (* the call RETURNED a trajectory (every other outcome is an exception) *)
  Hypothesis Hrun : run_from ROps kind m cd dt prec ct slv perm f1 f2 FR1 FR2 n k st = Ok rows.
  Hypothesis Hm0 : 0 < st_m st.
  Hypothesis Hx0 : 0 <= cp (st_x st) <= 1.

  Theorem C18_admissible i row : nth_error rows i = Some row ->
    0 < r_m row /\ 0 <= cp (r_x row) <= 1 /\ 0 <= cp (r_y row) <= 1.
  Proof. exact (admissible kind m cd dt prec ct slv perm f1 f2 FR1 FR2 n k st rows Hrun i row Hm0 Hx0). Qed.

  Theorem C18_temperature_positive i row : is_iso kind = false -> nth_error rows (S i) = Some row -> 0 < r_T row.
  Proof. exact (temperature_positive kind m cd dt prec ct slv perm f1 f2 FR1 FR2 n k st rows Hrun i row). Qed.

  Theorem C18_temperature_iso i row : is_iso kind = true -> nth_error rows i = Some row -> r_T row = st_T st.
  Proof. exact (temperature_iso kind m cd dt prec ct slv perm f1 f2 FR1 FR2 n k st rows Hrun i row). Qed.
End C18.

(* the entry points start from an admissible state whenever the initial composition is in [0,1] *)
Theorem C18_initial_composition (m : Mixture ROps) c x0 : to_weight ROps c m = Ok x0 -> 0 <= cp c <= 1 ->
  ctype x0 = Weight /\ 0 <= cp x0 <= 1.
Proof. exact (to_weight_result m c x0). Qed.

Print Assumptions C18_admissible.
Print Assumptions C18_temperature_positive.
