(* C15 — Mole-/mass-fraction conversion is a consistent bijection.
   Only statements; every proof is [exact <lemma of Lemmas/Composition.v>]. *)
From Coq Require Import Reals Lra.
From PV Require Import Num PyBase Model.Component Model.Mixture Lemmas.Composition.
Local Open Scope R_scope.

Section C15.
  Variable m : Mixture ROps.
  Hypothesis HM1 : 0 < mw (c1 m).
  Hypothesis HM2 : 0 < mw (c2 m).
  Notation M1 := (mw (c1 m)). Notation M2 := (mw (c2 m)).

  (* the conversions succeed on [0,1] and compute the rational maps *)
  Theorem C15_to_molar x : 0 <= x <= 1 ->
    to_molar ROps (RC x Weight) m = Ok (RC (fmolar M1 M2 x) Molar)
    /\ 0 <= fmolar M1 M2 x <= 1.
  Proof. intro H; split; [exact (to_molar_weight_R m HM1 HM2 x H) | exact (fmolar_range M1 M2 x HM1 HM2 H)]. Qed.

  Theorem C15_to_weight x : 0 <= x <= 1 ->
    to_weight ROps (RC x Molar) m = Ok (RC (fweight M1 M2 x) Weight)
    /\ 0 <= fweight M1 M2 x <= 1.
  Proof. intro H; split; [exact (to_weight_molar_R m HM1 HM2 x H) | exact (fweight_range M1 M2 x HM1 HM2 H)]. Qed.

  (* mass -> mole -> mass and mole -> mass -> mole return the original composition *)
  Theorem C15_roundtrip_weight x : 0 <= x <= 1 ->
    (c <- to_molar ROps (RC x Weight) m ;; to_weight ROps c m) = Ok (RC x Weight).
  Proof. exact (roundtrip_weight m HM1 HM2 x). Qed.

  Theorem C15_roundtrip_molar x : 0 <= x <= 1 ->
    (c <- to_weight ROps (RC x Molar) m ;; to_molar ROps c m) = Ok (RC x Molar).
  Proof. exact (roundtrip_molar m HM1 HM2 x). Qed.

  (* converting to the basis a composition already has is the identity *)
  Theorem C15_same_basis (c : Composition ROps) :
    (ctype c = Molar -> to_molar ROps c m = Ok c) /\ (ctype c = Weight -> to_weight ROps c m = Ok c).
  Proof. split; [exact (to_molar_idem m c) | exact (to_weight_idem m c)]. Qed.

  (* end points are fixed *)
  Theorem C15_endpoints :
    fmolar M1 M2 0 = 0 /\ fmolar M1 M2 1 = 1 /\ fweight M1 M2 0 = 0 /\ fweight M1 M2 1 = 1.
  Proof. exact (endpoints M1 M2 HM1 HM2). Qed.

  (* strictly increasing in both directions *)
  Theorem C15_monotone x y : 0 <= x -> x < y -> y <= 1 ->
    fmolar M1 M2 x < fmolar M1 M2 y /\ fweight M1 M2 x < fweight M1 M2 y.
  Proof.
    intros A B C; split;
      [exact (fmolar_increasing m HM1 HM2 x y A B C) | exact (fweight_increasing m HM1 HM2 x y A B C)].
  Qed.

  (* first + second = 1 *)
  Theorem C15_sum (c : Composition ROps) : first ROps c + second ROps c = 1.
  Proof. exact (first_second_sum c). Qed.

  (* mole ratio = mass ratio * M2 / M1 *)
  Theorem C15_ratio x : 0 < x < 1 ->
    fmolar M1 M2 x / (1 - fmolar M1 M2 x) = (x / (1 - x)) * (M2 / M1).
  Proof. exact (fmolar_ratio m HM1 HM2 x). Qed.
End C15.

(* the constructor accepts exactly [0,1] *)
Theorem C15_validator p t : (exists c, mk_comp ROps p t = Ok c) <-> 0 <= p <= 1.
Proof. exact (mk_comp_R_iff p t). Qed.
Theorem C15_rejects p t : p < 0 \/ 1 < p -> mk_comp ROps p t = Err ValueError.
Proof. exact (mk_comp_R_err p t). Qed.

(* non-vacuity: the hypotheses are satisfiable *)
Example C15_nonvacuous : 0 < 18 /\ 0 < 46 /\ 0 <= 3/10 <= 1.
Proof. lra. Qed.

Print Assumptions C15_roundtrip_weight.
Print Assumptions C15_roundtrip_molar.
Print Assumptions C15_monotone.
Print Assumptions C15_ratio.
Print Assumptions C15_validator.
