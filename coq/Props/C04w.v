(* C04, witness file - the UNIQUAC second coefficient as written in mixture.py violates Gibbs-Duhem (known finding F1). *)
From Coq Require Import Reals Lra.
From Coquelicot Require Import Coquelicot.
From PV Require Import Num PyBase Model.Component Model.Mixture Lemmas.Composition Lemmas.Thermo Lemmas.Activity Lemmas.ActivityRefute.
Local Open Scope R_scope.

(* the full statement is FALSE for the formula as written: a concrete admissible parameter set
   (r = q = q' = 1, z = 10, tau12 = 1/2, tau21 = 2, x = 1/2) with Gibbs-Duhem residual > 0.1 *)
Theorem C04_uniquac_gibbs_duhem_asis_refuted :
  exists (u : UQParams ROps) (k1 k2 : UQConst ROps) (T x : R),
    0 < uq_r k1 /\ 0 < uq_r k2 /\ 0 < uq_q k1 /\ 0 < uq_q k2 /\ 0 < uq_qi k1 /\ 0 < uq_qi k2 /\ 0 < T /\ 0 < x < 1 /\
    x * Derive (fun y => ln (fst (uniquac_gamma_gen ROps false u k1 k2 T y (1 - y)))) x
    + (1 - x) * Derive (fun y => ln (snd (uniquac_gamma_gen ROps false u k1 k2 T y (1 - y)))) x <> 0.
Proof.
  exists wit_u, wit_k, wit_k, 1, (1/2). cbn [wit_k uq_r uq_q uq_qi].
  repeat (split; [lra|]). apply Rgt_not_eq.
  eapply Rgt_trans; [exact uniquac_asis_GD_refuted | lra].
Qed.

Print Assumptions C04_uniquac_gibbs_duhem_asis_refuted.
