(* C09 — flux -> permeance inversion of a diffusion curve undoes the flux calculation.
   Permeate-pressure mode: the curve inverts with pressure * MOLE fraction while the solver as written
   subtracts pressure * MASS fraction (known finding F4); the theorems say exactly what holds. *)
From Coq Require Import Reals Lra List.
From PV Require Import Num PyBase Model.Component Model.Mixture Model.Permeance Model.Solver Model.Curve
  Lemmas.Composition Lemmas.Permeance Lemmas.Curve.
From PV Require Import Model.Process Lemmas.PersistCurve Lemmas.CurveRound.
Import ListNotations.
Local Open Scope R_scope.

(* vacuum: J = P * p_feed inverts to P (also the re-inversion of a curve built from permeances) *)
Theorem C09_vacuum PP (m : Mixture ROps) P1 P2 pf y : 0 <= P1 -> 0 <= P2 -> fst pf <> 0 -> snd pf <> 0 ->
  invert_point ROps PP m None None (P1 * fst pf, P2 * snd pf) pf y = Ok (RPerm P1, RPerm P2).
Proof. exact (invert_vacuum PP m P1 P2 pf y). Qed.

(* permeate temperature: fluxes obeying the law at the permeate composition the curve derives from them
   (the self-consistent permeate of C02) invert to P *)
Theorem C09_permeate_temperature PP (m : Mixture ROps) tp P1 P2 pf q y : 0 <= P1 -> 0 <= P2 ->
  PP tp y NRTL = Ok q -> fst pf - fst q <> 0 -> snd pf - snd q <> 0 ->
  invert_point ROps PP m (Some tp) None (P1 * (fst pf - fst q), P2 * (snd pf - snd q)) pf y = Ok (RPerm P1, RPerm P2).
Proof. exact (invert_temperature PP m tp P1 P2 pf q y). Qed.

(* permeate pressure, mole-fraction law (what the curve assumes): inverts to P *)
Theorem C09_permeate_pressure_spec PP (m : Mixture ROps) p P1 P2 pf y ym : 0 <= P1 -> 0 <= P2 ->
  to_molar ROps y m = Ok ym -> fst pf - p * cp ym <> 0 -> snd pf - p * (1 - cp ym) <> 0 ->
  invert_point ROps PP m None (Some p) (P1 * (fst pf - p * cp ym), P2 * (snd pf - p * (1 - cp ym))) pf y
    = Ok (RPerm P1, RPerm P2).
Proof. exact (invert_pressure_spec PP m p P1 P2 pf y ym). Qed.

(* permeate pressure, fluxes as the solver produces them today (mass fraction): exact value of what comes back *)
Theorem C09_permeate_pressure_asis PP (m : Mixture ROps) p P1 P2 pf y ym :
  to_molar ROps y m = Ok ym ->
  exists Q1 Q2,
    invert_point ROps PP m None (Some p) (P1 * (fst pf - p * cp y), P2 * (snd pf - p * (1 - cp y))) pf y = Ok (Q1, Q2)
    /\ pval Q1 = Rmax 0 (P1 * (fst pf - p * cp y) / (fst pf - p * cp ym))
    /\ pval Q2 = Rmax 0 (P2 * (snd pf - p * (1 - cp y)) / (snd pf - p * (1 - cp ym)))
    /\ punits Q1 = KG /\ punits Q2 = KG.
Proof. exact (invert_pressure_asis PP m p P1 P2 pf y ym). Qed.

(* every permeance a constructed curve exposes is in kg/(m2 h kPa), whatever unit was supplied *)
Theorem C09_units PP (m : Mixture ROps) c cv : mk_curve ROps PP m c = Ok cv ->
  Forall (fun p => punits (fst p) = KG /\ punits (snd p) = KG) (cv_P cv).
Proof. exact (mk_curve_units PP m c cv). Qed.
Theorem C09_unit_conversion_value (k : Component ROps) v u : 0 < mw k -> 0 <= v -> known u ->
  convert ROps (RP v u) KG (Some k) = Ok (RP (cval (mw k) v u KG) KG).
Proof. intros A B C. exact (convert_ok k v u KG A B C I). Qed.

(* a curve built from permeances (kg units after conversion) reports fluxes = permeance x feed partial pressure ... *)
Theorem C09_from_permeances PP (m : Mixture ROps) T xs Tp pp Ps pfs :
  Forall wf_pair Ps -> length Ps = length xs -> mapM (fun x => PP T x NRTL) xs = Ok pfs ->
  mk_curve ROps PP m (Build_CurveIn ROps T xs None Tp pp (Some Ps))
  = Ok (Build_Curve ROps T xs (fluxes_of Ps pfs) Tp pp Ps).
Proof. exact (curve_from_permeances PP m T xs Tp pp Ps pfs). Qed.

(* ... and re-inverting those fluxes returns the original permeances (any number of points) *)
Theorem C09_reinversion PP (m : Mixture ROps) T xs Tp pp Ps pfs :
  Forall wf_pos Ps -> Forall pos2 pfs -> length Ps = length xs -> mapM (fun x => PP T x NRTL) xs = Ok pfs ->
  exists c, mk_curve ROps PP m (Build_CurveIn ROps T xs None Tp pp (Some Ps)) = Ok c /\
    mk_curve ROps PP m (Build_CurveIn ROps T xs (Some (cv_J c)) None None None)
    = Ok (Build_Curve ROps T xs (cv_J c) None None Ps).
Proof. exact (curve_reinversion PP m T xs Tp pp Ps pfs). Qed.

Print Assumptions C09_vacuum.
Print Assumptions C09_permeate_pressure_asis.
Print Assumptions C09_units.

Print Assumptions C09_reinversion.
