(* C17 — saved curves, functions, conditions and process models load back unchanged.
   The storage back ends (pandas CSV, json, joblib, the OS) are oracles: they are assumed to hand back what they were
   given; what is modelled and proved are the column maps of ProcessModel.save / load and DiffusionCurve.save / from_frame
   (incl. the unit and composition conversions on load and the re-construction through the DiffusionCurve constructor),
   the key maps of the two JSON forms, and the directory discipline. *)
From Coq Require Import Reals Lra List Bool.
From PV Require Import Num PyBase Model.Component Model.Mixture Model.Permeance Model.Solver Model.Process Model.Curve
  Model.Persist Model.PersistCurve Lemmas.Composition Lemmas.Permeance Lemmas.Process Lemmas.Persist Lemmas.PersistCurve Lemmas.PersistSet.
From Coq Require Import Sorted.
Import ListNotations.
Local Open Scope R_scope.
Local Open Scope bool_scope.

(* every line written for a reported row loads back as that row (time, mass, temperature, composition, fluxes,
   permeances and their units, heats, incl. an absent condensation heat) *)
Theorem C17_row_roundtrip (m : Mixture ROps) mem mix com (r : PRow ROps) Tp pp : wf_row r ->
  load_row ROps m KG (save_row ROps mem mix com r Tp pp) = Ok r.
Proof. exact (load_save_row m mem mix com r Tp pp). Qed.

(* the whole table: same rows, same (scalar) permeate condition, same number of lines as steps *)
Theorem C17_process_roundtrip (m : Mixture ROps) mem mix com rows Tp pp : Forall wf_row rows -> rows <> [] ->
  load_process ROps m (save_process ROps mem mix com rows Tp pp) = Ok (rows, Tp, pp).
Proof. exact (load_save_process m mem mix com rows Tp pp). Qed.
Theorem C17_lengths mem mix com (rows : list (PRow ROps)) Tp pp : length (save_process ROps mem mix com rows Tp pp) = length rows.
Proof. exact (save_process_length mem mix com rows Tp pp). Qed.

(* for every prior directory listing and every hash value: save raises FileExistsError (nothing written) or writes
   into a directory that did not exist, and all existing directories remain *)
Theorem C17_fresh_directory (fs : FS) name :
  (generate_process_path fs name = Err FileExistsError /\ In name fs) \/
  (exists fs', generate_process_path fs name = Ok (fs', name) /\ ~ In name fs /\ forall d, In d fs -> In d fs').
Proof. exact (generate_path_fresh fs name). Qed.


(* ---- diffusion curves: DiffusionCurve.save -> DiffusionCurveSet.load / from_frame ---- *)
(* a constructed curve (valid compositions in either basis, permeances in kg units as the constructor leaves them, at least
   one point, equal series lengths) is written as one line per point and loads back with the same temperature, permeate
   condition, fluxes, permeances and units, its feed compositions converted to mass fractions; the partial-pressure
   function is never consulted *)
Theorem C17_curve_roundtrip (PP : PPfun ROps) (m : Mixture ROps) id mem mix com (c : Curve ROps) xw :
  cv_xs c <> [] -> length (cv_J c) = length (cv_xs c) -> length (cv_P c) = length (cv_xs c) ->
  Forall (fun x : Composition ROps => 0 <= cp x <= 1) (cv_xs c) -> Forall wf_pair (cv_P c) ->
  mapM (fun x => to_weight ROps x m) (cv_xs c) = Ok xw ->
  exists table, save_curve ROps id mem mix com c = Ok table /\ length table = length (cv_xs c) /\
    load_curve ROps PP m table =
      Ok {| cv_T := cv_T c; cv_xs := xw; cv_J := cv_J c; cv_Tp := cv_Tp c; cv_pp := cv_pp c; cv_P := cv_P c |}.
Proof. exact (curve_roundtrip PP m id mem mix com c xw). Qed.

(* a re-loaded curve (mass fractions) is a fixed point of save/load *)
Theorem C17_curve_roundtrip_weight (PP : PPfun ROps) (m : Mixture ROps) id mem mix com (c : Curve ROps) :
  cv_xs c <> [] -> length (cv_J c) = length (cv_xs c) -> length (cv_P c) = length (cv_xs c) ->
  Forall (fun x : Composition ROps => 0 <= cp x <= 1 /\ ctype x = Weight) (cv_xs c) -> Forall wf_pair (cv_P c) ->
  exists table, save_curve ROps id mem mix com c = Ok table /\ load_curve ROps PP m table = Ok c.
Proof. exact (curve_roundtrip_weight PP m id mem mix com c). Qed.

(* a data file with holes in the flux columns AND in the permeance/unit columns is rejected *)
Theorem C17_curve_needs_data (PP : PPfun ROps) (m : Mixture ROps) row0 rest :
  all_present ROps 8 (row0 :: rest) && all_present ROps 9 (row0 :: rest) = false ->
  all_present ROps 10 (row0 :: rest) && all_present ROps 11 (row0 :: rest) && all_present ROps 12 (row0 :: rest) = false ->
  load_curve ROps PP m (row0 :: rest) = Err ValueError.
Proof. exact (load_curve_needs_data PP m row0 rest). Qed.

(* the hypotheses of the curve round trip are satisfiable: a two-point mole-fraction curve *)
Example C17_curve_roundtrip_nonvacuous :
  let c := Build_Curve ROps 333 [RC (1/4) Weight; RC (3/4) Weight] [(1, 2); (3, 4)] (Some 200) None
             [(RP 1 KG, RP 2 KG); (RP 3 KG, RP 4 KG)] in
  cv_xs c <> [] /\ length (cv_J c) = length (cv_xs c) /\ length (cv_P c) = length (cv_xs c) /\
  Forall (fun x : Composition ROps => 0 <= cp x <= 1 /\ ctype x = Weight) (cv_xs c) /\ Forall wf_pair (cv_P c).
Proof.
  cbn. repeat split; try discriminate; try reflexivity;
  repeat (constructor; try (cbn; repeat split; try reflexivity; lra)).
Qed.

(* ---- JSON forms ---- *)
Theorem C17_function_json_roundtrip (f : PervFn ROps) : pf_from_json ROps (pf_to_json ROps f) = Ok f.
Proof. exact (pf_json_roundtrip f). Qed.

(* everything but the temperature programme, which the format does not store *)
Theorem C17_conditions_json_roundtrip (c : Conditions ROps) : 0 <= cp (cd_x0 c) <= 1 ->
  cond_from_json ROps (cond_to_json ROps c) =
  Ok {| cd_A := cd_A c; cd_T0 := cd_T0 c; cd_m0 := cd_m0 c; cd_x0 := cd_x0 c; cd_Tp := cd_Tp c; cd_pp := cd_pp c;
        cd_prog := None |}.
Proof. exact (cond_json_roundtrip c). Qed.

(* a stored composition value outside [0,1] is rejected on load *)
Theorem C17_conditions_json_rejects (o : JObj ROps) A T0 m0 xv xt tp pp :
  jget ROps K_area o = Ok (JNum A) -> jget ROps K_T0 o = Ok (JNum T0) -> jget ROps K_m0 o = Ok (JNum m0) ->
  jget ROps K_xval o = Ok (JNum xv) -> jget ROps K_xtype o = Ok (JCType xt) ->
  jget ROps K_Tp o = Ok tp -> jget ROps K_pp o = Ok pp ->
  ~ (0 <= xv <= 1) -> cond_from_json ROps o = Err ValueError.
Proof. exact (cond_json_rejects o A T0 m0 xv xt tp pp). Qed.

(* ---- curve sets: DiffusionCurveSet.load groups the lines of a file by curve identifier ---- *)
(* curves saved one after the other under ascending identifiers load back as the list of those curves *)
Theorem C17_curve_set_roundtrip (PP : PPfun ROps) (m : Mixture ROps) mem mix com (ics : list (nat * Curve ROps)) :
  StronglySorted lt (map fst ics) -> Forall (fun ic => curve_storable (snd ic)) ics ->
  exists tables, mapM (fun ic => save_curve ROps (fst ic) mem mix com (snd ic)) ics = Ok tables /\
    load_set ROps PP m (concat tables) = Ok (map snd ics).
Proof. exact (curve_set_roundtrip PP m mem mix com ics). Qed.

(* the loaded set depends only on each identifier's own lines, in their file order: interleaving the curves' lines in the
   file changes nothing, and the curves come back in ascending identifier order *)
Theorem C17_curve_set_interleaving (PP : PPfun ROps) (m : Mixture ROps) (t t' : list (list (Cell ROps))) :
  (forall k, group_of ROps k t' = group_of ROps k t) -> load_set ROps PP m t' = load_set ROps PP m t.
Proof. exact (load_set_interleaving ROps PP m t t'). Qed.

(* a file written by DiffusionCurve.save (one identifier) is a set of exactly that curve *)
Theorem C17_curve_set_single (PP : PPfun ROps) (m : Mixture ROps) k (t : list (list (Cell ROps))) :
  t <> [] -> Forall (fun r => row_id ROps r = k) t ->
  load_set ROps PP m t = (c <- load_curve ROps PP m t ;; Ok [c]).
Proof. exact (load_set_single ROps PP m k t). Qed.

Example C17_curve_set_nonvacuous :
  let c := Build_Curve ROps 333 [RC (1/4) Weight; RC (3/4) Weight] [(1, 2); (3, 4)] (Some 200) None
             [(RP 1 KG, RP 2 KG); (RP 3 KG, RP 4 KG)] in
  StronglySorted lt (map fst [(2%nat, c); (5%nat, c)]) /\ Forall (fun ic => curve_storable (snd ic)) [(2%nat, c); (5%nat, c)].
Proof.
  cbn. split; [repeat constructor|].
  assert (H : curve_storable (Build_Curve ROps 333 [RC (1/4) Weight; RC (3/4) Weight] [(1, 2); (3, 4)] (Some 200) None
             [(RP 1 KG, RP 2 KG); (RP 3 KG, RP 4 KG)])).
  { unfold curve_storable. cbn. repeat split; try discriminate; try reflexivity;
    repeat (constructor; try (cbn; repeat split; try reflexivity; lra)). }
  constructor; [exact H|]. constructor; [exact H|]. constructor.
Qed.

Print Assumptions C17_process_roundtrip.
Print Assumptions C17_curve_set_roundtrip.
Print Assumptions C17_curve_set_interleaving.
Print Assumptions C17_fresh_directory.
Print Assumptions C17_curve_roundtrip.
Print Assumptions C17_function_json_roundtrip.
Print Assumptions C17_conditions_json_roundtrip.
