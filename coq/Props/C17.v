(* C17 — saved curves, functions, conditions and process models load back unchanged.
   The storage back ends (pandas CSV, json, joblib, the OS) are oracles: they are assumed to hand back what they were
   given; what is modelled and proved is the column map of ProcessModel.save / load and the directory discipline. *)
From Coq Require Import Reals Lra List.
From PV Require Import Num PyBase Model.Component Model.Mixture Model.Permeance Model.Solver Model.Process Model.Persist
  Lemmas.Composition Lemmas.Process Lemmas.Persist.
Import ListNotations.
Local Open Scope R_scope.

(* every line written for a reported row loads back as that row (time, mass, temperature, composition, fluxes,
   permeances and their units, heats, incl. an absent condensation heat) *)
Theorem C17_row_roundtrip (m : Mixture ROps) mem mix com (r : PRow ROps) Tp pp : wf_row r ->
  load_row ROps m KG (save_row ROps mem mix com r Tp pp) = Ok r.
Proof. exact (load_save_row m mem mix com r Tp pp). Qed.

(* the whole table: same rows, same (scalar) permeate condition, same number of lines as steps *)
Theorem C17_process_roundtrip (m : Mixture ROps) mem mix com rows Tp pp : Forall wf_row rows -> rows <> [] ->
  load_process ROps m (save_process ROps mem mix com rows Tp pp) = Ok (rows, Tp, pp).
Proof. exact (load_save_process m mem mix com rows Tp pp). Qed.
Theorem C17_lengths mem mix com (rows : list (PRow ROps)) Tp pp : length (save_process ROps mem mix com rows Tp pp) = length rows.
Proof. exact (save_process_length mem mix com rows Tp pp). Qed.

(* for every prior directory listing and every hash value: save raises FileExistsError (nothing written) or writes
   into a directory that did not exist, and all existing directories remain *)
Theorem C17_fresh_directory (fs : FS) name :
  (generate_process_path fs name = Err FileExistsError /\ In name fs) \/
  (exists fs', generate_process_path fs name = Ok (fs', name) /\ ~ In name fs /\ forall d, In d fs -> In d fs').
Proof. exact (generate_path_fresh fs name). Qed.

Print Assumptions C17_process_roundtrip.
Print Assumptions C17_fresh_directory.
