(* C12 — membrane permeance follows the Arrhenius law of its experiments. *)
From Coq Require Import Reals Lra List.
From PV Require Import Num PyBase Model.Component Model.Mixture Model.Permeance Model.Membrane
  Lemmas.Permeance Lemmas.Thermo Lemmas.Membrane.
Import ListNotations.
Local Open Scope R_scope.

Section C12.
  Variables (exps : option (list (Experiment ROps))) (T : R) (c : Component ROps) (ip : option (Permeance ROps)).
  Variables (l : list (Experiment ROps)) (idx : nat) (e : Experiment ROps) (given : Permeance ROps).
  (* e is the experiment of this component selected by the nearest-temperature rule (first minimum of |T_i - T|),
     given is its permeance converted to kg/(m2 h kPa) *)
  Hypothesis Hl : penetrant ROps exps c = Ok l.
  Hypothesis Hidx : argmin ROps (map (fun e => nabs ROps (sub ROps (ex_T e) T)) l) = Ok idx.
  Hypothesis He : nth_error l idx = Some e.
  Hypothesis Hg : convert ROps (ex_P e) KG (Some c) = Ok given.

  Theorem C12_at_experiment : ex_T e = T -> get_permeance ROps exps T c ip = Ok given.
  Proof. exact (get_permeance_at_experiment exps T c ip l idx e given Hl Hidx He Hg). Qed.

  Theorem C12_stated ea : ex_T e <> T -> ex_Ea e = Some ea -> 0 <= pval given -> (forall p, ip = Some p -> 0 <= pval p) ->
    get_permeance ROps exps T c ip =
      Ok (Build_Permeance ROps (arrhenius ROps (match ip with Some p => pval p | None => pval given end) ea T (ex_T e)) KG).
  Proof. exact (get_permeance_stated exps T c ip l idx e given Hl Hidx He Hg ea). Qed.

  Theorem C12_regressed ea : ex_T e <> T -> ex_Ea e = None -> 0 <= pval given -> activation_energy ROps exps c = Ok ea ->
    get_permeance ROps exps T c ip = Ok (Build_Permeance ROps (arrhenius ROps (pval given) ea T (ex_T e)) KG).
  Proof. exact (get_permeance_regressed exps T c ip l idx e given Hl Hidx He Hg ea). Qed.
End C12.

Theorem C12_arrhenius_formula v ea T Te : arrhenius ROps v ea T Te = v * exp (- ea / Rg * (1 / T - 1 / Te)).
Proof. exact (arrhenius_R v ea T Te). Qed.

(* the activation energy: stated for a single experiment, least-squares slope of ln P against 1/T times -R otherwise *)
Theorem C12_ea_single exps (c : Component ROps) e ea :
  penetrant ROps exps c = Ok [e] -> ex_Ea e = Some ea -> activation_energy ROps exps c = Ok ea.
Proof. exact (activation_energy_single exps c e ea). Qed.
Theorem C12_ea_regressed exps (c : Component ROps) e0 e1 rest :
  penetrant ROps exps c = Ok (e0 :: e1 :: rest) ->
  activation_energy ROps exps c =
    Ok (- (ols_slope ROps (map (fun e : Experiment ROps => 1 / ex_T e) (e0 :: e1 :: rest))
                          (map (fun e : Experiment ROps => ln (pval (ex_P e))) (e0 :: e1 :: rest)) * Rg)).
Proof. exact (activation_energy_regressed exps c e0 e1 rest). Qed.

(* experiments exactly on an Arrhenius line (ln P = a - Ea/R * 1/T), not all at one temperature: the regression recovers Ea,
   for any number of experiments in any order *)
Theorem C12_line_recovers_ea exps (c : Component ROps) e0 e1 rest a Ea :
  penetrant ROps exps c = Ok (e0 :: e1 :: rest) ->
  (forall e, In e (e0 :: e1 :: rest) -> ln (pval (ex_P e)) = a + (- Ea / Rg) * (1 / ex_T e)) ->
  let xs := map (fun e : Experiment ROps => 1 / ex_T e) (e0 :: e1 :: rest) in
  INR (length xs) * rsum (map (fun x => x * x) xs) - rsum xs * rsum xs <> 0 ->
  activation_energy ROps exps c = Ok Ea.
Proof. exact (activation_energy_on_line exps c e0 e1 rest a Ea). Qed.

(* ... and then the permeance is the same whichever experiment is taken as the reference *)
Theorem C12_reference_independent Pr ea T Tr Tj : T <> 0 -> Tr <> 0 -> Tj <> 0 ->
  arrhenius ROps (arrhenius ROps Pr ea Tj Tr) ea T Tj = arrhenius ROps Pr ea T Tr.
Proof. exact (arrhenius_reference_independent Pr ea T Tr Tj). Qed.

Theorem C12_selectivity exps T (ca cb : Component ROps) pa pb :
  0 < mw ca -> 0 < mw cb ->
  get_permeance ROps exps T ca None = Ok pa -> get_permeance ROps exps T cb None = Ok pb ->
  punits pa = KG -> punits pb = KG -> 0 <= pval pa -> 0 <= pval pb -> pval pb <> 0 ->
  exists sw sm, ideal_selectivity ROps exps T ca cb false = Ok sw /\ ideal_selectivity ROps exps T ca cb true = Ok sm /\
    sm = sw * (mw cb / mw ca).
Proof. exact (selectivity_molar_vs_weight exps T ca cb pa pb). Qed.

Theorem C12_pure_flux exps T (c : Component ROps) p v :
  get_permeance ROps exps T c None = Ok p -> vapor_pressure ROps c T = Ok v ->
  pure_component_flux ROps exps T c None None = Ok (pval p * v)
  /\ (forall tp vp, vapor_pressure ROps c tp = Ok vp -> pure_component_flux ROps exps T c (Some tp) None = Ok (pval p * (v - vp)))
  /\ (forall pr, pure_component_flux ROps exps T c None (Some pr) = Ok (pval p * (v - pr)))
  /\ (forall tp pr, pure_component_flux ROps exps T c (Some tp) (Some pr) = Err ValueError).
Proof. exact (pure_flux_modes exps T c p v). Qed.

(* non-vacuity of the line theorem's denominator condition: two distinct temperatures *)
Example C12_nonvacuous : INR 2 * rsum (map (fun x => x * x) [1/300; 1/350]) - rsum [1/300; 1/350] * rsum [1/300; 1/350] <> 0.
Proof. cbn. lra. Qed.

Print Assumptions C12_stated.
Print Assumptions C12_line_recovers_ea.
Print Assumptions C12_selectivity.
