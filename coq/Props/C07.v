(* C07 — results do not depend on the mole- vs mass-fraction input basis. *)
From Coq Require Import Reals Lra List.
From PV Require Import Num PyBase Model.Component Model.Mixture Model.Permeance Model.Solver Model.Process Model.Curve Model.Fit Model.NonIdealCurve
  Lemmas.Composition Lemmas.Activity Lemmas.Process Lemmas.Basis Lemmas.NonIdealCurve.
From PV Require Import Model.Curve Lemmas.Basis Lemmas.Entry.
Import ListNotations.
Local Open Scope R_scope.

Section C07.
  Variable m : Mixture ROps.
  Hypothesis HM1 : 0 < mw (c1 m).
  Hypothesis HM2 : 0 < mw (c2 m).
  (* [as_weight m w] and [as_molar m w]: the same physical composition as mass fraction w / the equivalent mole fraction *)

  Theorem C07_same_composition w : 0 <= w <= 1 ->
    to_weight ROps (as_molar m w) m = Ok (as_weight w) /\ to_molar ROps (as_weight w) m = Ok (as_molar m w).
  Proof. intro H; split; [exact (to_weight_as_molar m HM1 HM2 w H) | exact (to_molar_as_weight m HM1 HM2 w H)]. Qed.

  Theorem C07_partial_pressures spec T w ct : 0 <= w <= 1 ->
    partial_pressures_gen ROps spec T m (as_weight w) ct = partial_pressures_gen ROps spec T m (as_molar m w) ct.
  Proof. exact (pp_basis m HM1 HM2 spec T w ct). Qed.

  Theorem C07_driving_force spec fix4 a w : 0 <= w <= 1 ->
    fluxes_from_permeate_gen ROps spec fix4 m (set_feed a (as_weight w))
    = fluxes_from_permeate_gen ROps spec fix4 m (set_feed a (as_molar m w)).
  Proof. exact (flux_feed_basis m HM1 HM2 spec fix4 a w). Qed.

  Theorem C07_flux_solver spec fix4 perm a w : 0 <= w <= 1 ->
    solve_gen ROps spec fix4 m perm (set_sx a (as_weight w)) = solve_gen ROps spec fix4 m perm (set_sx a (as_molar m w)).
  Proof. exact (solve_basis m HM1 HM2 spec fix4 perm a w). Qed.

  Theorem C07_separation_factor (slv : SolveArgs ROps -> res (R * R)) a w : 0 <= w <= 1 ->
    slv (set_sx a (as_weight w)) = slv (set_sx a (as_molar m w)) ->
    separation_factor ROps m slv (set_sx a (as_weight w)) = separation_factor ROps m slv (set_sx a (as_molar m w)).
  Proof. exact (separation_factor_basis m HM1 HM2 slv a w). Qed.

  Theorem C07_measurements (second_comp : bool) T w P : 0 <= w <= 1 ->
    curve_measurements ROps m second_comp (Build_CurvePts ROps T [(as_molar m w, P)])
    = curve_measurements ROps m second_comp (Build_CurvePts ROps T [(as_weight w, P)]).
  Proof. exact (measurement_point_basis m HM1 HM2 second_comp T w P). Qed.

  (* the four process models: the basis of the initial feed does not matter *)
  Theorem C07_ideal_isothermal cd w n dt prec ct slv perm : 0 <= w <= 1 ->
    ideal_isothermal ROps m (set_x0 cd (as_molar m w)) n dt prec ct slv perm
    = ideal_isothermal ROps m (set_x0 cd (as_weight w)) n dt prec ct slv perm.
  Proof. exact (ideal_isothermal_basis m HM1 HM2 cd w n dt prec ct slv perm). Qed.
  Theorem C07_ideal_non_isothermal cd w n dt prec ct slv perm : 0 <= w <= 1 ->
    ideal_non_isothermal ROps m (set_x0 cd (as_molar m w)) n dt prec ct slv perm
    = ideal_non_isothermal ROps m (set_x0 cd (as_weight w)) n dt prec ct slv perm.
  Proof. exact (ideal_non_isothermal_basis m HM1 HM2 cd w n dt prec ct slv perm). Qed.
  Theorem C07_non_ideal iso cd w n dt prec ct slv f1 f2 ip : 0 <= w <= 1 ->
    non_ideal_process ROps iso m (set_x0 cd (as_molar m w)) n dt prec ct slv f1 f2 ip
    = non_ideal_process ROps iso m (set_x0 cd (as_weight w)) n dt prec ct slv f1 f2 ip.
  Proof. exact (non_ideal_process_basis m HM1 HM2 iso cd w n dt prec ct slv f1 f2 ip). Qed.
  Theorem C07_non_ideal_curve PP slv ea single raw1 raw2 T w delta n Tp pp ip prec ct : 0 <= w <= 1 ->
    non_ideal_curve ROps PP m slv ea single raw1 raw2 T (as_molar m w) delta n Tp pp ip prec ct
    = non_ideal_curve ROps PP m slv ea single raw1 raw2 T (as_weight w) delta n Tp pp ip prec ct.
  Proof. exact (non_ideal_curve_basis PP m slv ea single raw1 raw2 T w delta n Tp pp ip prec ct HM1 HM2). Qed.
End C07.

(* process models always report feed compositions as mass fractions (later rows: C01_balance) *)
Theorem C07_reports_weight (m : Mixture ROps) c x0 : to_weight ROps c m = Ok x0 -> 0 <= cp c <= 1 -> ctype x0 = Weight /\ 0 <= cp x0 <= 1.
Proof. exact (to_weight_result m c x0). Qed.

(* ---- the points of a diffusion curve ---- *)
(* DiffusionCurve(...) built from fluxes, from permeances or from both: same temperature, fluxes, permeate condition and
   permeances whichever basis the feed compositions are given in (for any basis-independent partial-pressure function;
   the real one is, next theorem) *)
Theorem C07_curve_construction (m : Mixture ROps) (PP : PPfun ROps) T ws J Tp pp P :
  0 < mw (c1 m) -> 0 < mw (c2 m) ->
  (forall T w ct, 0 <= w <= 1 -> PP T (as_weight w) ct = PP T (as_molar m w) ct) -> Forall unit_frac ws ->
  lift curve_data (mk_curve ROps PP m (Build_CurveIn ROps T (map as_weight ws) J Tp pp P))
  = lift curve_data (mk_curve ROps PP m (Build_CurveIn ROps T (map (as_molar m) ws) J Tp pp P)).
Proof. intros _ _ H. exact (mk_curve_basis m PP H T ws J Tp pp P). Qed.

Theorem C07_real_partial_pressures (m : Mixture ROps) : 0 < mw (c1 m) -> 0 < mw (c2 m) ->
  forall T w ct, 0 <= w <= 1 -> real_PP ROps m T (as_weight w) ct = real_PP ROps m T (as_molar m w) ct.
Proof. exact (real_PP_basis m). Qed.

Theorem C07_curve_separation_factor (m : Mixture ROps) T ws J Tp pp P : 0 < mw (c1 m) -> 0 < mw (c2 m) -> Forall unit_frac ws ->
  curve_separation_factor ROps m (Build_Curve ROps T (map as_weight ws) J Tp pp P)
  = curve_separation_factor ROps m (Build_Curve ROps T (map (as_molar m) ws) J Tp pp P).
Proof. intros H1 H2. exact (curve_separation_factor_basis m H1 H2 T ws J Tp pp P). Qed.

Theorem C07_ideal_diffusion_curve (m : Mixture ROps) (PP : PPfun ROps) (slv : SolveArgs ROps -> res (R * R)) T ws Tp pp prec ct :
  (forall T w ct, 0 <= w <= 1 -> PP T (as_weight w) ct = PP T (as_molar m w) ct) ->
  (forall a w, 0 <= w <= 1 -> slv (set_sx a (as_weight w)) = slv (set_sx a (as_molar m w))) -> Forall unit_frac ws ->
  lift curve_data (ideal_diffusion_curve ROps PP m slv T (map as_weight ws) Tp pp prec ct)
  = lift curve_data (ideal_diffusion_curve ROps PP m slv T (map (as_molar m) ws) Tp pp prec ct).
Proof. intros H. exact (ideal_curve_basis m PP H slv T ws Tp pp prec ct). Qed.

Print Assumptions C07_flux_solver.
Print Assumptions C07_non_ideal.

Print Assumptions C07_curve_construction.
Print Assumptions C07_ideal_diffusion_curve.
