(* C08 — all entry points answer the same question identically (incl. the activity model).
   In the model every entry point reaches the flux calculation through ONE function [slv] applied to a
   SolveArgs record; the bridge lemmas show that the code passes exactly that record (temperature, composition,
   precision, permeate condition, permeances, activity model) at every call site. *)
From Coq Require Import Reals Lra List.
From PV Require Import Num PyBase Model.Component Model.Mixture Model.Permeance Model.Solver Model.Process
  Lemmas.Composition Lemmas.Process.
From PV Require Import Model.Curve Lemmas.Entry.
Import ListNotations.
Local Open Scope R_scope.

(* helpers = the standalone calculation with the same arguments *)
Theorem C08_permeate_composition (slv : SolveArgs ROps -> res (R * R)) a y :
  permeate_composition ROps slv a = Ok y ->
  exists J, slv a = Ok J /\ y = RC (fst J / (fst J + snd J)) Weight.
Proof.
  unfold permeate_composition. destruct (slv a) as [J|]; [|discriminate]. cbn [bind]. rnum.
  intros H. exists J. split; [reflexivity|]. apply mk_comp_R_inv in H. exact (proj2 H).
Qed.

Theorem C08_separation_factor (m : Mixture ROps) (slv : SolveArgs ROps -> res (R * R)) a sf :
  separation_factor ROps m slv a = Ok sf ->
  exists J xw, slv a = Ok J /\ to_weight ROps (sa_x a) m = Ok xw /\
    sf = ((1 - cp xw) / cp xw) / ((1 - fst J / (fst J + snd J)) / (fst J / (fst J + snd J))).
Proof.
  unfold separation_factor. intros H.
  destruct (permeate_composition ROps slv a) as [y|] eqn:EY; [|discriminate]. cbn [bind] in H.
  destruct (C08_permeate_composition _ _ _ EY) as [J [HJ ->]].
  destruct (to_weight ROps (sa_x a) m) as [xw|]; [|discriminate]. cbn [bind] in H.
  injection H as <-. exists J, xw. repeat split; try assumption. 
Qed.

Section Steps.
  Variable kind : PKind.
  Variable m : Mixture ROps.
  Variable cd : Conditions ROps.
  Variables (dt prec : R) (ct : ActModel).
  Variable slv : SolveArgs ROps -> res (R * R).
  Variable perm : R -> Component ROps -> res (Permeance ROps).
  Variables (f1 f2 : PervFn ROps) (FR1 FR2 : R).
  Variables (n k : nat) (st : PState ROps) (rows : list (PRow ROps)).
  Hypothesis Hrun : run_from ROps kind m cd dt prec ct slv perm f1 f2 FR1 FR2 n k st = Ok rows.

  (* every step (step 0 included): reported fluxes = standalone calculation at the reported state with the
     reported permeances, the run's permeate condition, precision and activity model; y = J1/(J1+J2) *)
  Theorem C08_every_step i row : nth_error rows i = Some row ->
    slv (Build_SolveArgs ROps (r_T row) (r_x row) prec (cd_Tp cd) (cd_pp cd)
           (Some (fst (r_P row))) (Some (snd (r_P row))) ct) = Ok (r_J row)
    /\ r_y row = RC (fst (r_J row) / (0 + fst (r_J row) + snd (r_J row))) Weight.
  Proof. exact (flux_is_solver kind m cd dt prec ct slv perm f1 f2 FR1 FR2 n k st rows Hrun i row). Qed.
End Steps.

(* the fluxes of an ideal diffusion curve are the standalone calculation at each feed composition with the same
   temperature, precision, permeate condition and activity model and permeances resolved through the membrane *)
Theorem C08_ideal_curve PP (m : Mixture ROps) slv T xs Tp pp prec ct c :
  ideal_diffusion_curve ROps PP m slv T xs Tp pp prec ct = Ok c ->
  mapM (fun x => slv (Build_SolveArgs ROps T x prec Tp pp None None ct)) xs = Ok (cv_J c) /\ cv_xs c = xs /\ cv_T c = T
  /\ cv_Tp c = Tp /\ cv_pp c = pp.
Proof. exact (ideal_curve_fluxes PP m slv T xs Tp pp prec ct c). Qed.

(* resolving the permeances through the membrane = supplying those permeances *)
Theorem C08_membrane_permeances spec fix4 (m : Mixture ROps) perm perm' (a : SolveArgs ROps) P :
  resolve_permeances ROps m perm a = Ok P ->
  solve_gen ROps spec fix4 m perm a
  = solve_gen ROps spec fix4 m perm' (Build_SolveArgs ROps (sa_T a) (sa_x a) (sa_prec a) (sa_Tp a) (sa_pp a) (Some (fst P)) (Some (snd P)) (sa_ct a)).
Proof. exact (solve_resolved spec fix4 m perm perm' a P). Qed.

(* step 0 of every process entry point *)
Theorem C08_step0_ideal_isothermal (m : Mixture ROps) cd n dt prec ct slv perm rows :
  ideal_isothermal ROps m cd n dt prec ct slv perm = Ok rows -> step0_statement m cd prec ct slv rows.
Proof. exact (step0_ideal_isothermal m cd n dt prec ct slv perm rows). Qed.
Theorem C08_step0_ideal_non_isothermal (m : Mixture ROps) cd n dt prec ct slv perm rows :
  ideal_non_isothermal ROps m cd n dt prec ct slv perm = Ok rows -> step0_statement m cd prec ct slv rows.
Proof. exact (step0_ideal_non_isothermal m cd n dt prec ct slv perm rows). Qed.
Theorem C08_step0_non_ideal iso (m : Mixture ROps) cd n dt prec ct slv f1 f2 ip rows :
  non_ideal_process ROps iso m cd n dt prec ct slv f1 f2 ip = Ok rows -> step0_statement m cd prec ct slv rows.
Proof. exact (step0_non_ideal m cd n dt prec ct slv iso f1 f2 ip rows). Qed.

Print Assumptions C08_every_step.
Print Assumptions C08_separation_factor.

Print Assumptions C08_ideal_curve.
Print Assumptions C08_step0_non_ideal.
