(* C16 — curve fitting is pure, deterministic and returns the best candidate it tried.
   Determinism of scipy's optimisers is an ORACLE assumption: [minimize] / [fitf] are functions. *)
From Coq Require Import Reals Lra Lia List.
From PV Require Import Num PyBase Model.Component Model.Mixture Model.Permeance Model.Solver Model.Process Model.Fit
  Lemmas.Composition Lemmas.Thermo Lemmas.Process Lemmas.Membrane Lemmas.Fit.
Import ListNotations.
Local Open Scope R_scope.

(* the best-fit search returns one of the candidates it tried, with a squared error on the supplied data no
   larger than that of any single fit within the requested maximum orders n, m *)
Theorem C16_best_fit (fitf : nat -> nat -> PervFn ROps) n m data c :
  find_best_fit ROps fitf (grid_of n m) data = Some c ->
  (exists i j, (i <= n)%nat /\ (j <= m)%nat /\ c = fitf i j) /\
  (forall i j, (i <= n)%nat -> (j <= m)%nat -> sq_loss ROps c data <= sq_loss ROps (fitf i j) data).
Proof.
  intros H. destruct (find_best_fit_optimal fitf _ data c H) as [[ij [Hin ->]] Hopt]. split.
  - unfold grid_of in Hin. apply in_flat_map in Hin. destruct Hin as [i [Hi Hj]]. apply in_map_iff in Hj.
    destruct Hj as [j [<- Hj]]. apply in_seq in Hi. apply in_seq in Hj. exists i, j. cbn [fst snd]. repeat split; lia.
  - intros i j Hi Hj. exact (Hopt (i, j) (grid_of_complete n m i j Hi Hj)).
Qed.
Theorem C16_best_fit_exists (fitf : nat -> nat -> PervFn ROps) n m data :
  exists c, find_best_fit ROps fitf (grid_of n m) data = Some c.
Proof. exact (find_best_fit_nonempty fitf n m data). Qed.

(* the VLE fit returns the start value or a candidate whose error is below the running best *)
Theorem C16_vle_best cands best err :
  vle_best ROps cands best err = best \/ exists e, In (vle_best ROps cands best err, e) cands /\ e < err.
Proof. exact (vle_best_spec cands best err). Qed.

(* evaluation of a fitted function and multiplication by a constant *)
Theorem C16_evaluation (f : PervFn ROps) x t :
  pf_call ROps f x t = pf_alpha f * exp (rsum (poly_terms ROps (pf_a f) x 1) - rsum (poly_terms ROps (pf_b f) x 0) / t).
Proof. exact (pf_call_R f x t). Qed.
Theorem C16_terms cs x e : poly_terms ROps cs x e = match cs with [] => [] | c :: t => (c * x ^ e) :: poly_terms ROps t x (S e) end.
Proof. exact (poly_terms_R cs x e). Qed.
Theorem C16_multiplication (f : PervFn ROps) c x t : pf_call ROps (pf_mul ROps f c) x t = c * pf_call ROps f x t.
Proof. exact (pf_mul_call f c x t). Qed.

(* what the minimiser is given: the caller's points, followed (only when requested) by one zero point per
   distinct temperature; the caller's list itself is an input of a pure function *)
Theorem C16_fit_data_without_zero uniq (data : list (Meas ROps)) idx : fit_data ROps uniq data false idx = data.
Proof. exact (fit_data_noiz uniq data idx). Qed.
Theorem C16_fit_data_with_zero uniq (data : list (Meas ROps)) idx :
  fit_data ROps uniq data true idx = data ++ zero_points ROps idx (uniq (map ms_t data))
  /\ Forall (fun z : Meas ROps => ms_p z = 0 /\ ms_x z = INR idx) (zero_points ROps idx (uniq (map ms_t data))).
Proof. exact (fit_data_iz uniq data idx). Qed.

Print Assumptions C16_best_fit.
Print Assumptions C16_multiplication.
