(* C20 — modelling calls are pure: no hidden state, arguments untouched, repeatable.
   Every modelling entry point is modelled by a Gallina FUNCTION of its arguments (no state is threaded
   through Model/*.v), and the bridge lemmas show that the code computes those functions - in particular when the
   same case is traced a second time, later in the same interpreter, with different leaves behind the same object
   names (history pass of the tracer) and with deep snapshots of the argument objects taken before and after.
   What is NOT functional in the Python code - arrays shared between a fitted function and its scaled copy, and the
   in-place assignment b[0] = Ea/R - is modelled with an explicit heap (Model/Heap.v). *)
From Coq Require Import List Arith.
From PV Require Import Num PyBase Model.Heap Lemmas.Heap.
Import ListNotations.

(* a non-ideal call writes only arrays it allocated itself *)
Theorem C20_footprint (N : NumOps) (h : heap N) n m alpha a b factor v l :
  l < length h -> read N (fst (nonideal_call N h n m alpha a b factor v)) l = read N h l.
Proof. exact (nonideal_call_footprint N h n m alpha a b factor v l). Qed.

(* its result is the same from any prior heap (any history of earlier calls) as from a fresh state *)
Theorem C20_history_independent (N : NumOps) (h h' : heap N) n m alpha a b factor v :
  let r := nonideal_call N h n m alpha a b factor v in
  let r' := nonideal_call N h' n m alpha a b factor v in
  fo_alpha (snd r) = fo_alpha (snd r') /\ read N (fst r) (fo_a (snd r)) = read N (fst r') (fo_a (snd r'))
  /\ read N (fst r) (fo_b (snd r)) = read N (fst r') (fo_b (snd r')).
Proof. exact (nonideal_call_history_independent N h h' n m alpha a b factor v). Qed.

(* sequences of calls: all previously existing arrays are unchanged after any number of calls *)
Fixpoint calls (N : NumOps) (h : heap N) (cs : list (nat * nat * num N * list (num N) * list (num N) * num N * num N)) : heap N :=
  match cs with
  | [] => h
  | (n, m, al, a, b, f, v) :: t => calls N (fst (nonideal_call N h n m al a b f v)) t
  end.

Lemma nonideal_call_grows (N : NumOps) (h : heap N) n m al a b f v : length h <= length (fst (nonideal_call N h n m al a b f v)).
Proof.
  unfold nonideal_call, new_fn, rescale_obj, alloc, fn_mul, write0. cbn [fst snd fo_b].
  rewrite update_length, !app_length. cbn. apply Nat.le_trans with (length h + 1); [apply Nat.le_add_r|]. apply Nat.le_add_r.
Qed.

Theorem C20_call_sequences (N : NumOps) cs (h : heap N) l : l < length h -> read N (calls N h cs) l = read N h l.
Proof.
  revert h. induction cs as [|[[[[[[n m] al] a] b] f] v] t IH]; intros h Hl; cbn [calls]; [reflexivity|].
  rewrite IH.
  - apply nonideal_call_footprint. exact Hl.
  - eapply Nat.lt_le_trans; [exact Hl | apply nonideal_call_grows].
Qed.

Theorem C20_scaled_copy_shares_arrays (N : NumOps) (f : FnObj N) c : fo_a (fn_mul N f c) = fo_a f /\ fo_b (fn_mul N f c) = fo_b f.
Proof. exact (mul_shares_arrays N f c). Qed.

Print Assumptions C20_call_sequences.
Print Assumptions C20_history_independent.
