(* C13 — latent and cooling heats are consistent with vapour pressure and heat capacity. *)
From Coq Require Import Reals Lra.
From Coquelicot Require Import Coquelicot.
From PV Require Import Num PyBase Model.Component Lemmas.Thermo.
Local Open Scope R_scope.

(* Clausius-Clapeyron for the Antoine form, every constant set, every T off the pole T = -c:
   1000 * H(T) [J/mol] = R T^2 dln(Psat)/dT *)
Theorem C13_clausius_clapeyron_antoine (k : Component ROps) T :
  vp_type (vpc k) = Antoine -> T + vp_c (vpc k) <> 0 ->
  1000 * hvap k T = Rg * T ^ 2 * Derive (fun t => ln (psat k t)) T.
Proof. intros Hty Hp. exact (clausius_clapeyron_antoine k Hty T Hp). Qed.

Theorem C13_clausius_clapeyron_frost (k : Component ROps) T :
  vp_type (vpc k) = Frost -> T <> 0 ->
  1000 * hvap k T = Rg * T ^ 2 * Derive (fun t => ln (psat k t)) T.
Proof. intros Hty Hp. exact (clausius_clapeyron_frost k Hty T Hp). Qed.

(* psat/hvap are the values the model functions return (not an independent re-definition) *)
Theorem C13_psat_is_model (k : Component ROps) T p :
  vapor_pressure ROps k T = Ok p -> psat k T = p.
Proof. intros H. unfold psat. rewrite H. reflexivity. Qed.
Theorem C13_hvap_is_model (k : Component ROps) T h :
  vaporisation_heat ROps k T = Ok h -> hvap k T = h.
Proof. intros H. unfold hvap. rewrite H. reflexivity. Qed.

(* the cooling heat between t1 and t0 is the integral of the specific heat *)
Theorem C13_cooling_is_integral (k : Component ROps) t0 t1 :
  is_RInt (specific_heat ROps k) t1 t0 (cooling_heat ROps k t0 t1).
Proof. exact (cool_is_integral k t0 t1). Qed.

Theorem C13_cooling_additive (k : Component ROps) t0 t1 t2 :
  cooling_heat ROps k t0 t1 + cooling_heat ROps k t1 t2 = cooling_heat ROps k t0 t2.
Proof. exact (cool_additive k t0 t1 t2). Qed.

Theorem C13_cooling_antisymmetric (k : Component ROps) t0 t1 :
  cooling_heat ROps k t0 t1 = - cooling_heat ROps k t1 t0.
Proof. exact (cool_antisym k t0 t1). Qed.

Theorem C13_cooling_empty (k : Component ROps) t : cooling_heat ROps k t t = 0.
Proof. exact (cool_zero k t). Qed.

Theorem C13_cooling_derivative (k : Component ROps) t0 t1 :
  is_derive (fun t => cooling_heat ROps k t t1) t0 (specific_heat ROps k t0).
Proof. exact (cool_derive_upper k t0 t1). Qed.

Print Assumptions C13_clausius_clapeyron_antoine.
Print Assumptions C13_clausius_clapeyron_frost.
Print Assumptions C13_cooling_is_integral.
Print Assumptions C13_cooling_derivative.
