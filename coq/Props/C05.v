(* C05 — non-ideal models follow the fitted permeance functions they return. *)
From Coq Require Import Reals Lra List.
From PV Require Import Num PyBase Model.Component Model.Mixture Model.Permeance Model.Solver Model.Process Model.Fit Model.NonIdealCurve
  Lemmas.Composition Lemmas.Thermo Lemmas.Process Lemmas.Membrane Lemmas.Fit Lemmas.NonIdealCurve.
Import ListNotations.
Local Open Scope R_scope.

(* the returned fits: the raw results of the best-fit search for multi-curve sets; for a single curve measured at
   Tc they are re-scaled (always in the non-isothermal process, only when Tc <> T otherwise) *)
Theorem C05_returned_fits (iso : bool) (m : Mixture ROps) cd n dt prec ct slv ea single raw1 raw2 ip cxs rows fits :
  non_ideal_entry ROps iso m cd n dt prec ct slv ea single raw1 raw2 ip cxs = Ok (rows, fits) ->
  nonideal_fits ROps single (negb iso) (cd_T0 cd) ea m raw1 raw2 = Ok fits /\
  non_ideal_process ROps iso m cd n dt prec ct slv (fst fits) (snd fits) ip = Ok rows.
Proof.
  unfold non_ideal_entry. intros H.
  destruct (mapM _ cxs); [|discriminate]. cbn [bind] in H.
  destruct (nonideal_fits ROps single (negb iso) (cd_T0 cd) ea m raw1 raw2) as [f|]; [|discriminate]. cbn [bind] in H.
  destruct (non_ideal_process ROps iso m cd n dt prec ct slv (fst f) (snd f) ip) as [r|] eqn:E; [|discriminate]. cbn [bind] in H.
  injection H as <- <-. split; [reflexivity | exact E].
Qed.

(* which search is requested: component index, maximum orders, zero points (m = 0 and, in the process models,
   no zero points for a single curve) *)
Theorem C05_requests process single n1 m1 n2 m2 iz :
  fit_requests process single n1 m1 n2 m2 iz =
  if single then (Build_FitReq n1 (Some 0%nat) (if process then false else iz) 0, Build_FitReq n2 (Some 0%nat) (if process then false else iz) 1)
  else (Build_FitReq n1 m1 iz 0, Build_FitReq n2 m2 iz 1).
Proof. reflexivity. Qed.

(* single curve: the modelled function at another temperature = the fit at the curve temperature times the Arrhenius factor *)
Theorem C05_arrhenius (f g : PervFn ROps) Ea Tc b0 x T : T <> 0 -> Tc <> 0 ->
  pf_b f = [b0] -> rescale_fit ROps f Ea Tc = Ok g ->
  pf_call ROps g x T = pf_call ROps f x Tc * exp (- Ea / Rg * (1 / T - 1 / Tc)).
Proof. exact (rescale_arrhenius f g Ea Tc b0 x T). Qed.

(* step 0: supplied initial permeances (converted), or the fit itself with factor 1 *)
Theorem C05_initial_given (m : Mixture ROps) (f1 f2 : PervFn ROps) x0 T0 ip P0 FR :
  nonideal_initial ROps m f1 f2 x0 T0 (Some ip) = Ok (P0, FR) ->
  convert ROps (fst ip) KG (Some (c1 m)) = Ok (fst P0) /\ convert ROps (snd ip) KG (Some (c2 m)) = Ok (snd P0)
  /\ FR = (pval (fst P0) / pf_call ROps f1 (cp x0) T0, pval (snd P0) / pf_call ROps f2 (cp x0) T0).
Proof. exact (nonideal_initial_some m f1 f2 x0 T0 ip P0 FR). Qed.
Theorem C05_initial_fitted (m : Mixture ROps) (f1 f2 : PervFn ROps) x0 T0 P0 FR :
  nonideal_initial ROps m f1 f2 x0 T0 None = Ok (P0, FR) ->
  0 < pf_call ROps f1 (cp x0) T0 -> 0 < pf_call ROps f2 (cp x0) T0 ->
  pval (fst P0) = pf_call ROps f1 (cp x0) T0 /\ pval (snd P0) = pf_call ROps f2 (cp x0) T0 /\ FR = (1, 1)
  /\ punits (fst P0) = KG /\ punits (snd P0) = KG.
Proof. exact (nonideal_initial_none m f1 f2 x0 T0 P0 FR). Qed.

(* every later step: permeance pair of step i+1 = fit(composition of step i (isothermal) or i+1, temperature of
   step i+1) * the run's constant factor (clamped at 0 by the Permeance constructor) *)
Theorem C05_step (iso : bool) (m : Mixture ROps) (cd : Conditions ROps) (dt prec : R) ct slv perm (f1 f2 : PervFn ROps) (FR1 FR2 : R)
    n k st rows i row row' :
  run_from ROps (if iso then NonIdealIso else NonIdealNonIso) m cd dt prec ct slv perm f1 f2 FR1 FR2 n k st = Ok rows ->
  nth_error rows i = Some row -> nth_error rows (S i) = Some row' ->
  let xx := if iso then cp (r_x row) else cp (r_x row') in
  let TT := if iso then cd_T0 cd else r_T row' in
  pval (fst (r_P row')) = Rmax 0 (pf_call ROps f1 xx TT * FR1) /\ pval (snd (r_P row')) = Rmax 0 (pf_call ROps f2 xx TT * FR2)
  /\ punits (fst (r_P row')) = KG /\ punits (snd (r_P row')) = KG.
Proof.
  intros Hrun Hn Hn'.
  destruct (row_facts _ _ _ _ _ _ _ _ _ _ _ _ _ _ _ _ Hrun _ _ Hn) as [sti [sti' [F [_ Hnext]]]].
  destruct (Hnext _ Hn') as [stj F'].
  destruct F as [_ _ Fx _ _ _ _ _ _ _ _ _ _ Fnp]. destruct F' as [_ _ Fx' FT' Fp' _ _ _ _ _ _ _ _ _].
  assert (HP : r_P row' = st_P sti') by (unfold step_permeances in Fp'; destruct iso; injection Fp' as <-; reflexivity).
  rewrite HP, Fx, Fx', FT'. exact (next_permeances_nonideal iso cd f1 f2 FR1 FR2 sti (st_x sti') (st_T sti') (st_P sti') Fnp).
Qed.

(* the non-ideal diffusion curve: compositions advance by delta, every point after the first uses fit * factor *)
Theorem C05_curve_points (slv : SolveArgs ROps -> res (R * R)) (f1 f2 : PervFn ROps) (FR1 FR2 T delta prec : R) Tp pp ct k x P pts :
  nic_loop ROps slv f1 f2 FR1 FR2 T delta prec Tp pp ct k x P = Ok pts ->
  forall i pt pt', nth_error pts i = Some pt -> nth_error pts (S i) = Some pt' ->
    cp (fst (fst pt')) = cp (fst (fst pt)) + delta /\
    pval (fst (snd pt')) = Rmax 0 (pf_call ROps f1 (cp (fst (fst pt'))) T * FR1) /\
    pval (snd (snd pt')) = Rmax 0 (pf_call ROps f2 (cp (fst (fst pt'))) T * FR2).
Proof. exact (nic_loop_permeances slv f1 f2 FR1 FR2 T delta prec Tp pp ct k x P pts). Qed.

Print Assumptions C05_step.
Print Assumptions C05_arrhenius.
