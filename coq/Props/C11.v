(* C11 — process models scale correctly with size and with the area/time trade-off. *)
From Coq Require Import Reals Lra List.
From PV Require Import Num PyBase Model.Component Model.Mixture Model.Permeance Model.Solver Model.Process
  Lemmas.Composition Lemmas.Process.
Import ListNotations.
Local Open Scope R_scope.

Section C11.
  Variable kind : PKind.
  Variable m : Mixture ROps.
  Variables (cd cd' : Conditions ROps).
  Variables (dt dt' prec : R) (ct : ActModel).
  Variable slv : SolveArgs ROps -> res (R * R).
  Variable perm : R -> Component ROps -> res (Permeance ROps).
  Variables (f1 f2 : PervFn ROps) (FR1 FR2 : R).
  Variable s : R.
  Hypothesis Hs : 0 < s.
  Hypothesis HT0 : cd_T0 cd' = cd_T0 cd.
  Hypothesis HTp : cd_Tp cd' = cd_Tp cd.
  Hypothesis Hpp : cd_pp cd' = cd_pp cd.
  Hypothesis Hprog : cd_prog cd' = cd_prog cd.

  (* General form: if A' dt' = s A dt and the feed mass is scaled by s (and either the step length is
     unchanged or there is no temperature programme), every step reports the same fluxes, compositions,
     permeances and temperatures, and feed masses and heats multiplied by s. *)
  Theorem C11_general n k st rows :
    cd_A cd' * dt' = s * (cd_A cd * dt) -> (dt' = dt \/ cd_prog cd = None) ->
    run_from ROps kind m cd dt prec ct slv perm f1 f2 FR1 FR2 n k st = Ok rows ->
    run_from ROps kind m cd' dt' prec ct slv perm f1 f2 FR1 FR2 n k (scale_st s st) = Ok (scale_rows dt' s k rows).
  Proof.
    intros HA Hd. exact (run_scale kind m cd cd' dt dt' prec ct slv perm f1 f2 FR1 FR2 s Hs HA HT0 HTp Hpp Hprog Hd n k st rows).
  Qed.

  (* size scaling: area and feed amount times s, same step length *)
  Theorem C11_size n k st rows : dt' = dt -> cd_A cd' = s * cd_A cd ->
    run_from ROps kind m cd dt prec ct slv perm f1 f2 FR1 FR2 n k st = Ok rows ->
    run_from ROps kind m cd' dt' prec ct slv perm f1 f2 FR1 FR2 n k (scale_st s st) = Ok (scale_rows dt' s k rows).
  Proof.
    intros Hd HA. apply C11_general; [rewrite HA, Hd; ring | left; exact Hd].
  Qed.
End C11.

(* area/time trade-off: area times q, step length divided by q, no temperature programme: every per-step
   state is unchanged (scale factor 1); only the time stamps follow the new step length *)
Theorem C11_area_time kind (m : Mixture ROps) (cd cd' : Conditions ROps) (dt prec : R) ct slv perm f1 f2 (FR1 FR2 q : R) n k st rows :
  0 < q -> cd_prog cd = None ->
  cd_T0 cd' = cd_T0 cd -> cd_Tp cd' = cd_Tp cd -> cd_pp cd' = cd_pp cd -> cd_prog cd' = cd_prog cd ->
  cd_A cd' = q * cd_A cd ->
  run_from ROps kind m cd dt prec ct slv perm f1 f2 FR1 FR2 n k st = Ok rows ->
  run_from ROps kind m cd' (dt / q) prec ct slv perm f1 f2 FR1 FR2 n k (scale_st 1 st) = Ok (scale_rows (dt / q) 1 k rows).
Proof.
  intros Hq Hnp H1 H2 H3 H4 HA.
  apply (run_scale kind m cd cd' dt (dt / q) prec ct slv perm f1 f2 FR1 FR2 1 Rlt_0_1); try assumption.
  - rewrite HA. field. lra.
  - right; exact Hnp.
Qed.

(* what scale_row does to a row: intensive quantities untouched, extensive ones times s *)
Theorem C11_scale_row_spec dt' s k (r : PRow ROps) :
  r_J (scale_row dt' s k r) = r_J r /\ r_x (scale_row dt' s k r) = r_x r /\ r_y (scale_row dt' s k r) = r_y r /\
  r_P (scale_row dt' s k r) = r_P r /\ r_T (scale_row dt' s k r) = r_T r /\
  r_m (scale_row dt' s k r) = s * r_m r /\ r_Q (scale_row dt' s k r) = s * r_Q r /\
  r_Qc (scale_row dt' s k r) = match r_Qc r with Some q => Some (s * q) | None => None end.
Proof. repeat split. Qed.

(* fluxes at step 0 depend neither on area, nor feed amount, nor step length *)
Theorem C11_step0 kind (m : Mixture ROps) (cd : Conditions ROps) (dt prec : R) ct slv perm f1 f2 (FR1 FR2 : R) st row st' :
  step ROps kind m cd dt prec ct slv perm f1 f2 FR1 FR2 0 st = Ok (row, st') ->
  exists P, step_permeances ROps kind m perm st = Ok P /\
    slv (Build_SolveArgs ROps (st_T st) (st_x st) prec (cd_Tp cd) (cd_pp cd) (Some (fst P)) (Some (snd P)) ct) = Ok (r_J row).
Proof.
  intros H. destruct (step_facts _ _ _ _ _ _ _ _ _ _ _ _ _ _ _ _ H) as [_ _ _ _ Fp Fs _ _ _ _ _ _ _ _].
  exists (r_P row). split; [exact Fp | exact Fs].
Qed.

Print Assumptions C11_size.
Print Assumptions C11_area_time.
