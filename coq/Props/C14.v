(* C14 — Permeance unit conversion is an exact, invertible change of units.
   Only statements; proofs are [exact]s of Lemmas/Permeance.v. *)
From Coq Require Import Reals Lra.
From PV Require Import Num PyBase Model.Component Model.Permeance Lemmas.Permeance.
Local Open Scope R_scope.

(* conversion between any two of the three known units succeeds for a component of positive
   molar mass and a non-negative value, and returns value * factor(from) / factor(to) *)
Theorem C14_convert (k : Component ROps) v u u' : 0 < mw k -> 0 <= v -> known u -> known u' ->
  convert ROps (RP v u) u' (Some k) = Ok (RP (cval (mw k) v u u') u').
Proof. exact (convert_ok k v u u'). Qed.

Theorem C14_identity v u c : convert ROps (RP v u) u c = Ok (RP v u).
Proof. exact (convert_same v u c). Qed.

Theorem C14_linear M a v u u' : cval M (a * v) u u' = a * cval M v u u'.
Proof. exact (cval_linear M a v u u'). Qed.

Theorem C14_path_independent M v a b c : 0 < M -> known a -> known b -> known c ->
  cval M (cval M v a b) b c = cval M v a c.
Proof. exact (cval_path M v a b c). Qed.

Theorem C14_invertible M v a b : 0 < M -> known a -> known b -> cval M (cval M v a b) b a = v.
Proof. exact (cval_inverse M v a b). Qed.

(* composition through the real function (two conversions in sequence, validators included) *)
Theorem C14_two_step (k : Component ROps) v a b c : 0 < mw k -> 0 <= v -> known a -> known b -> known c ->
  (p <- convert ROps (RP v a) b (Some k) ;; convert ROps p c (Some k))
  = convert ROps (RP v a) c (Some k).
Proof.
  intros HM Hv Ka Kb Kc. rewrite (convert_ok k v a b HM Hv Ka Kb). cbn [bind].
  rewrite (convert_ok k _ b c HM (cval_nonneg _ _ _ _ HM Hv Ka Kb) Kb Kc).
  rewrite (convert_ok k v a c HM Hv Ka Kc). rewrite (cval_path _ _ _ _ _ HM Ka Kb Kc). reflexivity.
Qed.

Theorem C14_kg_is M : 0 < M -> cval M 1 KG SI = 1 / (3600 * M).
Proof. exact (kg_in_SI M). Qed.
Theorem C14_gpu_is M : cval M 1 GPU SI = 335 / 10 ^ 12.
Proof. exact (gpu_in_SI M). Qed.

Theorem C14_needs_component v u : u <> KG -> convert ROps (RP v u) KG None = Err ValueError.
Proof. exact (convert_none_to_kg v u). Qed.
Theorem C14_needs_component_from v u' : u' <> KG -> exists e, convert ROps (RP v KG) u' None = Err e.
Proof. exact (convert_none_from_kg v u'). Qed.
Theorem C14_unknown_source v t u' c : u' <> OtherUnit t -> exists e, convert ROps (RP v (OtherUnit t)) u' c = Err e.
Proof. exact (convert_other_source v t u' c). Qed.
Theorem C14_unknown_target v u t c : u <> OtherUnit t -> exists e, convert ROps (RP v u) (OtherUnit t) c = Err e.
Proof. exact (convert_other_target v u t c). Qed.

Theorem C14_nonnegative v u : 0 <= pval (mk_permeance ROps v u).
Proof. exact (mk_permeance_nonneg v u). Qed.

Example C14_nonvacuous : 0 < 18 /\ 0 <= 5/100 /\ known GPU /\ known SI /\ known KG.
Proof. repeat split; lra. Qed.

Print Assumptions C14_convert.
Print Assumptions C14_two_step.
Print Assumptions C14_invertible.
Print Assumptions C14_unknown_target.
