(* C06 — results do not depend on which component is called first.
   [swap_mixture] exchanges the components together with their interaction parameters, [swap_comp] maps p to 1 - p.
   The UNIQUAC second coefficient as written in mixture.py is NOT the mirror image of the first (known finding F1):
   the symmetry is proved for NRTL and for the corrected UNIQUAC variant ([sym_model]). *)
From Coq Require Import Reals Lra List.
From PV Require Import Num PyBase Model.Component Model.Mixture Model.Permeance Model.Solver Model.Process Model.Curve
  Lemmas.Composition Lemmas.Activity Lemmas.Solver Lemmas.Process Lemmas.Swap.
Import ListNotations.
Local Open Scope R_scope.

Theorem C06_nrtl (p : NRTLParams ROps) T x :
  nrtl_gamma ROps (swap_nrtl p) T (RC (1 - x) Molar) = swap_pair (nrtl_gamma ROps p T (RC x Molar)).
Proof. exact (nrtl_swap p T x). Qed.

Theorem C06_uniquac_corrected (u : UQParams ROps) (k1 k2 : UQConst ROps) T x :
  uniquac_gamma_gen ROps true (swap_uq u) k2 k1 T (1 - x) (1 - (1 - x)) = swap_pair (uniquac_gamma_gen ROps true u k1 k2 T x (1 - x)).
Proof. exact (uniquac_spec_swap u k1 k2 T x). Qed.

Theorem C06_activity spec T (m : Mixture ROps) x ct : sym_model spec ct -> x <> 0 -> 1 - x <> 0 ->
  activity_gen ROps spec T (swap_mixture m) (RC (1 - x) Molar) ct = swap_res (activity_gen ROps spec T m (RC x Molar) ct).
Proof. exact (activity_swap spec T m x ct). Qed.

Theorem C06_partial_pressures spec T (m : Mixture ROps) (c : Composition ROps) ct : sym_model spec ct -> vp_defined m T ->
  0 < mw (c1 m) -> 0 < mw (c2 m) -> 0 < cp c < 1 ->
  partial_pressures_gen ROps spec T (swap_mixture m) (swap_comp c) ct = swap_res (partial_pressures_gen ROps spec T m c ct).
Proof. exact (pp_swap spec T m c ct). Qed.

Theorem C06_composition_conversion (m : Mixture ROps) (c : Composition ROps) : 0 < mw (c1 m) -> 0 < mw (c2 m) -> 0 <= cp c <= 1 ->
  to_molar ROps (swap_comp c) (swap_mixture m) = match to_molar ROps c m with Ok r => Ok (swap_comp r) | Err e => Err e end.
Proof. exact (to_molar_swap m c). Qed.

(* the composition of an exchanged flux pair is the exchanged composition; the solver's distance is symmetric *)
Theorem C06_flux_composition (J : R * R) : fst J + snd J <> 0 ->
  comp_of_fluxes ROps (swap_pair J) = match comp_of_fluxes ROps J with Ok y => Ok (swap_comp y) | Err e => Err e end.
Proof. exact (comp_of_fluxes_swap J). Qed.

(* the fixed-point loop commutes with the relabelling whenever the two driving-force maps are mirror images *)
Theorem C06_solver_loop (F F' : Composition ROps -> res (R * R)) prec fuel d y :
  (forall y, F' (swap_comp y) = swap_res (F y)) -> (forall y J, F y = Ok J -> fst J + snd J <> 0) ->
  solve_loop ROps fuel F' prec d (swap_comp y)
  = match solve_loop ROps fuel F prec d y with Ok r => Ok (swap_comp r) | Err e => Err e end.
Proof. exact (solve_loop_swap F F' prec fuel d y). Qed.

(* separation factors invert *)
Theorem C06_separation_factor (x y : Composition ROps) : cp x <> 0 -> 1 - cp x <> 0 -> cp y <> 0 -> 1 - cp y <> 0 ->
  process_separation_factor ROps (swap_comp y) (swap_comp x) = 1 / process_separation_factor ROps y x.
Proof. exact (separation_factor_swap x y). Qed.

(* the ideal isothermal and non-isothermal process loops commute with the relabelling: every reported row of the
   relabelled run is the exchanged row (same time, mass, temperature, heats; composition 1-p; fluxes, permeances,
   permeate composition exchanged), for any mirror-image flux calculation *)
Theorem C06_ideal_processes kind (m : Mixture ROps) (cd : Conditions ROps) (dt prec : R) ct slv slv' perm f1 f2 (FR1 FR2 : R) n k st rows :
  kind = IdealIso \/ kind = IdealNonIso ->
  (forall a, slv' (swap_sargs a) = swap_res (slv a)) -> (forall a J, slv a = Ok J -> fst J + snd J <> 0) ->
  (forall T, (exists h, latent_per_kg ROps (c1 m) T = Ok h) /\ (exists h, latent_per_kg ROps (c2 m) T = Ok h)) ->
  run_from ROps kind m cd dt prec ct slv perm f1 f2 FR1 FR2 n k st = Ok rows ->
  run_from ROps kind (swap_mixture m) cd dt prec ct slv' perm f1 f2 FR1 FR2 n k (swap_st st) = Ok (map swap_row rows).
Proof. intros Hk H1 H2 H3. exact (run_swap kind Hk m cd dt prec ct slv slv' perm f1 f2 FR1 FR2 H1 H2 H3 n k st rows). Qed.

Print Assumptions C06_ideal_processes.
Print Assumptions C06_partial_pressures.
Print Assumptions C06_solver_loop.
