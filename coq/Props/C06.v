(* C06 — results do not depend on which component is called first.
   [swap_mixture] exchanges the components together with their interaction parameters, [swap_comp] maps p to 1 - p.
   The UNIQUAC second coefficient as written in mixture.py is NOT the mirror image of the first (known finding F1):
   the symmetry is proved for NRTL and for the corrected UNIQUAC variant ([sym_model]). *)
From Coq Require Import Reals Lra List.
From PV Require Import Num PyBase Model.Component Model.Mixture Model.Permeance Model.Solver Model.Process Model.Curve
  Lemmas.Composition Lemmas.Activity Lemmas.Solver Lemmas.Process Lemmas.Swap.
From PV Require Import Model.Curve Lemmas.SwapSolve Lemmas.SwapCurve.
Import ListNotations.
Local Open Scope R_scope.

Theorem C06_nrtl (p : NRTLParams ROps) T x :
  nrtl_gamma ROps (swap_nrtl p) T (RC (1 - x) Molar) = swap_pair (nrtl_gamma ROps p T (RC x Molar)).
Proof. exact (nrtl_swap p T x). Qed.

Theorem C06_uniquac_corrected (u : UQParams ROps) (k1 k2 : UQConst ROps) T x :
  uniquac_gamma_gen ROps true (swap_uq u) k2 k1 T (1 - x) (1 - (1 - x)) = swap_pair (uniquac_gamma_gen ROps true u k1 k2 T x (1 - x)).
Proof. exact (uniquac_spec_swap u k1 k2 T x). Qed.

Theorem C06_activity spec T (m : Mixture ROps) x ct : sym_model spec ct -> x <> 0 -> 1 - x <> 0 ->
  activity_gen ROps spec T (swap_mixture m) (RC (1 - x) Molar) ct = swap_res (activity_gen ROps spec T m (RC x Molar) ct).
Proof. exact (activity_swap spec T m x ct). Qed.

Theorem C06_partial_pressures spec T (m : Mixture ROps) (c : Composition ROps) ct : sym_model spec ct -> vp_defined m T ->
  0 < mw (c1 m) -> 0 < mw (c2 m) -> 0 < cp c < 1 ->
  partial_pressures_gen ROps spec T (swap_mixture m) (swap_comp c) ct = swap_res (partial_pressures_gen ROps spec T m c ct).
Proof. exact (pp_swap spec T m c ct). Qed.

Theorem C06_composition_conversion (m : Mixture ROps) (c : Composition ROps) : 0 < mw (c1 m) -> 0 < mw (c2 m) -> 0 <= cp c <= 1 ->
  to_molar ROps (swap_comp c) (swap_mixture m) = match to_molar ROps c m with Ok r => Ok (swap_comp r) | Err e => Err e end.
Proof. exact (to_molar_swap m c). Qed.

(* the composition of an exchanged flux pair is the exchanged composition; the solver's distance is symmetric *)
Theorem C06_flux_composition (J : R * R) : fst J + snd J <> 0 ->
  comp_of_fluxes ROps (swap_pair J) = match comp_of_fluxes ROps J with Ok y => Ok (swap_comp y) | Err e => Err e end.
Proof. exact (comp_of_fluxes_swap J). Qed.

(* the fixed-point loop commutes with the relabelling whenever the two driving-force maps are mirror images *)
Theorem C06_solver_loop (F F' : Composition ROps -> res (R * R)) prec fuel d y :
  (forall y, F' (swap_comp y) = swap_res (F y)) -> (forall y J, F y = Ok J -> fst J + snd J <> 0) ->
  solve_loop ROps fuel F' prec d (swap_comp y)
  = match solve_loop ROps fuel F prec d y with Ok r => Ok (swap_comp r) | Err e => Err e end.
Proof. exact (solve_loop_swap F F' prec fuel d y). Qed.

(* separation factors invert *)
Theorem C06_separation_factor (x y : Composition ROps) : cp x <> 0 -> 1 - cp x <> 0 -> cp y <> 0 -> 1 - cp y <> 0 ->
  process_separation_factor ROps (swap_comp y) (swap_comp x) = 1 / process_separation_factor ROps y x.
Proof. exact (separation_factor_swap x y). Qed.

(* the ideal isothermal and non-isothermal process loops commute with the relabelling: every reported row of the
   relabelled run is the exchanged row (same time, mass, temperature, heats; composition 1-p; fluxes, permeances,
   permeate composition exchanged), for any mirror-image flux calculation *)
Theorem C06_ideal_processes kind (m : Mixture ROps) (cd : Conditions ROps) (dt prec : R) ct slv slv' perm f1 f2 (FR1 FR2 : R) n k st rows :
  kind = IdealIso \/ kind = IdealNonIso ->
  (forall a, slv' (swap_sargs a) = swap_res (slv a)) -> (forall a J, slv a = Ok J -> fst J + snd J <> 0) ->
  (forall T, (exists h, latent_per_kg ROps (c1 m) T = Ok h) /\ (exists h, latent_per_kg ROps (c2 m) T = Ok h)) ->
  run_from ROps kind m cd dt prec ct slv perm f1 f2 FR1 FR2 n k st = Ok rows ->
  run_from ROps kind (swap_mixture m) cd dt prec ct slv' perm f1 f2 FR1 FR2 n k (swap_st st) = Ok (map swap_row rows).
Proof. intros Hk H1 H2 H3. exact (run_swap kind Hk m cd dt prec ct slv slv' perm f1 f2 FR1 FR2 H1 H2 H3 n k st rows). Qed.

(* ---- the driving-force law, the whole flux solver, curves and their metrics ---- *)
(* the driving-force law of the relabelled system (permeances exchanged, both compositions p -> 1-p) returns the exchanged
   flux pair, in every permeate mode, for NRTL and for corrected UNIQUAC *)
Theorem C06_driving_force spec (m : Mixture ROps) (a : FluxArgs ROps) :
  sym_model spec (fa_ct a) -> vp_defined m (fa_T a) -> (forall tp, fa_Tp a = Some tp -> vp_defined m tp) ->
  0 < mw (c1 m) -> 0 < mw (c2 m) -> interior (fa_x a) -> interior (fa_y a) ->
  fluxes_from_permeate_gen ROps spec false (swap_mixture m) (swap_fargs a)
  = swap_res (fluxes_from_permeate_gen ROps spec false m a).
Proof. exact (fluxes_swap spec m a). Qed.

(* the complete flux calculation (initial guess, fixed-point iteration up to the cap, final evaluation): exchanged
   fluxes, or the same error, whenever permeation stays in the forward direction for both components along the iteration *)
Theorem C06_flux_solver spec (m : Mixture ROps) perm perm' (a : SolveArgs ROps) P1 P2 :
  sa_P1 a = Some P1 -> sa_P2 a = Some P2 ->
  sym_model spec (sa_ct a) -> vp_defined m (sa_T a) -> (forall tp, sa_Tp a = Some tp -> vp_defined m tp) ->
  0 < mw (c1 m) -> 0 < mw (c2 m) -> interior (sa_x a) -> 0 < pval P1 -> 0 < pval P2 ->
  (forall pf, partial_pressures_gen ROps spec (sa_T a) m (sa_x a) (sa_ct a) = Ok pf -> 0 < fst pf /\ 0 < snd pf) ->
  (forall y J, interior y -> fluxes_from_permeate_gen ROps spec false m (mk_flux_args ROps a (P1, P2) y) = Ok J -> 0 < fst J /\ 0 < snd J) ->
  solve_gen ROps spec false (swap_mixture m) perm' (swap_sargs a) = swap_res (solve_gen ROps spec false m perm a).
Proof. exact (solve_swap spec m perm perm' a P1 P2). Qed.

(* in vacuum mode forward permeation follows from positive feed partial pressures: no hypothesis on the iteration is left *)
Theorem C06_flux_solver_vacuum spec (m : Mixture ROps) perm perm' (a : SolveArgs ROps) P1 P2 :
  sa_P1 a = Some P1 -> sa_P2 a = Some P2 -> sa_Tp a = None -> sa_pp a = None ->
  sym_model spec (sa_ct a) -> vp_defined m (sa_T a) ->
  0 < mw (c1 m) -> 0 < mw (c2 m) -> interior (sa_x a) -> 0 < pval P1 -> 0 < pval P2 ->
  (forall pf, partial_pressures_gen ROps spec (sa_T a) m (sa_x a) (sa_ct a) = Ok pf -> 0 < fst pf /\ 0 < snd pf) ->
  solve_gen ROps spec false (swap_mixture m) perm' (swap_sargs a) = swap_res (solve_gen ROps spec false m perm a).
Proof. exact (solve_swap_vacuum spec m perm perm' a P1 P2). Qed.

(* a DiffusionCurve built from (positive) fluxes, and the ideal diffusion curve of a membrane: exchanged fluxes and
   permeances at the mirrored compositions, in every permeate mode *)
Theorem C06_curve_from_fluxes (PP PP' : PPfun ROps) (m : Mixture ROps) T xs Js Tp pp :
  (forall T x ct, interior x -> PP' T (swap_comp x) ct = swap_res (PP T x ct)) -> 0 < mw (c1 m) -> 0 < mw (c2 m) ->
  Forall interior xs -> Forall pos Js ->
  mk_curve ROps PP' (swap_mixture m) (Build_CurveIn ROps T (map swap_comp xs) (Some (map swap_pair Js)) Tp pp None)
  = lift swap_curve (mk_curve ROps PP m (Build_CurveIn ROps T xs (Some Js) Tp pp None)).
Proof. intros H H1 H2. exact (mk_curve_fluxes_swap PP PP' m H H1 H2 T xs Js Tp pp). Qed.

Theorem C06_ideal_diffusion_curve (PP PP' : PPfun ROps) (m : Mixture ROps) (slv slv' : SolveArgs ROps -> res (R * R)) T xs Tp pp prec ct :
  (forall T x ct, interior x -> PP' T (swap_comp x) ct = swap_res (PP T x ct)) -> 0 < mw (c1 m) -> 0 < mw (c2 m) ->
  (forall a, slv' (swap_sargs a) = swap_res (slv a)) -> (forall a J, slv a = Ok J -> pos J) -> Forall interior xs ->
  ideal_diffusion_curve ROps PP' (swap_mixture m) slv' T (map swap_comp xs) Tp pp prec ct
  = lift swap_curve (ideal_diffusion_curve ROps PP m slv T xs Tp pp prec ct).
Proof. intros H H1 H2. exact (ideal_curve_swap PP PP' m H H1 H2 slv slv' T xs Tp pp prec ct). Qed.

(* the real partial-pressure function satisfies the mirror hypothesis of the two theorems above *)
Theorem C06_real_partial_pressures (m : Mixture ROps) T x ct : sym_model false ct -> vp_defined m T ->
  0 < mw (c1 m) -> 0 < mw (c2 m) -> interior x ->
  real_PP ROps (swap_mixture m) T (swap_comp x) ct = swap_res (real_PP ROps m T x ct).
Proof. intros Hs Hv H1 H2 Hx. exact (pp_swap false T m x ct Hs Hv H1 H2 Hx). Qed.

(* separation metrics invert: selectivity and separation factor of a curve, mass-based selectivity of a process row;
   the separation index keeps its total flux *)
Theorem C06_curve_selectivity (m : Mixture ROps) (c : Curve ROps) : 0 < mw (c1 m) -> 0 < mw (c2 m) -> Forall wf_pos (cv_P c) ->
  curve_selectivity ROps (swap_mixture m) (swap_curve c) = lift (map (fun s => 1 / s)) (curve_selectivity ROps m c).
Proof. exact (curve_selectivity_swap m c). Qed.

Theorem C06_curve_separation_factor (m : Mixture ROps) (c : Curve ROps) : 0 < mw (c1 m) -> 0 < mw (c2 m) ->
  Forall interior (cv_xs c) -> Forall pos (cv_J c) ->
  curve_separation_factor ROps (swap_mixture m) (swap_curve c) = lift (map (fun s => 1 / s)) (curve_separation_factor ROps m c).
Proof. exact (curve_separation_factor_swap m c). Qed.

Theorem C06_process_selectivity (P : Permeance ROps * Permeance ROps) : pval (fst P) <> 0 -> pval (snd P) <> 0 ->
  process_selectivity ROps (swap_pair P) = 1 / process_selectivity ROps P.
Proof. exact (process_selectivity_swap P). Qed.

Theorem C06_psi_total_flux (J : R * R) sf : process_psi ROps (swap_pair J) sf = process_psi ROps J sf.
Proof. exact (process_psi_swap J sf). Qed.

Print Assumptions C06_ideal_processes.
Print Assumptions C06_partial_pressures.
Print Assumptions C06_solver_loop.

Print Assumptions C06_flux_solver.
Print Assumptions C06_ideal_diffusion_curve.
Print Assumptions C06_curve_separation_factor.
