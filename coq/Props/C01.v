(* C01 — process models conserve total and per-component mass on a regular time grid.
   [run_from kind ...] is the loop shared by all four process models (kind selects how permeances
   and the next temperature are obtained); the entry theorems give its initial state. *)
From Coq Require Import Reals Lra List.
From PV Require Import Num PyBase Model.Component Model.Mixture Model.Permeance Model.Solver Model.Process
  Lemmas.Composition Lemmas.Process.
Import ListNotations.
Local Open Scope R_scope.

Section C01.
  Variable kind : PKind.
  Variable m : Mixture ROps.
  Variable cd : Conditions ROps.
  Variables (dt prec : R) (ct : ActModel).
  Variable slv : SolveArgs ROps -> res (R * R).        (* any flux calculation *)
  Variable perm : R -> Component ROps -> res (Permeance ROps).
  Variables (f1 f2 : PervFn ROps) (FR1 FR2 : R).
  Variables (n k : nat) (st : PState ROps) (rows : list (PRow ROps)).
  Hypothesis Hrun : run_from ROps kind m cd dt prec ct slv perm f1 f2 FR1 FR2 n k st = Ok rows.

  Theorem C01_length : length rows = n.
  Proof. exact (rows_length kind m cd dt prec ct slv perm f1 f2 FR1 FR2 n k st rows Hrun). Qed.

  Theorem C01_initial row : nth_error rows 0 = Some row ->
    r_m row = st_m st /\ r_x row = st_x st /\ r_T row = st_T st.
  Proof. exact (first_row kind m cd dt prec ct slv perm f1 f2 FR1 FR2 n k st rows Hrun row). Qed.

  Theorem C01_time_grid i row : nth_error rows i = Some row -> r_time row = dt * INR (k + i).
  Proof. exact (time_grid kind m cd dt prec ct slv perm f1 f2 FR1 FR2 n k st rows Hrun i row). Qed.

  (* m[i+1] = m[i] - (J1+J2) A dt ;  p[i+1] m[i+1] = p[i] m[i] - J1 A dt ; compositions are mass fractions *)
  Theorem C01_balance i row row' : nth_error rows i = Some row -> nth_error rows (S i) = Some row' ->
    r_m row' = r_m row - (fst (r_J row) + snd (r_J row)) * cd_A cd * dt
    /\ cp (r_x row') * r_m row' = cp (r_x row) * r_m row - fst (r_J row) * cd_A cd * dt
    /\ ctype (r_x row') = Weight.
  Proof. exact (mass_balance kind m cd dt prec ct slv perm f1 f2 FR1 FR2 n k st rows Hrun i row row'). Qed.
End C01.

(* the four entry points start the loop at step 0 from (m0, to_weight x0, T0) *)
Theorem C01_entry_ideal_isothermal (m : Mixture ROps) cd n dt prec ct slv perm rows :
  ideal_isothermal ROps m cd n dt prec ct slv perm = Ok rows ->
  exists p1 p2 x0, perm (cd_T0 cd) (c1 m) = Ok p1 /\ perm (cd_T0 cd) (c2 m) = Ok p2 /\
    to_weight ROps (cd_x0 cd) m = Ok x0 /\
    run_from ROps IdealIso m cd dt prec ct slv perm (dummy_fn ROps) (dummy_fn ROps) 0 0 n 0
      (Build_PState ROps (cd_m0 cd) x0 (cd_T0 cd) (p1, p2)) = Ok rows.
Proof. exact (entry_ideal_iso m cd n dt prec ct slv perm rows). Qed.

Theorem C01_entry_ideal_non_isothermal (m : Mixture ROps) cd n dt prec ct slv perm rows :
  ideal_non_isothermal ROps m cd n dt prec ct slv perm = Ok rows ->
  exists x0 P, to_weight ROps (cd_x0 cd) m = Ok x0 /\
    run_from ROps IdealNonIso m cd dt prec ct slv perm (dummy_fn ROps) (dummy_fn ROps) 0 0 n 0
      (Build_PState ROps (cd_m0 cd) x0 (cd_T0 cd) P) = Ok rows.
Proof. exact (entry_ideal_noniso m cd n dt prec ct slv perm rows). Qed.

Theorem C01_entry_non_ideal iso (m : Mixture ROps) cd n dt prec ct slv f1 f2 ip rows :
  non_ideal_process ROps iso m cd n dt prec ct slv f1 f2 ip = Ok rows ->
  exists x0 P0 FR1 FR2, to_weight ROps (cd_x0 cd) m = Ok x0 /\
    nonideal_initial ROps m f1 f2 x0 (cd_T0 cd) ip = Ok (P0, (FR1, FR2)) /\
    run_from ROps (if iso then NonIdealIso else NonIdealNonIso) m cd dt prec ct slv (fun _ _ => Err ValueError)
      f1 f2 FR1 FR2 n 0 (Build_PState ROps (cd_m0 cd) x0 (cd_T0 cd) P0) = Ok rows.
Proof. exact (entry_nonideal iso m cd n dt prec ct slv f1 f2 ip rows). Qed.

Print Assumptions C01_balance.
Print Assumptions C01_time_grid.
Print Assumptions C01_entry_non_ideal.
