(* C10 — the flux calculation always terminates. *)
From Coq Require Import Reals Lra Arith.
From PV Require Import Num PyBase Model.Component Model.Mixture Model.Permeance Model.Solver
  Lemmas.Composition Lemmas.Solver.
Local Open Scope R_scope.

(* the loop makes at most [fuel] driving-force evaluations, whatever the map and the inputs *)
Theorem C10_loop_bounded (F : Composition ROps -> res (R * R)) prec fuel d y :
  (loop_evals F prec fuel d y <= fuel)%nat.
Proof. exact (loop_evals_bound F prec fuel d y). Qed.

(* the cap used by calculate_partial_fluxes (tied to the code by the generated lemma br_solver_cap):
   at most 10000 evaluations in the loop + 1 final evaluation *)
Theorem C10_cap : solver_cap = 10000%nat.
Proof. exact solver_cap_value. Qed.

(* the calculation is a total function of its inputs: it returns fluxes or raises *)
Theorem C10_returns_or_raises spec fix4 (m : Mixture ROps) perm (a : SolveArgs ROps) :
  (exists J, solve_gen ROps spec fix4 m perm a = Ok J) \/ (exists e, solve_gen ROps spec fix4 m perm a = Err e).
Proof. destruct (solve_gen ROps spec fix4 m perm a) as [J|e]; [left | right]; eexists; reflexivity. Qed.

(* a returned value always satisfies the exit test: the loop never returns because fuel ran out *)
Theorem C10_no_silent_exhaustion (F : Composition ROps -> res (R * R)) prec fuel d y y' :
  solve_loop ROps fuel F prec d y = Ok y' ->
  (d < prec /\ y' = y) \/
  (exists yp J, F yp = Ok J /\ comp_of_fluxes ROps J = Ok y' /\ step_dist ROps y' yp < prec).
Proof. exact (solve_loop_exit F prec fuel d y y'). Qed.

Print Assumptions C10_loop_bounded.
Print Assumptions C10_no_silent_exhaustion.
