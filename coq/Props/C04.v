(* C04 — activity-coefficient models are thermodynamically consistent.
   The UNIQUAC second coefficient as written in mixture.py (model variant [false]) violates
   Gibbs-Duhem (known finding F1); the theorems below state exactly what holds for which variant. *)
From Coq Require Import Reals Lra.
From Coquelicot Require Import Coquelicot.
From PV Require Import Num PyBase Model.Component Model.Mixture Lemmas.Composition Lemmas.Thermo Lemmas.Activity.
Local Open Scope R_scope.

(* ---------- NRTL: every parameter set (one or two alphas, with/without a12,a21), every T ---------- *)
Theorem C04_nrtl_gibbs_duhem (p : NRTLParams ROps) (T x : R) : 0 < x < 1 ->
  x * Derive (fun y => ln (fst (nrtl_gamma ROps p T (RC y Molar)))) x
  + (1 - x) * Derive (fun y => ln (snd (nrtl_gamma ROps p T (RC y Molar)))) x = 0.
Proof. exact (nrtl_gibbs_duhem p T x). Qed.

Theorem C04_nrtl_pure (p : NRTLParams ROps) (T : R) :
  fst (nrtl_gamma ROps p T (RC 1 Molar)) = 1 /\ snd (nrtl_gamma ROps p T (RC 0 Molar)) = 1
  /\ continuous (fun y => fst (nrtl_gamma ROps p T (RC y Molar))) 1
  /\ continuous (fun y => snd (nrtl_gamma ROps p T (RC y Molar))) 0.
Proof. exact (nrtl_pure_limits p T). Qed.

Theorem C04_nrtl_raoult (p : NRTLParams ROps) (T x : R) :
  g12 p = 0 -> g21 p = 0 -> a12 p = 0 -> a21 p = 0 -> nrtl_gamma ROps p T (RC x Molar) = (1, 1).
Proof. exact (nrtl_raoult p T x). Qed.

(* ---------- UNIQUAC ---------- *)
Section UNIQUAC.
  Variables (u : UQParams ROps) (k1 k2 : UQConst ROps) (T : R).
  Hypothesis Hr1 : 0 < uq_r k1. Hypothesis Hr2 : 0 < uq_r k2.
  Hypothesis Hq1 : 0 < uq_q k1. Hypothesis Hq2 : 0 < uq_q k2.
  Hypothesis Hqi1 : 0 < uq_qi k1. Hypothesis Hqi2 : 0 < uq_qi k2.

  (* pure-component limits hold for the formula as written AND for the corrected one *)
  Theorem C04_uniquac_pure spec :
    fst (uniquac_gamma_gen ROps spec u k1 k2 T 1 (1 - 1)) = 1
    /\ snd (uniquac_gamma_gen ROps spec u k1 k2 T 0 (1 - 0)) = 1
    /\ continuous (fun y => fst (uniquac_gamma_gen ROps spec u k1 k2 T y (1 - y))) 1
    /\ continuous (fun y => snd (uniquac_gamma_gen ROps spec u k1 k2 T y (1 - y))) 0.
  Proof. exact (uniquac_pure_limits u k1 k2 T Hr1 Hr2 Hq1 Hq2 Hqi1 Hqi2 spec). Qed.

  (* Gibbs-Duhem holds for the corrected (mirror-image) second coefficient *)
  Theorem C04_uniquac_gibbs_duhem_spec x : 0 < x < 1 ->
    x * Derive (fun y => ln (fst (uniquac_gamma_gen ROps true u k1 k2 T y (1 - y)))) x
    + (1 - x) * Derive (fun y => ln (snd (uniquac_gamma_gen ROps true u k1 k2 T y (1 - y)))) x = 0.
  Proof. exact (uniquac_spec_gibbs_duhem u k1 k2 T Hr1 Hr2 Hq1 Hq2 Hqi1 Hqi2 x). Qed.

  (* exact characterisation of finding F1: as written = corrected * exp(Delta), first coefficient equal *)
  Theorem C04_uniquac_delta x :
    snd (uniquac_gamma_gen ROps false u k1 k2 T x (1 - x)) =
    snd (uniquac_gamma_gen ROps true u k1 k2 T x (1 - x))
    * exp (udelta (uq_qi k1) (uq_qi k2) (uq_t12 u T) (uq_t21 u T) x)
    /\ fst (uniquac_gamma_gen ROps false u k1 k2 T x (1 - x)) = fst (uniquac_gamma_gen ROps true u k1 k2 T x (1 - x)).
  Proof. exact (uniquac_asis_vs_spec u k1 k2 T x). Qed.
End UNIQUAC.

(* the full statement is FALSE for the formula as written: see Props/C04w.v (refutation witness, interval arithmetic) *)

(* what calculate_activity_coefficients returns is exactly these functions (chain to the bridged entry point) *)
Theorem C04_activity_is_nrtl spec (m : Mixture ROps) p T x :
  nrtl m = Some p -> activity_gen ROps spec T m (RC x Molar) NRTL = Ok (nrtl_gamma ROps p T (RC x Molar)).
Proof. intros H. unfold activity_gen. cbn [to_molar ctype bind]. rewrite H. reflexivity. Qed.

Theorem C04_activity_is_uniquac spec (m : Mixture ROps) u k1 k2 T x :
  uniquac m = Some u -> uqc (c1 m) = Some k1 -> uqc (c2 m) = Some k2 -> x <> 0 -> 1 - x <> 0 ->
  activity_gen ROps spec T m (RC x Molar) UNIQUAC = Ok (uniquac_gamma_gen ROps spec u k1 k2 T x (1 - x)).
Proof.
  intros Hu H1 H2 Hx0 Hx1. unfold activity_gen, first, second. cbn [to_molar ctype bind cp].
  rnum. rewrite (proj2 (Reqb_false x 0) Hx0), (proj2 (Reqb_false (1 - x) 0) Hx1).
  rewrite Hu, H1, H2. reflexivity.
Qed.

(* ---------- partial pressures ---------- *)
Section PP.
  Variable m : Mixture ROps.
  Hypothesis HM1 : 0 < mw (c1 m).
  Hypothesis HM2 : 0 < mw (c2 m).

  (* p_i = Psat_i(T) * gamma_i * x_i on the mole fraction *)
  Theorem C04_partial_pressures spec T x ct g P1 P2 :
    activity_gen ROps spec T m (RC x Molar) ct = Ok g ->
    vapor_pressure ROps (c1 m) T = Ok P1 -> vapor_pressure ROps (c2 m) T = Ok P2 ->
    partial_pressures_gen ROps spec T m (RC x Molar) ct = Ok (P1 * fst g * x, P2 * snd g * (1 - x)).
  Proof. exact (pp_formula m spec T x ct g P1 P2). Qed.

  (* independent of the basis in which the composition was supplied *)
  Theorem C04_basis_independent spec T w ct : 0 <= w <= 1 ->
    partial_pressures_gen ROps spec T m (RC w Weight) ct
      = partial_pressures_gen ROps spec T m (RC (fmolar (mw (c1 m)) (mw (c2 m)) w) Molar) ct
    /\ activity_gen ROps spec T m (RC w Weight) ct
      = activity_gen ROps spec T m (RC (fmolar (mw (c1 m)) (mw (c2 m)) w) Molar) ct.
  Proof. intro H; split; [exact (pp_basis m HM1 HM2 spec T w ct H) | exact (activity_basis m HM1 HM2 spec T w ct H)]. Qed.
End PP.

Print Assumptions C04_nrtl_gibbs_duhem.
Print Assumptions C04_uniquac_gibbs_duhem_spec.
Print Assumptions C04_basis_independent.
