(* C02 — returned fluxes obey the solution-diffusion law at a self-consistent permeate. *)
From Coq Require Import Reals Lra.
From PV Require Import Num PyBase Model.Component Model.Mixture Model.Permeance Model.Solver
  Lemmas.Composition Lemmas.Solver.
Local Open Scope R_scope.

(* the driving-force law: J_i = P_i * (p_feed_i - p_perm_i), both activity models, all modes *)
Theorem C02_flux_law spec fix4 (m : Mixture ROps) (a : FluxArgs ROps) J :
  fluxes_from_permeate_gen ROps spec fix4 m a = Ok J ->
  exists pf pp,
    partial_pressures_gen ROps spec (fa_T a) m (fa_x a) (fa_ct a) = Ok pf /\
    permeate_pressures_gen ROps spec fix4 m a = Ok pp /\
    J = (pval (fa_P1 a) * (fst pf - fst pp), pval (fa_P2 a) * (snd pf - snd pp)).
Proof. exact (flux_law spec fix4 m a J). Qed.

(* what calculate_partial_fluxes returns: the law evaluated at a permeate composition y that is
   either the start value (first test already below the precision) or an iterate y = comp(F yp)
   with max |y - yp| < precision *)
Theorem C02_solver_law cap PP F (m : Mixture ROps) perm (a : SolveArgs ROps) J :
  solve_with ROps cap PP F m perm a = Ok J ->
  exists P pf y0 y,
    resolve_permeances ROps m perm a = Ok P /\
    PP (sa_T a) (sa_x a) (sa_ct a) = Ok pf /\
    comp_of_fluxes ROps (pval (fst P) * fst pf, pval (snd P) * snd pf) = Ok y0 /\
    F (mk_flux_args ROps a P y) = Ok J /\
    ((1 < sa_prec a /\ y = y0) \/
     (exists yp Jp, F (mk_flux_args ROps a P yp) = Ok Jp /\ comp_of_fluxes ROps Jp = Ok y /\
                    step_dist ROps y yp < sa_prec a)).
Proof.
  intros H. destruct (solve_with_law _ _ _ _ _ _ _ H) as [P [pf [y0 [y [H1 [H2 [H3 [H4 H5]]]]]]]].
  exists P, pf, y0, y. repeat split; try assumption.
  exact (solve_loop_exit _ _ _ _ _ _ H4).
Qed.

(* self-consistency when the iteration map is non-expansive between the last two iterates *)
Theorem C02_self_consistent (G : R -> R) (L prec yp y' : R) :
  0 <= L <= 1 -> y' = G yp -> Rabs (y' - yp) < prec ->
  Rabs (G y' - G yp) <= L * Rabs (y' - yp) -> Rabs (G y' - y') < prec.
Proof. exact (self_consistent G L prec yp y'). Qed.
Theorem C02_step_dist_bounds_first (y' y : Composition ROps) : Rabs (cp y' - cp y) <= step_dist ROps y' y.
Proof. exact (step_dist_first y' y). Qed.

(* no permeate condition, or permeate pressure 0: J = P * p_feed exactly *)
Theorem C02_vacuum spec fix4 (m : Mixture ROps) (a : FluxArgs ROps) J pf :
  fa_Tp a = None -> fa_pp a = None ->
  partial_pressures_gen ROps spec (fa_T a) m (fa_x a) (fa_ct a) = Ok pf ->
  fluxes_from_permeate_gen ROps spec fix4 m a = Ok J ->
  J = (pval (fa_P1 a) * fst pf, pval (fa_P2 a) * snd pf).
Proof. exact (flux_vacuum spec fix4 m a J pf). Qed.
Theorem C02_pressure_zero spec (m : Mixture ROps) (a : FluxArgs ROps) J pf :
  fa_Tp a = None -> fa_pp a = Some 0 ->
  partial_pressures_gen ROps spec (fa_T a) m (fa_x a) (fa_ct a) = Ok pf ->
  fluxes_from_permeate_gen ROps spec false m a = Ok J ->
  J = (pval (fa_P1 a) * fst pf, pval (fa_P2 a) * snd pf).
Proof. exact (flux_pressure_zero spec m a J pf). Qed.

(* fixed permeate pressure p: J1/P1 + J2/P2 = p_feed1 + p_feed2 - p *)
Theorem C02_pressure_identity spec fix4 (m : Mixture ROps) (a : FluxArgs ROps) J pf p :
  fa_Tp a = None -> fa_pp a = Some p -> pval (fa_P1 a) <> 0 -> pval (fa_P2 a) <> 0 ->
  partial_pressures_gen ROps spec (fa_T a) m (fa_x a) (fa_ct a) = Ok pf ->
  fluxes_from_permeate_gen ROps spec fix4 m a = Ok J ->
  fst J / pval (fa_P1 a) + snd J / pval (fa_P2 a) = fst pf + snd pf - p.
Proof. exact (flux_pressure_identity spec fix4 m a J pf p). Qed.

(* k * both permeances => k * both fluxes, same iterates / permeate composition *)
Theorem C02_scaling spec fix4 (m : Mixture ROps) perm (a : SolveArgs ROps) p1 p2 k : k <> 0 ->
  solve_gen ROps spec fix4 m perm (with_perms a (scale_perm k p1) (scale_perm k p2))
  = scale_res k (solve_gen ROps spec fix4 m perm (with_perms a p1 p2)).
Proof. exact (solve_scaling spec fix4 m perm a p1 p2 k). Qed.
Theorem C02_scaling_composition k (J : R * R) : k <> 0 ->
  comp_of_fluxes ROps (k * fst J, k * snd J) = comp_of_fluxes ROps J.
Proof. exact (comp_of_fluxes_scale_any k J). Qed.

Print Assumptions C02_solver_law.
Print Assumptions C02_scaling.
Print Assumptions C02_pressure_identity.
