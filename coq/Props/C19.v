(* C19 — contradictory or incomplete specifications are rejected at every entry point. *)
From Coq Require Import Reals Lra List.
From PV Require Import Num PyBase Model.Component Model.Mixture Model.Permeance Model.Solver Model.Curve
  Model.Membrane Model.Process Model.NonIdealCurve Lemmas.Composition Lemmas.Membrane Lemmas.Curve Lemmas.NonIdealCurve.
Import ListNotations.
Local Open Scope R_scope.

(* both a permeate temperature and a permeate pressure: every entry point that computes a driving force raises *)
Theorem C19_driving_force spec fix4 (m : Mixture ROps) (a : FluxArgs ROps) tp p :
  fa_Tp a = Some tp -> fa_pp a = Some p -> exists e, fluxes_from_permeate_gen ROps spec fix4 m a = Err e.
Proof. exact (flux_rejects_both spec fix4 m a tp p). Qed.

Theorem C19_flux_solver spec fix4 (m : Mixture ROps) perm (a : SolveArgs ROps) tp p :
  sa_Tp a = Some tp -> sa_pp a = Some p -> exists e, solve_gen ROps spec fix4 m perm a = Err e.
Proof. exact (solve_rejects_both spec fix4 m perm a tp p). Qed.

Theorem C19_permeate_composition (slv : SolveArgs ROps -> res (R * R)) a :
  (exists e, slv a = Err e) -> exists e, permeate_composition ROps slv a = Err e.
Proof. exact (permeate_composition_rejects slv a). Qed.
Theorem C19_separation_factor (m : Mixture ROps) (slv : SolveArgs ROps -> res (R * R)) a :
  (exists e, slv a = Err e) -> exists e, separation_factor ROps m slv a = Err e.
Proof. exact (separation_factor_rejects m slv a). Qed.

Theorem C19_ideal_curve PP (m : Mixture ROps) (slv : SolveArgs ROps -> res (R * R)) T x xs Tp pp prec ct :
  (forall a, sa_Tp a = Tp -> sa_pp a = pp -> exists e, slv a = Err e) ->
  exists e, ideal_diffusion_curve ROps PP m slv T (x :: xs) Tp pp prec ct = Err e.
Proof. exact (ideal_curve_rejects PP m slv T x xs Tp pp prec ct). Qed.

(* all four process models (and the non-ideal curve, same loop shape) with at least one step *)
Theorem C19_process kind (m : Mixture ROps) (cd : Conditions ROps) (dt prec : R) ct slv perm f1 f2 (FR1 FR2 : R) n k st :
  (forall a, sa_Tp a = cd_Tp cd -> sa_pp a = cd_pp cd -> exists e, slv a = Err e) ->
  exists e, run_from ROps kind m cd dt prec ct slv perm f1 f2 FR1 FR2 (S n) k st = Err e.
Proof. exact (process_rejects kind m cd dt prec ct slv perm f1 f2 FR1 FR2 n k st). Qed.

Theorem C19_non_ideal_curve PP (m : Mixture ROps) slv ea single raw1 raw2 T x0 delta n Tp pp ip prec ct :
  (forall a, sa_Tp a = Tp -> sa_pp a = pp -> exists e, slv a = Err e) ->
  exists e, non_ideal_curve ROps PP m slv ea single raw1 raw2 T x0 delta n Tp pp ip prec ct = Err e.
Proof. exact (non_ideal_curve_rejects PP m slv ea single raw1 raw2 T x0 delta n Tp pp ip prec ct). Qed.

Theorem C19_pure_component_flux exps T (c : Component ROps) tp p :
  pure_component_flux ROps exps T c (Some tp) (Some p) = Err ValueError.
Proof. reflexivity. Qed.

Theorem C19_curve_from_fluxes PP (m : Mixture ROps) c Js tp p :
  ci_J c = Some Js -> ci_P c = None -> ci_Tp c = Some tp -> ci_pp c = Some p -> Js <> [] ->
  exists e, mk_curve ROps PP m c = Err e.
Proof. exact (mk_curve_rejects_both PP m c Js tp p). Qed.

(* incomplete specifications *)
Theorem C19_mixture_without_parameters (a b : Component ROps) : mk_mixture ROps a b None None = Err ValueError.
Proof. exact (mixture_without_parameters a b). Qed.
Theorem C19_missing_nrtl spec T (m : Mixture ROps) x : nrtl m = None ->
  activity_gen ROps spec T m (RC x Molar) NRTL = Err ValueError.
Proof. exact (activity_missing_nrtl spec T m x). Qed.
Theorem C19_missing_uniquac spec T (m : Mixture ROps) x :
  uniquac m = None \/ uqc (c1 m) = None \/ uqc (c2 m) = None ->
  activity_gen ROps spec T m (RC x Molar) UNIQUAC = Err ValueError.
Proof. exact (activity_missing_uniquac spec T m x). Qed.
Theorem C19_curve_with_neither PP (m : Mixture ROps) c : ci_J c = None -> ci_P c = None -> mk_curve ROps PP m c = Err ValueError.
Proof. exact (mk_curve_rejects_neither PP m c). Qed.
Theorem C19_too_few_experiments exps (c : Component ROps) e :
  penetrant ROps exps c = Ok [e] -> ex_Ea e = None -> activation_energy ROps exps c = Err ValueError.
Proof. exact (activation_energy_too_few exps c e). Qed.

Print Assumptions C19_flux_solver.
Print Assumptions C19_process.
Print Assumptions C19_curve_from_fluxes.
