(* PyBase.v — Python-level semantics shared by all model files:
   exceptions as an error monad, Optional as option, list helpers, and the
   tactics used by the generated bridge lemmas. *)
From Coq Require Import List Bool Arith.
From PV Require Import Num.
Import ListNotations.

Inductive exn :=
  | ValueError | KeyError | TypeError | AttributeError | AssertionError
  | FileExistsError | ZeroDivisionError | IndexError | OutOfFuel.

Inductive res (A : Type) := Ok (a : A) | Err (e : exn).
Arguments Ok {A} a.
Arguments Err {A} e.

Definition bind {A B} (r : res A) (f : A -> res B) : res B :=
  match r with Ok a => f a | Err e => Err e end.
Notation "x <- e ;; f" := (bind e (fun x => f))
  (at level 61, e at next level, right associativity).
Notation "' pat <- e ;; f" := (bind e (fun x => match x with pat => f end))
  (at level 61, pat pattern, e at next level, right associativity).

Definition is_ok {A} (r : res A) : bool := match r with Ok _ => true | Err _ => false end.

Lemma bind_ok {A B} (a : A) (f : A -> res B) : bind (Ok a) f = f a.
Proof. reflexivity. Qed.

Fixpoint mapM {A B} (f : A -> res B) (l : list A) : res (list B) :=
  match l with
  | [] => Ok []
  | x :: t => y <- f x ;; ys <- mapM f t ;; Ok (y :: ys)
  end.

(* ---- bridge tactics ----
   A generated bridge lemma has the shape
     forall leaves, pc_1 = b_1 -> ... -> pc_k = b_k -> Model.f args = Ok trace.
   [bridge] evaluates the model one data-dependent test at a time, consuming the
   path conditions; at the end EVERY path condition must have been used, i.e. the
   model makes exactly the data-dependent decisions the traced code made. *)
Inductive Used {A} (a : A) : Prop := used_intro.

Ltac mark_used c :=
  lazymatch goal with
  | _ : Used c |- _ => idtac
  | _ => let U := fresh "U" in assert (U : Used c) by constructor
  end.

Ltac step_if :=
  match goal with
  | H : ?c = true |- context [if ?c then _ else _] =>
      rewrite (if_true c) by exact H; mark_used c
  | H : ?c = false |- context [if ?c then _ else _] =>
      rewrite (if_false c) by exact H; mark_used c
  | H : ?c = true |- context [?c && _] => rewrite H; mark_used c; cbn [andb]
  | H : ?c = false |- context [?c && _] => rewrite H; mark_used c; cbn [andb]
  | H : ?c = true |- context [negb ?c] => rewrite H; mark_used c; cbn [negb]
  | H : ?c = false |- context [negb ?c] => rewrite H; mark_used c; cbn [negb]
  end.

Ltac all_pcs_used :=
  repeat match goal with
  | H : @eq bool ?c _ |- _ =>
      lazymatch goal with
      | _ : Used c |- _ => clear H
      | _ => fail 2 "path condition recorded by the tracer is not tested by the model:" c
      end
  end.

(* a stubbed callee returning a pair: eta-expanded so that its result is convertible with the
   traced tuple (fst (f a), snd (f a)) *)
Definition okpair {A B C} (f : A -> B * C) : A -> res (B * C) := fun a => Ok (fst (f a), snd (f a)).
