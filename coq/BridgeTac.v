(* BridgeTac.v — the fixed proof script of every generated bridge lemma. *)
From Coq Require Import List Bool.
From PV Require Import Num PyBase.
From PV Require Model.Process.
Import Model.Process.

(* functions that must not be unfolded wholesale (recursion on fuel / step count);
   they are stepped explicitly by the family-specific tactics *)
Ltac bridge_norm := cbv beta iota zeta delta -[num add sub mul div neg nabs nexp nln rpow ipow lit leb ltb eqb] in *.

Ltac bridge_steps := repeat (step_if; cbv beta iota zeta delta -[num add sub mul div neg nabs nexp nln rpow ipow lit leb ltb eqb]).

Ltac bridge :=
  lazymatch goal with
  | _ : @eq bool _ _ |- _ =>
      bridge_norm; bridge_steps; all_pcs_used; reflexivity
  | _ => first [ vm_compute; reflexivity | bridge_norm; reflexivity ]
  end.

(* solver bridges: never unfold the fuelled loop wholesale; step it one iteration at a time *)
Ltac solver_norm :=
  cbv beta iota zeta delta -[num add sub mul div neg nabs nexp nln rpow ipow lit leb ltb eqb] in *.
Ltac bridge_solver :=
  solver_norm; repeat (step_if; solver_norm); all_pcs_used; reflexivity.

(* process bridges: the fitted-function evaluation pf_call is a cut point (bridged on its own) *)
Ltac process_norm :=
  cbv beta iota zeta delta -[num add sub mul div neg nabs nexp nln rpow ipow lit leb ltb eqb pf_call] in *.
Ltac bridge_process :=
  process_norm; repeat (step_if; process_norm); all_pcs_used; reflexivity.

(* fit bridges: candidate functions are abstract (fun n m => ...) with equations as hypotheses *)
Ltac bridge_fit :=
  repeat match goal with H : @eq (num _) _ _ |- _ => rewrite H in * ; clear H end;
  repeat match goal with H : @eq (list _) _ _ |- _ => rewrite H in * ; clear H end;
  process_norm;
  repeat match goal with H : @eq (num _) _ _ |- _ => rewrite H in * ; clear H end;
  repeat match goal with H : @eq (list _) _ _ |- _ => rewrite H in * ; clear H end;
  repeat (step_if; process_norm); all_pcs_used; reflexivity.
