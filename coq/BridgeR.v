(* BridgeR.v — second-tier proof script for a generated bridge lemma whose first-tier proof
   (conversion at the abstract NumOps, BridgeTac.v) no longer goes through.

   The lemma is re-stated at N := ROps and proved *modulo the commutative-field identities of R*:
   the model still has to take exactly the recorded data-dependent decisions (every `if` of the model
   is discharged by a recorded path condition whose operands are ring-equal to the model's operands,
   and every recorded path condition has to be consumed), but the final value may differ from the
   traced expression by re-association, commutation, distribution, x**2 vs x*x, 0.5*x vs x/2 ...
   A lemma proved only by this script is reported as "proved over the reals only": it does not speak
   about binary64 any more, so the check then leans on the float correspondence and a four-fold search. *)
From Coq Require Import Reals Lra List Bool ZArith.
From PV Require Import Num PyBase BridgeTac.
From PV Require Model.Process.
Import Model.Process.
Local Open Scope R_scope.

(* [Shared v (f args)]: the variable v stands for this call of a stub function (see r_share below) *)
Definition Shared {A} (v x : A) : Prop := v = x.

Lemma r_fst_pair {A B} (a : A) (b : B) : fst (a, b) = a.  Proof. reflexivity. Qed.
Lemma r_snd_pair {A B} (a : A) (b : B) : snd (a, b) = b.  Proof. reflexivity. Qed.
(* fst / snd stay folded on a stuck argument (fst (Jf args)) and are reduced on an explicit pair *)
Ltac r_pairs := cbn [fst snd] in *.

Ltac r_norm :=
  cbv beta iota zeta delta -[R Rplus Rminus Rmult Rdiv Rinv Ropp Rabs exp ln Rpower pow Rlit Rleb Rltb Reqb IZR
                             Rmax Rmin pf_call INR fst snd nmax Shared] in *;
  r_pairs.

(* literals: Rlit m e  ~>  IZR m, IZR m * 10^k, IZR m / 10^k *)
Ltac r_lits :=
  cbv beta iota delta [Rlit] in *;
  repeat match goal with
  | |- context [Pos.to_nat ?p] =>
      let n := eval vm_compute in (Pos.to_nat p) in change (Pos.to_nat p) with n
  end.

(* non-zero side conditions that `field` may leave: only literal ones are accepted *)
Ltac r_nz :=
  repeat match goal with
  | |- _ /\ _ => split
  | |- True => exact I
  | |- _ <> 0 => lra
  | |- _ <> 0 => assumption
  | |- _ ^ _ <> 0 => apply pow_nonzero; lra
  end.

Ltac r_ring := first [ reflexivity | ring | (unfold Rdiv; ring) | solve [ field; r_nz ] ].

(* equality of two real expressions modulo ring identities, also below the non-ring atoms
   (exp, ln, Rabs, /, Rpower, abstract stub functions): an atom of the left side is replaced by an
   atom of the right side with the same head once their arguments are proved equal (recursively) *)
Ltac not_ring_head f :=
  lazymatch f with
  | Rplus _ => fail | Rminus _ => fail | Rmult _ => fail | Rdiv _ => fail
  | Rplus => fail | Rminus => fail | Rmult => fail | Rdiv => fail | Ropp => fail
  | IZR => fail | pow _ => fail | Rlit _ => fail | Rlit => fail
  | _ => idtac
  end.

(* Equality modulo the field identities of R, for real expressions and for structured values with real leaves.
   Top-down: where both sides are applications their heads and arguments are compared one by one (cheap, and exact for the
   parts of a formula a rewrite did not touch); for a real-valued node where that fails, `ring` / `field` is the fall-back
   (so it runs on the smallest node where the descent fails); if the node's non-ring atoms (exp, ln, /, Rabs, Rpower, fst of
   a stub call ...) differ, an atom of the left side is replaced by an atom of the right side with the same head once their
   arguments are proved equal (recursively), and `ring` is tried again. *)
Lemma r_app_eq {A B} (f g : A -> B) (a b : A) : f = g -> a = b -> f a = g b.
Proof. intros -> ->; reflexivity. Qed.

Ltac r_eq fuel :=
  first
  [ reflexivity
  | match goal with
    | |- ?f ?a = ?g ?b => apply r_app_eq; r_eq fuel
    end
  | lazymatch goal with
    | |- @eq R _ _ => idtac
    | |- @eq ?T ?x ?y =>
        (* a record field declared with type [num N]: R only up to conversion *)
        let T' := eval cbv beta iota delta [num ROps] in T in
        lazymatch T' with R => change (@eq R x y) end
    end;
    first
    [ r_ring
    | lazymatch fuel with
      | O => fail
      | S ?fuel' =>
          unfold Rdiv;
          repeat (match goal with
          | |- ?L = ?Rh =>
              match L with
              | context [?f ?a] =>
                  not_ring_head f;
                  lazymatch type of (f a) with R => idtac | _ => fail end;
                  match Rh with
                  | context [f ?b] =>
                      tryif constr_eq a b then fail else
                      (replace (f a) with (f b) by (apply f_equal; r_eq fuel'))
                  end
              | context [?f ?a ?c] =>
                  not_ring_head f;
                  lazymatch type of a with R => idtac | _ => fail end;
                  match Rh with
                  | context [f ?b c] =>
                      tryif constr_eq a b then fail else
                      (replace (f a c) with (f b c) by (apply (f_equal (fun z => f z c)); r_eq fuel'))
                  end
              end
          end);
          r_ring
      end ] ].

Ltac r_close fuel := r_eq 3%nat.

(* Sharing: calls of the abstract stub functions (universally quantified variables: the solver, the membrane, the
   fitted functions ...) are generalised bottom-up.  An innermost call [f r] becomes a variable; every other innermost
   call [f r'] of the same stub whose argument is equal to r modulo the field identities is replaced by that variable
   (in the goal and in the recorded path conditions); then the definition is forgotten.  Terms that mention the
   results of earlier steps many times (process loops) shrink from exponential to linear size. *)
Ltac r_share_call f call args :=
  lazymatch args with context [f] => fail | _ => idtac end;
  lazymatch type of call with _ -> _ => fail | _ => idtac end;
  first
  [ match goal with
    | Hs : Shared ?v ?old |- _ =>
        lazymatch old with context [f] => idtac | _ => fail end;
        replace call with v in * by (unfold Shared in Hs; rewrite Hs; timeout 25 (r_eq 1%nat))
    end
  | let v := fresh "s" in
    let Hs := fresh "Hs" in
    set (v := call) in *;
    assert (Hs : Shared v call) by reflexivity;
    clearbody v ].

Ltac r_share_one :=
  match goal with
  | |- context [?f ?r] => is_var f; r_share_call f (f r) r
  | |- context [?f ?a ?b] => is_var f; r_share_call f (f a b) (a, b)
  | |- context [pf_call ?n ?fit ?x ?t] => r_share_call pf_call (pf_call n fit x t) (fit, x, t)
  end.

(* two shared variables whose calls have become equal (a clamp or validator inside the argument was decided meanwhile) *)
Ltac r_merge :=
  repeat match goal with
  | H1 : Shared ?v1 ?c1, H2 : Shared ?v2 ?c2 |- _ =>
      tryif constr_eq v1 v2 then fail else idtac;
      let E := fresh "E" in
      assert (E : v2 = v1) by (unfold Shared in H1, H2; rewrite H1, H2; timeout 25 (r_eq 1%nat));
      clear H2; subst v2
  end.

(* a comparison decided by a recorded path condition is decided inside the remembered calls as well *)
Ltac r_decide_shared :=
  repeat match goal with
  | H : ?c = _, Hs : Shared _ ?t |- _ =>
      lazymatch type of c with bool => idtac | _ => fail end;
      lazymatch t with context [c] => rewrite H in Hs; cbv beta iota in Hs end
  end.

Ltac r_share := r_decide_shared; r_merge; repeat r_share_one.


(* one data-dependent test of the model, discharged by a recorded path condition whose operands are
   ring-equal to the model's operands *)
Ltac r_not_used c :=
  lazymatch goal with _ : Used c |- _ => fail | _ => idtac end.

Ltac r_consume H c c' :=
  r_not_used c';
  let E := fresh "E" in
  assert (E : c = c') by (timeout 40 (r_eq 1%nat));
  repeat match goal with
         | Hs : Shared _ ?t |- _ => lazymatch t with context [c] => rewrite E in Hs; rewrite H in Hs end
         end;
  rewrite E; clear E; rewrite H; mark_used c'.

Ltac r_step_if :=
  first
  [ step_if
  | match reverse goal with
    | H : Rleb ?a' ?b' = _ |- context [if Rleb ?a ?b then _ else _] => r_consume H (Rleb a b) (Rleb a' b')
    | H : Rltb ?a' ?b' = _ |- context [if Rltb ?a ?b then _ else _] => r_consume H (Rltb a b) (Rltb a' b')
    | H : Reqb ?a' ?b' = _ |- context [if Reqb ?a ?b then _ else _] => r_consume H (Reqb a b) (Reqb a' b')
    end ].

Ltac r_rewrite_hyps :=
  repeat match goal with H : @eq (num _) _ _ |- _ => rewrite H in * ; clear H end;
  repeat match goal with H : @eq R _ _ |- _ => rewrite H in * ; clear H end;
  repeat match goal with H : @eq (list _) _ _ |- _ => rewrite H in * ; clear H end.

Ltac bridge_R :=
  r_rewrite_hyps; r_norm; r_rewrite_hyps; r_lits; r_share;
  repeat (r_step_if; r_norm; r_lits; r_share); all_pcs_used; r_close 12%nat.
