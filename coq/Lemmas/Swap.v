(* Component-order symmetry (property C06). *)
From Coq Require Import Reals Lra ZArith Bool Arith Psatz Lia List.
From PV Require Import Num PyBase Model.Component Model.Mixture Model.Permeance Model.Solver Model.Process Model.Curve
  Lemmas.RTac Lemmas.Composition Lemmas.Thermo Lemmas.Activity Lemmas.Solver Lemmas.Process.
Import ListNotations.
Local Open Scope R_scope.

Definition swap_pair {A} (p : A * A) : A * A := (snd p, fst p).
Definition swap_res {A} (r : res (A * A)) : res (A * A) := match r with Ok p => Ok (swap_pair p) | Err e => Err e end.

Definition swap_nrtl (p : NRTLParams ROps) : NRTLParams ROps :=
  Build_NRTLParams ROps (g21 p) (g12 p)
    (match alpha21 p with None => alpha12 p | Some a => a end)
    (match alpha21 p with None => None | Some _ => Some (alpha12 p) end)
    (a21 p) (a12 p).
Definition swap_uq (u : UQParams ROps) : UQParams ROps :=
  Build_UQParams ROps (ualpha21 u) (ualpha12 u) (ubeta21 u) (ubeta12 u) (uz u).
Definition swap_mixture (m : Mixture ROps) : Mixture ROps :=
  Build_Mixture ROps (c2 m) (c1 m)
    (match nrtl m with Some p => Some (swap_nrtl p) | None => None end)
    (match uniquac m with Some u => Some (swap_uq u) | None => None end).
Definition swap_comp (c : Composition ROps) : Composition ROps := RC (1 - cp c) (ctype c).

Lemma swap_comp_invol c : swap_comp (swap_comp c) = c.
Proof. destruct c as [p t]. unfold swap_comp. cbn [cp ctype]. f_equal. ring. Qed.

(* ---- NRTL ---- *)
Lemma nrtl_swap (p : NRTLParams ROps) T x :
  nrtl_gamma ROps (swap_nrtl p) T (RC (1 - x) Molar) = swap_pair (nrtl_gamma ROps p T (RC x Molar)).
Proof.
  unfold nrtl_gamma, nrtl_gexp, nrtl_tau, swap_nrtl, swap_pair, first, second.
  cbn [g12 g21 alpha12 alpha21 a12 a21 cp fst snd].
  destruct (alpha21 p) as [al21|]; cbn [fst snd]; rnum; replace (1 - (1 - x)) with x by ring; reflexivity.
Qed.

(* ---- UNIQUAC, mirror-image second coefficient ---- *)
Lemma uniquac_spec_swap (u : UQParams ROps) (k1 k2 : UQConst ROps) T x :
  uniquac_gamma_gen ROps true (swap_uq u) k2 k1 T (1 - x) (1 - (1 - x))
  = swap_pair (uniquac_gamma_gen ROps true u k1 k2 T x (1 - x)).
Proof.
  unfold uniquac_gamma_gen, swap_uq, swap_pair. cbn [ualpha12 ualpha21 ubeta12 ubeta21 uz fst snd].
  rnum. replace (1 - (1 - x)) with x by ring.
  rewrite (Rplus_comm ((1 - x) * uq_r k2) (x * uq_r k1)), (Rplus_comm ((1 - x) * uq_q k2) (x * uq_q k1)),
          (Rplus_comm ((1 - x) * uq_qi k2) (x * uq_qi k1)).
  reflexivity.
Qed.

(* ---- compositions ---- *)
Lemma fmolar_swap M1 M2 w : 0 < M1 -> 0 < M2 -> 0 <= w <= 1 -> fmolar M2 M1 (1 - w) = 1 - fmolar M1 M2 w.
Proof.
  intros H1 H2 Hw. unfold fmolar.
  assert (D : w / M1 + (1 - w) / M2 > 0).
  { assert (0 < / M1) by (apply Rinv_0_lt_compat; lra). assert (0 < / M2) by (apply Rinv_0_lt_compat; lra).
    unfold Rdiv. nra. }
  field. repeat split; try lra; apply Rgt_not_eq; nra.
Qed.

Lemma to_molar_swap (m : Mixture ROps) (c : Composition ROps) : 0 < mw (c1 m) -> 0 < mw (c2 m) -> 0 <= cp c <= 1 ->
  to_molar ROps (swap_comp c) (swap_mixture m) =
  match to_molar ROps c m with Ok r => Ok (swap_comp r) | Err e => Err e end.
Proof.
  intros H1 H2 Hc. destruct c as [p t]. cbn [cp] in Hc. destruct t.
  - reflexivity.
  - change (swap_comp (RC p Weight)) with (RC (1 - p) Weight).
    assert (Hc' : 0 <= 1 - p <= 1) by lra.
    rewrite (to_molar_weight_R (swap_mixture m) H2 H1 (1 - p) Hc').
    rewrite (to_molar_weight_R m H1 H2 p Hc). unfold swap_comp. cbn [cp ctype swap_mixture c1 c2].
    rewrite fmolar_swap by assumption. reflexivity.
Qed.

(* ---- composition of a flux pair and the solver's distance ---- *)
Lemma comp_of_fluxes_swap (J : R * R) : fst J + snd J <> 0 ->
  comp_of_fluxes ROps (swap_pair J) = match comp_of_fluxes ROps J with Ok y => Ok (swap_comp y) | Err e => Err e end.
Proof.
  intros Hs. unfold comp_of_fluxes, swap_pair. cbn [fst snd]. rnum.
  replace (snd J / (0 + snd J + fst J)) with (1 - fst J / (0 + fst J + snd J)) by (field; lra).
  set (y := fst J / (0 + fst J + snd J)).
  destruct (Rle_dec 0 y) as [H0|H0]; destruct (Rle_dec y 1) as [H1|H1].
  - rewrite !mk_comp_R_ok by lra. reflexivity.
  - rewrite !mk_comp_R_err by lra. reflexivity.
  - rewrite !mk_comp_R_err by lra. reflexivity.
  - rewrite !mk_comp_R_err by lra. reflexivity.
Qed.

Lemma step_dist_swap (a b : Composition ROps) : step_dist ROps (swap_comp a) (swap_comp b) = step_dist ROps a b.
Proof.
  unfold step_dist, swap_comp, first, second. cbn [cp]. rewrite !nmax_R. rnum.
  replace (1 - cp a - (1 - cp b)) with (- (cp a - cp b)) by ring.
  replace (1 - (1 - cp a) - (1 - (1 - cp b))) with (cp a - cp b) by ring.
  rewrite Rabs_Ropp. apply Rmax_comm.
Qed.

(* the fixed-point loop commutes with the relabelling, for any pair of driving-force maps that are
   mirror images of each other and never return fluxes summing to zero *)
Lemma solve_loop_swap (F F' : Composition ROps -> res (R * R)) prec fuel d y :
  (forall y, F' (swap_comp y) = swap_res (F y)) ->
  (forall y J, F y = Ok J -> fst J + snd J <> 0) ->
  solve_loop ROps fuel F' prec d (swap_comp y)
  = match solve_loop ROps fuel F prec d y with Ok r => Ok (swap_comp r) | Err e => Err e end.
Proof.
  intros HF Hnz. revert d y. induction fuel as [|f IH]; intros d y; cbn [solve_loop].
  - destruct (leb ROps prec d); reflexivity.
  - destruct (leb ROps prec d); [|reflexivity].
    rewrite HF. destruct (F y) as [J|] eqn:EF; cbn [swap_res bind]; [|reflexivity].
    rewrite (comp_of_fluxes_swap J (Hnz _ _ EF)).
    destruct (comp_of_fluxes ROps J) as [y1|]; cbn [bind]; [|reflexivity].
    rewrite step_dist_swap. apply IH.
Qed.

(* separation factor inverts *)
Lemma separation_factor_swap (x y : Composition ROps) : cp x <> 0 -> 1 - cp x <> 0 -> cp y <> 0 -> 1 - cp y <> 0 ->
  process_separation_factor ROps (swap_comp y) (swap_comp x) = 1 / process_separation_factor ROps y x.
Proof.
  intros. unfold process_separation_factor, swap_comp, first, second. cbn [cp]. rnum. field. repeat split; lra.
Qed.

(* ---- activity coefficients and partial pressures of the relabelled mixture ---- *)
Lemma activity_swap_nrtl spec T (m : Mixture ROps) x :
  activity_gen ROps spec T (swap_mixture m) (RC (1 - x) Molar) NRTL = swap_res (activity_gen ROps spec T m (RC x Molar) NRTL).
Proof.
  unfold activity_gen. cbn [to_molar ctype bind swap_mixture nrtl].
  destruct (nrtl m) as [p|]; [|reflexivity]. cbn [swap_res]. rewrite nrtl_swap. reflexivity.
Qed.

Lemma activity_swap_uniquac_spec T (m : Mixture ROps) x : x <> 0 -> 1 - x <> 0 ->
  activity_gen ROps true T (swap_mixture m) (RC (1 - x) Molar) UNIQUAC = swap_res (activity_gen ROps true T m (RC x Molar) UNIQUAC).
Proof.
  intros H0 H1. unfold activity_gen, first, second. cbn [to_molar ctype bind swap_mixture uniquac c1 c2 cp]. rnum.
  replace (1 - (1 - x)) with x by ring.
  rewrite (proj2 (Reqb_false x 0) H0), (proj2 (Reqb_false (1 - x) 0) H1).
  destruct (uniquac m) as [u|]; [|reflexivity].
  destruct (uqc (c1 m)) as [k1|], (uqc (c2 m)) as [k2|]; try reflexivity.
  cbn [swap_res]. f_equal.
  pose proof (uniquac_spec_swap u k1 k2 T x) as E. replace (1 - (1 - x)) with x in E by ring. exact E.
Qed.

Definition sym_model (spec : bool) (ct : ActModel) : Prop := ct = NRTL \/ (ct = UNIQUAC /\ spec = true).

Lemma activity_swap spec T (m : Mixture ROps) x ct : sym_model spec ct -> x <> 0 -> 1 - x <> 0 ->
  activity_gen ROps spec T (swap_mixture m) (RC (1 - x) Molar) ct = swap_res (activity_gen ROps spec T m (RC x Molar) ct).
Proof.
  intros [->|[-> ->]] H0 H1; [apply activity_swap_nrtl | apply activity_swap_uniquac_spec; assumption].
Qed.

Definition vp_defined (m : Mixture ROps) (T : R) : Prop :=
  (exists p, vapor_pressure ROps (c1 m) T = Ok p) /\ (exists p, vapor_pressure ROps (c2 m) T = Ok p).

Lemma pp_swap_molar spec T (m : Mixture ROps) x ct : sym_model spec ct -> vp_defined m T -> x <> 0 -> 1 - x <> 0 ->
  partial_pressures_gen ROps spec T (swap_mixture m) (RC (1 - x) Molar) ct
  = swap_res (partial_pressures_gen ROps spec T m (RC x Molar) ct).
Proof.
  intros Hs [[p1 Hp1] [p2 Hp2]] H0 H1. unfold partial_pressures_gen. cbn [to_molar ctype bind].
  rewrite (activity_swap spec T m x ct Hs H0 H1).
  destruct (activity_gen ROps spec T m (RC x Molar) ct) as [g|]; cbn [swap_res bind]; [|reflexivity].
  cbn [swap_mixture c1 c2]. rewrite Hp1, Hp2. cbn [bind swap_res].
  unfold swap_pair, first, second. cbn [fst snd cp]. rnum. replace (1 - (1 - x)) with x by ring. reflexivity.
Qed.

(* any basis, interior composition *)
Lemma pp_swap spec T (m : Mixture ROps) (c : Composition ROps) ct : sym_model spec ct -> vp_defined m T ->
  0 < mw (c1 m) -> 0 < mw (c2 m) -> 0 < cp c < 1 ->
  partial_pressures_gen ROps spec T (swap_mixture m) (swap_comp c) ct = swap_res (partial_pressures_gen ROps spec T m c ct).
Proof.
  intros Hs Hv HM1 HM2 Hc. destruct c as [p t]. cbn [cp] in Hc. destruct t.
  - change (swap_comp (RC p Molar)) with (RC (1 - p) Molar). apply pp_swap_molar; [exact Hs | exact Hv | lra | lra].
  - change (swap_comp (RC p Weight)) with (RC (1 - p) Weight).
    rewrite (pp_basis (swap_mixture m) HM2 HM1 spec T (1 - p) ct) by lra.
    rewrite (pp_basis m HM1 HM2 spec T p ct) by lra.
    cbn [swap_mixture c1 c2]. rewrite fmolar_swap by (try assumption; lra).
    assert (R0 : 0 < fmolar (mw (c1 m)) (mw (c2 m)) p < 1).
    { pose proof (fmolar_increasing m HM1 HM2 0 p) as A. pose proof (fmolar_increasing m HM1 HM2 p 1) as B.
      rewrite (fmolar_0 m HM1 HM2) in A. rewrite (fmolar_1 m HM1 HM2) in B. split; [apply A; lra | apply B; lra]. }
    apply pp_swap_molar; [exact Hs | exact Hv | lra | lra].
Qed.
