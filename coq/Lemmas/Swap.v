(* Component-order symmetry (property C06). *)
From Coq Require Import Reals Lra ZArith Bool Arith Psatz Lia List.
From PV Require Import Num PyBase Model.Component Model.Mixture Model.Permeance Model.Solver Model.Process Model.Curve
  Lemmas.RTac Lemmas.Composition Lemmas.Thermo Lemmas.Activity Lemmas.Solver Lemmas.Process.
Import ListNotations.
Local Open Scope R_scope.

Definition swap_pair {A} (p : A * A) : A * A := (snd p, fst p).
Definition swap_res {A} (r : res (A * A)) : res (A * A) := match r with Ok p => Ok (swap_pair p) | Err e => Err e end.

Definition swap_nrtl (p : NRTLParams ROps) : NRTLParams ROps :=
  Build_NRTLParams ROps (g21 p) (g12 p)
    (match alpha21 p with None => alpha12 p | Some a => a end)
    (match alpha21 p with None => None | Some _ => Some (alpha12 p) end)
    (a21 p) (a12 p).
Definition swap_uq (u : UQParams ROps) : UQParams ROps :=
  Build_UQParams ROps (ualpha21 u) (ualpha12 u) (ubeta21 u) (ubeta12 u) (uz u).
Definition swap_mixture (m : Mixture ROps) : Mixture ROps :=
  Build_Mixture ROps (c2 m) (c1 m)
    (match nrtl m with Some p => Some (swap_nrtl p) | None => None end)
    (match uniquac m with Some u => Some (swap_uq u) | None => None end).
Definition swap_comp (c : Composition ROps) : Composition ROps := RC (1 - cp c) (ctype c).

Lemma swap_comp_invol c : swap_comp (swap_comp c) = c.
Proof. destruct c as [p t]. unfold swap_comp. cbn [cp ctype]. f_equal. ring. Qed.

(* ---- NRTL ---- *)
Lemma nrtl_swap (p : NRTLParams ROps) T x :
  nrtl_gamma ROps (swap_nrtl p) T (RC (1 - x) Molar) = swap_pair (nrtl_gamma ROps p T (RC x Molar)).
Proof.
  unfold nrtl_gamma, nrtl_gexp, nrtl_tau, swap_nrtl, swap_pair, first, second.
  cbn [g12 g21 alpha12 alpha21 a12 a21 cp fst snd].
  destruct (alpha21 p) as [al21|]; cbn [fst snd]; rnum; replace (1 - (1 - x)) with x by ring; reflexivity.
Qed.

(* ---- UNIQUAC, mirror-image second coefficient ---- *)
Lemma uniquac_spec_swap (u : UQParams ROps) (k1 k2 : UQConst ROps) T x :
  uniquac_gamma_gen ROps true (swap_uq u) k2 k1 T (1 - x) (1 - (1 - x))
  = swap_pair (uniquac_gamma_gen ROps true u k1 k2 T x (1 - x)).
Proof.
  unfold uniquac_gamma_gen, swap_uq, swap_pair. cbn [ualpha12 ualpha21 ubeta12 ubeta21 uz fst snd].
  rnum. replace (1 - (1 - x)) with x by ring.
  rewrite (Rplus_comm ((1 - x) * uq_r k2) (x * uq_r k1)), (Rplus_comm ((1 - x) * uq_q k2) (x * uq_q k1)),
          (Rplus_comm ((1 - x) * uq_qi k2) (x * uq_qi k1)).
  reflexivity.
Qed.

(* ---- compositions ---- *)
Lemma fmolar_swap M1 M2 w : 0 < M1 -> 0 < M2 -> 0 <= w <= 1 -> fmolar M2 M1 (1 - w) = 1 - fmolar M1 M2 w.
Proof.
  intros H1 H2 Hw. unfold fmolar.
  assert (D : w / M1 + (1 - w) / M2 > 0).
  { assert (0 < / M1) by (apply Rinv_0_lt_compat; lra). assert (0 < / M2) by (apply Rinv_0_lt_compat; lra).
    unfold Rdiv. nra. }
  field. repeat split; try lra; apply Rgt_not_eq; nra.
Qed.

Lemma to_molar_swap (m : Mixture ROps) (c : Composition ROps) : 0 < mw (c1 m) -> 0 < mw (c2 m) -> 0 <= cp c <= 1 ->
  to_molar ROps (swap_comp c) (swap_mixture m) =
  match to_molar ROps c m with Ok r => Ok (swap_comp r) | Err e => Err e end.
Proof.
  intros H1 H2 Hc. destruct c as [p t]. cbn [cp] in Hc. destruct t.
  - reflexivity.
  - change (swap_comp (RC p Weight)) with (RC (1 - p) Weight).
    assert (Hc' : 0 <= 1 - p <= 1) by lra.
    rewrite (to_molar_weight_R (swap_mixture m) H2 H1 (1 - p) Hc').
    rewrite (to_molar_weight_R m H1 H2 p Hc). unfold swap_comp. cbn [cp ctype swap_mixture c1 c2].
    rewrite fmolar_swap by assumption. reflexivity.
Qed.

(* ---- composition of a flux pair and the solver's distance ---- *)
Lemma comp_of_fluxes_swap (J : R * R) : fst J + snd J <> 0 ->
  comp_of_fluxes ROps (swap_pair J) = match comp_of_fluxes ROps J with Ok y => Ok (swap_comp y) | Err e => Err e end.
Proof.
  intros Hs. unfold comp_of_fluxes, swap_pair. cbn [fst snd]. rnum.
  replace (snd J / (0 + snd J + fst J)) with (1 - fst J / (0 + fst J + snd J)) by (field; lra).
  set (y := fst J / (0 + fst J + snd J)).
  destruct (Rle_dec 0 y) as [H0|H0]; destruct (Rle_dec y 1) as [H1|H1].
  - rewrite !mk_comp_R_ok by lra. reflexivity.
  - rewrite !mk_comp_R_err by lra. reflexivity.
  - rewrite !mk_comp_R_err by lra. reflexivity.
  - rewrite !mk_comp_R_err by lra. reflexivity.
Qed.

Lemma step_dist_swap (a b : Composition ROps) : step_dist ROps (swap_comp a) (swap_comp b) = step_dist ROps a b.
Proof.
  unfold step_dist, swap_comp, first, second. cbn [cp]. rewrite !nmax_R. rnum.
  replace (1 - cp a - (1 - cp b)) with (- (cp a - cp b)) by ring.
  replace (1 - (1 - cp a) - (1 - (1 - cp b))) with (cp a - cp b) by ring.
  rewrite Rabs_Ropp. apply Rmax_comm.
Qed.

(* the fixed-point loop commutes with the relabelling, for any pair of driving-force maps that are
   mirror images of each other and never return fluxes summing to zero *)
Lemma solve_loop_swap (F F' : Composition ROps -> res (R * R)) prec fuel d y :
  (forall y, F' (swap_comp y) = swap_res (F y)) ->
  (forall y J, F y = Ok J -> fst J + snd J <> 0) ->
  solve_loop ROps fuel F' prec d (swap_comp y)
  = match solve_loop ROps fuel F prec d y with Ok r => Ok (swap_comp r) | Err e => Err e end.
Proof.
  intros HF Hnz. revert d y. induction fuel as [|f IH]; intros d y; cbn [solve_loop].
  - destruct (leb ROps prec d); reflexivity.
  - destruct (leb ROps prec d); [|reflexivity].
    rewrite HF. destruct (F y) as [J|] eqn:EF; cbn [swap_res bind]; [|reflexivity].
    rewrite (comp_of_fluxes_swap J (Hnz _ _ EF)).
    destruct (comp_of_fluxes ROps J) as [y1|]; cbn [bind]; [|reflexivity].
    rewrite step_dist_swap. apply IH.
Qed.

(* separation factor inverts *)
Lemma separation_factor_swap (x y : Composition ROps) : cp x <> 0 -> 1 - cp x <> 0 -> cp y <> 0 -> 1 - cp y <> 0 ->
  process_separation_factor ROps (swap_comp y) (swap_comp x) = 1 / process_separation_factor ROps y x.
Proof.
  intros. unfold process_separation_factor, swap_comp, first, second. cbn [cp]. rnum. field. repeat split; lra.
Qed.

(* ---- activity coefficients and partial pressures of the relabelled mixture ---- *)
Lemma activity_swap_nrtl spec T (m : Mixture ROps) x :
  activity_gen ROps spec T (swap_mixture m) (RC (1 - x) Molar) NRTL = swap_res (activity_gen ROps spec T m (RC x Molar) NRTL).
Proof.
  unfold activity_gen. cbn [to_molar ctype bind swap_mixture nrtl].
  destruct (nrtl m) as [p|]; [|reflexivity]. cbn [swap_res]. rewrite nrtl_swap. reflexivity.
Qed.

Lemma activity_swap_uniquac_spec T (m : Mixture ROps) x : x <> 0 -> 1 - x <> 0 ->
  activity_gen ROps true T (swap_mixture m) (RC (1 - x) Molar) UNIQUAC = swap_res (activity_gen ROps true T m (RC x Molar) UNIQUAC).
Proof.
  intros H0 H1. unfold activity_gen, first, second. cbn [to_molar ctype bind swap_mixture uniquac c1 c2 cp]. rnum.
  replace (1 - (1 - x)) with x by ring.
  rewrite (proj2 (Reqb_false x 0) H0), (proj2 (Reqb_false (1 - x) 0) H1).
  destruct (uniquac m) as [u|]; [|reflexivity].
  destruct (uqc (c1 m)) as [k1|], (uqc (c2 m)) as [k2|]; try reflexivity.
  cbn [swap_res]. f_equal.
  pose proof (uniquac_spec_swap u k1 k2 T x) as E. replace (1 - (1 - x)) with x in E by ring. exact E.
Qed.

Definition sym_model (spec : bool) (ct : ActModel) : Prop := ct = NRTL \/ (ct = UNIQUAC /\ spec = true).

Lemma activity_swap spec T (m : Mixture ROps) x ct : sym_model spec ct -> x <> 0 -> 1 - x <> 0 ->
  activity_gen ROps spec T (swap_mixture m) (RC (1 - x) Molar) ct = swap_res (activity_gen ROps spec T m (RC x Molar) ct).
Proof.
  intros [->|[-> ->]] H0 H1; [apply activity_swap_nrtl | apply activity_swap_uniquac_spec; assumption].
Qed.

Definition vp_defined (m : Mixture ROps) (T : R) : Prop :=
  (exists p, vapor_pressure ROps (c1 m) T = Ok p) /\ (exists p, vapor_pressure ROps (c2 m) T = Ok p).

Lemma pp_swap_molar spec T (m : Mixture ROps) x ct : sym_model spec ct -> vp_defined m T -> x <> 0 -> 1 - x <> 0 ->
  partial_pressures_gen ROps spec T (swap_mixture m) (RC (1 - x) Molar) ct
  = swap_res (partial_pressures_gen ROps spec T m (RC x Molar) ct).
Proof.
  intros Hs [[p1 Hp1] [p2 Hp2]] H0 H1. unfold partial_pressures_gen. cbn [to_molar ctype bind].
  rewrite (activity_swap spec T m x ct Hs H0 H1).
  destruct (activity_gen ROps spec T m (RC x Molar) ct) as [g|]; cbn [swap_res bind]; [|reflexivity].
  cbn [swap_mixture c1 c2]. rewrite Hp1, Hp2. cbn [bind swap_res].
  unfold swap_pair, first, second. cbn [fst snd cp]. rnum. replace (1 - (1 - x)) with x by ring. reflexivity.
Qed.

(* any basis, interior composition *)
Lemma pp_swap spec T (m : Mixture ROps) (c : Composition ROps) ct : sym_model spec ct -> vp_defined m T ->
  0 < mw (c1 m) -> 0 < mw (c2 m) -> 0 < cp c < 1 ->
  partial_pressures_gen ROps spec T (swap_mixture m) (swap_comp c) ct = swap_res (partial_pressures_gen ROps spec T m c ct).
Proof.
  intros Hs Hv HM1 HM2 Hc. destruct c as [p t]. cbn [cp] in Hc. destruct t.
  - change (swap_comp (RC p Molar)) with (RC (1 - p) Molar). apply pp_swap_molar; [exact Hs | exact Hv | lra | lra].
  - change (swap_comp (RC p Weight)) with (RC (1 - p) Weight).
    rewrite (pp_basis (swap_mixture m) HM2 HM1 spec T (1 - p) ct) by lra.
    rewrite (pp_basis m HM1 HM2 spec T p ct) by lra.
    cbn [swap_mixture c1 c2]. rewrite fmolar_swap by (try assumption; lra).
    assert (R0 : 0 < fmolar (mw (c1 m)) (mw (c2 m)) p < 1).
    { pose proof (fmolar_increasing m HM1 HM2 0 p) as A. pose proof (fmolar_increasing m HM1 HM2 p 1) as B.
      rewrite (fmolar_0 m HM1 HM2) in A. rewrite (fmolar_1 m HM1 HM2) in B. split; [apply A; lra | apply B; lra]. }
    apply pp_swap_molar; [exact Hs | exact Hv | lra | lra].
Qed.

(* ================= the ideal process loops commute with the relabelling ================= *)
Section ProcessSwap.
  Variable kind : PKind.
  Hypothesis Hkind : kind = IdealIso \/ kind = IdealNonIso.
  Variable m : Mixture ROps.
  Variable cd : Conditions ROps.
  Variables (dt prec : R) (ct : ActModel).
  Variables (slv slv' : SolveArgs ROps -> res (R * R)).
  Variable perm : R -> Component ROps -> res (Permeance ROps).
  Variables (f1 f2 : PervFn ROps) (FR1 FR2 : R).

  Definition swap_sargs (a : SolveArgs ROps) : SolveArgs ROps :=
    Build_SolveArgs ROps (sa_T a) (swap_comp (sa_x a)) (sa_prec a) (sa_Tp a) (sa_pp a) (sa_P2 a) (sa_P1 a) (sa_ct a).
  (* the flux calculation of the relabelled problem is the mirror image, and never returns fluxes summing to zero *)
  Hypothesis Hslv : forall a, slv' (swap_sargs a) = swap_res (slv a).
  Hypothesis Hnz : forall a J, slv a = Ok J -> fst J + snd J <> 0.
  (* latent heats are defined for both components (valid vapour-pressure forms) *)
  Hypothesis Hlat : forall T, (exists h, latent_per_kg ROps (c1 m) T = Ok h) /\ (exists h, latent_per_kg ROps (c2 m) T = Ok h).

  Definition swap_st (st : PState ROps) : PState ROps :=
    Build_PState ROps (st_m st) (swap_comp (st_x st)) (st_T st) (swap_pair (st_P st)).
  Definition swap_row (r : PRow ROps) : PRow ROps :=
    Build_PRow ROps (r_time r) (r_m r) (swap_comp (r_x r)) (r_T r) (swap_pair (r_P r)) (swap_pair (r_J r)) (swap_comp (r_y r)) (r_Q r) (r_Qc r).

  Lemma mk_comp_swap v t c : v = v -> mk_comp ROps v t = Ok c -> mk_comp ROps (1 - v) t = Ok (swap_comp c).
  Proof.
    intros _ H. apply mk_comp_R_inv in H. destruct H as [Hr ->]. rewrite mk_comp_R_ok by lra. reflexivity.
  Qed.

  Lemma step_swap k st row st' :
    Process.step ROps kind m cd dt prec ct slv perm f1 f2 FR1 FR2 k st = Ok (row, st') ->
    Process.step ROps kind (swap_mixture m) cd dt prec ct slv' perm f1 f2 FR1 FR2 k (swap_st st) = Ok (swap_row row, swap_st st').
  Proof.
    intros H. unfold Process.step in *. cbn [swap_st st_T st_x st_m st_P swap_mixture c1 c2].
    destruct (Hlat (st_T st)) as [[e1 He1] [e2 He2]]. rewrite He1, He2 in *. cbn [bind] in *.
    assert (HP : step_permeances ROps kind (swap_mixture m) perm (swap_st st)
                 = match step_permeances ROps kind m perm st with Ok P => Ok (swap_pair P) | Err e => Err e end).
    { unfold step_permeances. destruct Hkind as [-> | ->]; cbn [swap_st st_T st_P swap_mixture c1 c2]; [reflexivity|].
      destruct (perm (st_T st) (c1 m)) as [p1|] eqn:E1, (perm (st_T st) (c2 m)) as [p2|] eqn:E2; cbn [bind]; try reflexivity.
      (* differing error order: both are errors of the membrane lookup *)
      all: try (exfalso; clear - H E1 E2; unfold step_permeances in H; rewrite E1 in H; try rewrite E2 in H; cbn [bind] in H; discriminate). }
    change (Build_PState ROps (st_m st) (swap_comp (st_x st)) (st_T st) (swap_pair (st_P st))) with (swap_st st).
    rewrite HP. destruct (step_permeances ROps kind m perm st) as [P|]; [|discriminate]. cbn [bind] in *.
    match type of H with context [slv ?a] =>
      replace (Build_SolveArgs ROps (st_T st) (swap_comp (st_x st)) prec (cd_Tp cd) (cd_pp cd) (Some (fst (swap_pair P))) (Some (snd (swap_pair P))) ct)
        with (swap_sargs a) by reflexivity; rewrite (Hslv a); destruct (slv a) as [J|] eqn:EJ; [|discriminate] end.
    cbn [bind swap_res] in *. pose proof (Hnz _ _ EJ) as HJ.
    rnum. unfold swap_pair. cbn [fst snd].
    replace (snd J / (0 + snd J + fst J)) with (1 - fst J / (0 + fst J + snd J)) by (field; lra).
    destruct (mk_comp ROps (fst J / (0 + fst J + snd J)) Weight) as [y|] eqn:EY; [|discriminate]. cbn [bind] in *.
    rewrite (mk_comp_swap _ _ _ eq_refl EY). cbn [bind].
    set (d1 := fst J * cd_A cd * dt) in *. set (d2 := snd J * cd_A cd * dt) in *.
    assert (HC : cond_heat ROps (swap_mixture m) cd (st_T st) d2 d1 = cond_heat ROps m cd (st_T st) d1 d2).
    { unfold cond_heat. destruct (cd_Tp cd) as [tp|]; [|reflexivity]. cbn [swap_mixture c1 c2].
      destruct (Hlat tp) as [[k1 Hk1] [k2 Hk2]]. rewrite Hk1, Hk2. cbn [bind]. rnum. do 2 f_equal. ring. }
    rewrite HC. destruct (cond_heat ROps m cd (st_T st) d1 d2) as [Qc|]; [|discriminate]. cbn [bind] in *.
    replace (st_m st - d2 - d1) with (st_m st - d1 - d2) by ring.
    destruct (Rltb 0 (st_m st - d1 - d2)) eqn:EM; [|discriminate]. apply Rltb_true in EM.
    unfold swap_comp at 1. cbn [cp].
    replace (((1 - cp (st_x st)) * st_m st - d2) / (st_m st - d1 - d2)) with (1 - (cp (st_x st) * st_m st - d1) / (st_m st - d1 - d2)) by (field; lra).
    destruct (mk_comp ROps ((cp (st_x st) * st_m st - d1) / (st_m st - d1 - d2)) Weight) as [x'|] eqn:EX; [|discriminate]. cbn [bind] in *.
    rewrite (mk_comp_swap _ _ _ eq_refl EX). cbn [bind].
    replace (e2 * d2 + e1 * d1) with (e1 * d1 + e2 * d2) by ring.
    assert (HT : next_temperature ROps kind (swap_mixture m) cd dt k (swap_st st) (e1 * d1 + e2 * d2)
                 = next_temperature ROps kind m cd dt k st (e1 * d1 + e2 * d2)).
    { unfold next_temperature. destruct (is_iso kind); [reflexivity|].
      destruct (cd_prog cd); [reflexivity|]. cbn [bind swap_st st_T st_x st_m swap_mixture c1 c2]. unfold first, second, swap_comp. cbn [cp]. rnum.
      set (h1 := specific_heat ROps (c1 m) (st_T st) / mw (c1 m)). set (h2 := specific_heat ROps (c2 m) (st_T st) / mw (c2 m)).
      replace ((1 - cp (st_x st)) * h2 + (1 - (1 - cp (st_x st))) * h1) with (cp (st_x st) * h1 + (1 - cp (st_x st)) * h2) by ring.
      reflexivity. }
    rewrite HT. destruct (next_temperature ROps kind m cd dt k st (e1 * d1 + e2 * d2)) as [T'|]; [|discriminate]. cbn [bind] in *.
    assert (HN : next_permeances ROps kind cd f1 f2 FR1 FR2 (swap_st st) (swap_comp x') T' = Ok (swap_pair (st_P st))
                 /\ next_permeances ROps kind cd f1 f2 FR1 FR2 st x' T' = Ok (st_P st)).
    { unfold next_permeances. destruct Hkind as [-> | ->]; split; reflexivity. }
    destruct HN as [HN1 HN2]. rewrite HN1. rewrite HN2 in H. cbn [bind] in *.
    injection H as <- <-. unfold swap_row, swap_st, swap_pair. cbn [r_time r_m r_x r_T r_P r_J r_y r_Q r_Qc st_m st_x st_T st_P fst snd].
    reflexivity.
  Qed.
  Lemma run_swap n k st rows :
    Process.run_from ROps kind m cd dt prec ct slv perm f1 f2 FR1 FR2 n k st = Ok rows ->
    Process.run_from ROps kind (swap_mixture m) cd dt prec ct slv' perm f1 f2 FR1 FR2 n k (swap_st st) = Ok (map swap_row rows).
  Proof.
    revert k st rows. induction n as [|n IH]; intros k st rows; cbn [Process.run_from].
    - intros H; injection H as <-. reflexivity.
    - destruct (Process.step ROps kind m cd dt prec ct slv perm f1 f2 FR1 FR2 k st) as [[row st']|] eqn:ES; [|discriminate].
      cbn [bind fst snd]. rewrite (step_swap _ _ _ _ ES). cbn [bind fst snd].
      destruct (Process.run_from ROps kind m cd dt prec ct slv perm f1 f2 FR1 FR2 n (S k) st') as [rs|] eqn:ER; [|discriminate].
      cbn [bind]. rewrite (IH _ _ _ ER). cbn [bind]. intros H; injection H as <-. reflexivity.
  Qed.
End ProcessSwap.
