(* Proofs about DiffusionCurve construction (property C09) and the rejection lemmas (property C19). *)
From Coq Require Import Reals Lra ZArith Bool Arith Psatz Lia List.
From PV Require Import Num PyBase Model.Component Model.Mixture Model.Permeance Model.Solver Model.Curve
  Model.Membrane Model.Process Lemmas.RTac Lemmas.Composition Lemmas.Permeance Lemmas.Solver Lemmas.Process.
Import ListNotations.
Local Open Scope R_scope.

Notation RPerm v := (Build_Permeance ROps v KG).

Lemma div_mul_cancel P d : d <> 0 -> P * d / d = P.
Proof. intros; field; assumption. Qed.

(* ---- inversion of one point ---- *)
Lemma invert_vacuum PP (m : Mixture ROps) P1 P2 pf y : 0 <= P1 -> 0 <= P2 -> fst pf <> 0 -> snd pf <> 0 ->
  invert_point ROps PP m None None (P1 * fst pf, P2 * snd pf) pf y = Ok (RPerm P1, RPerm P2).
Proof.
  intros H1 H2 N1 N2. unfold invert_point. cbn [fst snd]. rnum.
  rewrite !div_mul_cancel by assumption. rewrite !mk_permeance_id by assumption. reflexivity.
Qed.

Lemma invert_temperature PP (m : Mixture ROps) tp P1 P2 pf q y : 0 <= P1 -> 0 <= P2 ->
  PP tp y NRTL = Ok q -> fst pf - fst q <> 0 -> snd pf - snd q <> 0 ->
  invert_point ROps PP m (Some tp) None (P1 * (fst pf - fst q), P2 * (snd pf - snd q)) pf y = Ok (RPerm P1, RPerm P2).
Proof.
  intros H1 H2 Hq N1 N2. unfold invert_point. rewrite Hq. cbn [bind fst snd]. rnum.
  rewrite !div_mul_cancel by assumption. rewrite !mk_permeance_id by assumption. reflexivity.
Qed.

(* permeate-pressure mode: the curve inverts with pressure * MOLE fraction of the permeate *)
Lemma invert_pressure_spec PP (m : Mixture ROps) p P1 P2 pf y ym : 0 <= P1 -> 0 <= P2 ->
  to_molar ROps y m = Ok ym -> fst pf - p * cp ym <> 0 -> snd pf - p * (1 - cp ym) <> 0 ->
  invert_point ROps PP m None (Some p) (P1 * (fst pf - p * cp ym), P2 * (snd pf - p * (1 - cp ym))) pf y
    = Ok (RPerm P1, RPerm P2).
Proof.
  intros H1 H2 Hy N1 N2. unfold invert_point. rewrite Hy. cbn [bind fst snd]. unfold first, second. rnum.
  rewrite !div_mul_cancel by assumption. rewrite !mk_permeance_id by assumption. reflexivity.
Qed.

(* finding F4: fluxes produced with pressure * MASS fraction (the solver as written) invert to
   P * (pf - p y_mass) / (pf - p y_mole) *)
Lemma invert_pressure_asis PP (m : Mixture ROps) p P1 P2 pf y ym :
  to_molar ROps y m = Ok ym ->
  exists Q1 Q2,
    invert_point ROps PP m None (Some p) (P1 * (fst pf - p * cp y), P2 * (snd pf - p * (1 - cp y))) pf y = Ok (Q1, Q2)
    /\ pval Q1 = Rmax 0 (P1 * (fst pf - p * cp y) / (fst pf - p * cp ym))
    /\ pval Q2 = Rmax 0 (P2 * (snd pf - p * (1 - cp y)) / (snd pf - p * (1 - cp ym)))
    /\ punits Q1 = KG /\ punits Q2 = KG.
Proof.
  intros Hy. unfold invert_point. rewrite Hy. cbn [bind fst snd]. unfold first, second. rnum.
  eexists _, _. split; [reflexivity|]. unfold mk_permeance. cbn [pval punits]. rnum.
  repeat split; unfold Rleb, Rmax; match goal with |- context [Rle_dec 0 ?v] => destruct (Rle_dec 0 v); try reflexivity; lra end.
Qed.

(* ---- units ---- *)
Lemma convert_to_KG_units (p : Permeance ROps) c q : convert ROps p KG c = Ok q -> punits q = KG.
Proof.
  unfold convert. destruct (units_eqb KG (punits p)) eqn:E.
  - intros H; injection H as <-. apply units_eqb_eq in E. symmetry; exact E.
  - destruct c as [k|]; [|discriminate].
    destruct (conv_factor ROps (Some k) (punits p)); [|discriminate]. cbn [bind].
    intros H; injection H as <-. reflexivity.
Qed.

Lemma invert_point_units PP (m : Mixture ROps) Tp pp J pf y Q :
  invert_point ROps PP m Tp pp J pf y = Ok Q -> punits (fst Q) = KG /\ punits (snd Q) = KG.
Proof.
  unfold invert_point. destruct Tp as [tp|], pp as [p|]; try discriminate.
  - destruct (PP tp y NRTL); [|discriminate]. cbn [bind]. intros H; injection H as <-. split; reflexivity.
  - destruct (to_molar ROps y m); [|discriminate]. cbn [bind]. intros H; injection H as <-. split; reflexivity.
  - intros H; injection H as <-. split; reflexivity.
Qed.

Lemma convert_pair_units (m : Mixture ROps) p q : convert_pair ROps m p = Ok q -> punits (fst q) = KG /\ punits (snd q) = KG.
Proof.
  unfold convert_pair. destruct (convert ROps (fst p) KG _) as [a|] eqn:Ea; [|discriminate]. cbn [bind].
  destruct (convert ROps (snd p) KG _) as [b|] eqn:Eb; [|discriminate]. cbn [bind].
  intros H; injection H as <-. split; [exact (convert_to_KG_units _ _ _ Ea) | exact (convert_to_KG_units _ _ _ Eb)].
Qed.

Lemma mapM_Forall {A B} (f : A -> res B) (P : B -> Prop) l r :
  (forall a b, f a = Ok b -> P b) -> mapM f l = Ok r -> Forall P r.
Proof.
  intros Hf. revert r. induction l as [|a t IH]; intros r; cbn [mapM].
  - intros H; injection H as <-. constructor.
  - destruct (f a) as [b|] eqn:E; [|discriminate]. cbn [bind].
    destruct (mapM f t) as [bs|]; [|discriminate]. cbn [bind]. intros H; injection H as <-.
    constructor; [exact (Hf _ _ E) | apply IH; reflexivity].
Qed.

Lemma map3M_Forall {A B C D} (f : A -> B -> C -> res D) (P : D -> Prop) la lb lc r :
  (forall a b c d, f a b c = Ok d -> P d) -> map3M f la lb lc = Ok r -> Forall P r.
Proof.
  intros Hf. revert lb lc r. induction la as [|a ta IH]; intros lb lc r; cbn [map3M].
  - intros H; injection H as <-. constructor.
  - destruct lb as [|b tb]; [discriminate|]. destruct lc as [|c tc]; [discriminate|].
    destruct (f a b c) as [d|] eqn:E; [|discriminate]. cbn [bind].
    destruct (map3M f ta tb tc) as [ds|] eqn:E2; [|discriminate]. cbn [bind]. intros H; injection H as <-.
    constructor; [exact (Hf _ _ _ _ E) | exact (IH _ _ _ E2)].
Qed.

(* every permeance exposed by a constructed curve is in kg/(m2 h kPa) *)
Lemma mk_curve_units PP (m : Mixture ROps) c cv : mk_curve ROps PP m c = Ok cv ->
  Forall (fun p => punits (fst p) = KG /\ punits (snd p) = KG) (cv_P cv).
Proof.
  unfold mk_curve. destruct (ci_J c) as [Js|], (ci_P c) as [P|]; try discriminate.
  - destruct (mapM (convert_pair ROps m) P) as [P'|] eqn:E; [|discriminate]. cbn [bind].
    intros H; injection H as <-. cbn [cv_P]. exact (mapM_Forall _ _ _ _ (convert_pair_units m) E).
  - destruct (mapM (point_permeate_comp ROps) Js) as [ys|]; [|discriminate]. cbn [bind].
    destruct (mapM _ (ci_xs c)) as [pfs|]; [|discriminate]. cbn [bind].
    destruct (map3M _ Js pfs ys) as [Pi|] eqn:E; [|discriminate]. cbn [bind].
    intros H; injection H as <-. cbn [cv_P].
    exact (map3M_Forall _ _ _ _ _ _ (fun a b c d => invert_point_units PP m _ _ a b c d) E).
  - destruct (mapM _ (ci_xs c)) as [pfs|]; [|discriminate]. cbn [bind].
    destruct (mapM (convert_pair ROps m) P) as [P'|]; [|discriminate]. cbn [bind].
    destruct (map3M _ P' pfs _) as [Js|]; [|discriminate]. cbn [bind].
    destruct (mapM (convert_pair ROps m) P') as [P''|] eqn:E; [|discriminate]. cbn [bind].
    intros H; injection H as <-. cbn [cv_P]. exact (mapM_Forall _ _ _ _ (convert_pair_units m) E).
Qed.

(* ================= rejections (C19) ================= *)
Lemma flux_rejects_both spec fix4 (m : Mixture ROps) (a : FluxArgs ROps) tp p :
  fa_Tp a = Some tp -> fa_pp a = Some p -> exists e, fluxes_from_permeate_gen ROps spec fix4 m a = Err e.
Proof.
  intros H1 H2. unfold fluxes_from_permeate_gen.
  destruct (partial_pressures_gen ROps spec (fa_T a) m (fa_x a) (fa_ct a)); cbn [bind]; [|eexists; reflexivity].
  unfold permeate_pressures_gen. rewrite H1, H2. cbn [bind]. eexists; reflexivity.
Qed.

Lemma solve_loop_F_error F prec fuel d y : (forall y, exists e, F y = Err e) ->
  (exists y', solve_loop ROps fuel F prec d y = Ok y' /\ y' = y) \/ (exists e, solve_loop ROps fuel F prec d y = Err e).
Proof.
  intros HF. destruct fuel as [|f]; cbn [solve_loop]; destruct (leb ROps prec d).
  - right; eexists; reflexivity.
  - left; eexists; split; reflexivity.
  - destruct (HF y) as [e ->]. cbn [bind]. right; eexists; reflexivity.
  - left; eexists; split; reflexivity.
Qed.

Lemma solve_with_F_error cap PP F (m : Mixture ROps) perm (a : SolveArgs ROps) :
  (forall P y, exists e, F (mk_flux_args ROps a P y) = Err e) -> exists e, solve_with ROps cap PP F m perm a = Err e.
Proof.
  intros HF. unfold solve_with.
  destruct (resolve_permeances ROps m perm a) as [P|]; cbn [bind]; [|eexists; reflexivity].
  destruct (PP (sa_T a) (sa_x a) (sa_ct a)) as [pf|]; cbn [bind]; [|eexists; reflexivity].
  destruct (comp_of_fluxes ROps _) as [y0|]; cbn [bind]; [|eexists; reflexivity].
  destruct (solve_loop_F_error (fun y => F (mk_flux_args ROps a P y)) (sa_prec a) cap (ilit ROps 1) y0 (fun y => HF P y)) as [[y' [-> _]]|[e ->]];
    cbn [bind]; [apply HF | eexists; reflexivity].
Qed.

Lemma solve_rejects_both spec fix4 (m : Mixture ROps) perm (a : SolveArgs ROps) tp p :
  sa_Tp a = Some tp -> sa_pp a = Some p -> exists e, solve_gen ROps spec fix4 m perm a = Err e.
Proof.
  intros H1 H2. unfold solve_gen. apply solve_with_F_error. intros P y.
  apply (flux_rejects_both spec fix4 m (mk_flux_args ROps a P y) tp p); cbn [mk_flux_args fa_Tp fa_pp]; assumption.
Qed.

(* helpers, curves and processes reach the flux calculation at least once (>= 1 point / step) *)
Lemma permeate_composition_rejects (slv : SolveArgs ROps -> res (R * R)) a :
  (exists e, slv a = Err e) -> exists e, permeate_composition ROps slv a = Err e.
Proof. intros [e He]. unfold permeate_composition. rewrite He. eexists; reflexivity. Qed.

Lemma separation_factor_rejects (m : Mixture ROps) (slv : SolveArgs ROps -> res (R * R)) a :
  (exists e, slv a = Err e) -> exists e, separation_factor ROps m slv a = Err e.
Proof. intros [e He]. unfold separation_factor, permeate_composition. rewrite He. eexists; reflexivity. Qed.

Lemma ideal_curve_rejects PP (m : Mixture ROps) (slv : SolveArgs ROps -> res (R * R)) T x xs Tp pp prec ct :
  (forall a, sa_Tp a = Tp -> sa_pp a = pp -> exists e, slv a = Err e) ->
  exists e, ideal_diffusion_curve ROps PP m slv T (x :: xs) Tp pp prec ct = Err e.
Proof.
  intros H. unfold ideal_diffusion_curve. cbn [mapM].
  destruct (H (Build_SolveArgs ROps T x prec Tp pp None None ct) eq_refl eq_refl) as [e ->]. cbn [bind]. eexists; reflexivity.
Qed.

Lemma mk_curve_rejects_both PP (m : Mixture ROps) c Js tp p :
  ci_J c = Some Js -> ci_P c = None -> ci_Tp c = Some tp -> ci_pp c = Some p -> Js <> [] ->
  exists e, mk_curve ROps PP m c = Err e.
Proof.
  intros HJ HP H1 H2 Hne. unfold mk_curve. rewrite HJ, HP.
  destruct (mapM (point_permeate_comp ROps) Js) as [ys|] eqn:EY; cbn [bind]; [|eexists; reflexivity].
  destruct (mapM _ (ci_xs c)) as [pfs|]; cbn [bind]; [|eexists; reflexivity].
  destruct Js as [|J Jt]; [contradiction|]. cbn [mapM] in EY.
  destruct (point_permeate_comp ROps J); [|discriminate]. cbn [bind] in EY.
  destruct (mapM (point_permeate_comp ROps) Jt); [|discriminate]. cbn [bind] in EY. injection EY as <-.
  cbn [map3M]. destruct pfs as [|pf pft]; cbn [bind]; [eexists; reflexivity|].
  unfold invert_point at 1. rewrite H1, H2. cbn [bind]. eexists; reflexivity.
Qed.

Lemma mk_curve_rejects_neither PP (m : Mixture ROps) c : ci_J c = None -> ci_P c = None -> mk_curve ROps PP m c = Err ValueError.
Proof. intros H1 H2. unfold mk_curve. rewrite H1, H2. reflexivity. Qed.

Lemma process_rejects kind (m : Mixture ROps) cd dt prec ct slv perm f1 f2 FR1 FR2 n k st :
  (forall a, sa_Tp a = cd_Tp cd -> sa_pp a = cd_pp cd -> exists e, slv a = Err e) ->
  exists e, run_from ROps kind m cd dt prec ct slv perm f1 f2 FR1 FR2 (S n) k st = Err e.
Proof.
  intros H. cbn [run_from]. unfold step.
  destruct (latent_per_kg ROps (c1 m) (st_T st)); cbn [bind]; [|eexists; reflexivity].
  destruct (latent_per_kg ROps (c2 m) (st_T st)); cbn [bind]; [|eexists; reflexivity].
  destruct (step_permeances ROps kind m perm st) as [P|]; cbn [bind]; [|eexists; reflexivity].
  match goal with |- context [slv ?a] => destruct (H a eq_refl eq_refl) as [e ->] end. cbn [bind]. eexists; reflexivity.
Qed.

Lemma mixture_without_parameters (a b : Component ROps) : mk_mixture ROps a b None None = Err ValueError.
Proof. reflexivity. Qed.

Lemma activity_missing_nrtl spec T (m : Mixture ROps) x : nrtl m = None ->
  activity_gen ROps spec T m (RC x Molar) NRTL = Err ValueError.
Proof. intros H. unfold activity_gen. cbn [to_molar ctype bind]. rewrite H. reflexivity. Qed.

Lemma activity_missing_uniquac spec T (m : Mixture ROps) x :
  uniquac m = None \/ uqc (c1 m) = None \/ uqc (c2 m) = None ->
  activity_gen ROps spec T m (RC x Molar) UNIQUAC = Err ValueError.
Proof.
  intros H. unfold activity_gen. cbn [to_molar ctype bind].
  destruct (eqb ROps _ _); [|destruct (eqb ROps _ _)];
    (destruct (uniquac m); [|reflexivity]; destruct (uqc (c1 m)); [|reflexivity]; destruct (uqc (c2 m)); [|reflexivity];
     destruct H as [H|[H|H]]; discriminate).
Qed.
