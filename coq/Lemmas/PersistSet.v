(* DiffusionCurveSet.load (Model/PersistCurve.v, load_set): grouping by curve identifier.
   Nothing here depends on the number type: the lemmas hold for every NumOps. *)
From Coq Require Import List Bool Arith Lia Sorted.
From PV Require Import Num PyBase Model.Component Model.Mixture Model.Permeance Model.Solver Model.Process Model.Curve
  Model.Persist Model.PersistCurve.
Import ListNotations.

Section Grouping.
  Context (N : NumOps).
  Local Notation Cell := (Cell N).
  Local Notation table := (list (list Cell)).

  (* ---- the identifier list: strictly ascending, exactly the identifiers that occur ---- *)
  Lemma insert_id_In k l x : In x (insert_id k l) <-> x = k \/ In x l.
  Proof.
    induction l as [|h t IH]; cbn [insert_id].
    - cbn. intuition.
    - destruct (Nat.ltb_spec k h) as [Hlt|Hge].
      + cbn. intuition.
      + destruct (Nat.eqb_spec k h) as [->|Hne].
        * cbn. intuition.
        * cbn [In]. rewrite IH. intuition.
  Qed.

  Lemma insert_id_sorted k l : StronglySorted lt l -> StronglySorted lt (insert_id k l).
  Proof.
    induction l as [|h t IH]; cbn [insert_id]; intros Hs.
    - repeat constructor.
    - inversion Hs as [|? ? Ht Hh]; subst.
      destruct (Nat.ltb_spec k h) as [Hlt|Hge].
      + constructor; [exact Hs|]. constructor; [exact Hlt|].
        eapply Forall_impl; [|exact Hh]. intros; lia.
      + destruct (Nat.eqb_spec k h) as [->|Hne]; [exact Hs|].
        constructor; [apply IH; exact Ht|].
        apply Forall_forall. intros x Hx. apply insert_id_In in Hx. destruct Hx as [->|Hx]; [lia|].
        rewrite Forall_forall in Hh. apply Hh; exact Hx.
  Qed.

  Lemma curve_ids_In (t : table) k : In k (curve_ids N t) <-> exists r, In r t /\ row_id N r = k.
  Proof.
    induction t as [|r t IH]; cbn [curve_ids fold_right].
    - split; [intros []|intros [r [[] _]]].
    - change (fold_right (fun r acc => insert_id (row_id N r) acc) [] t) with (curve_ids N t).
      rewrite insert_id_In, IH. split.
      + intros [->|[r' [Hin Hr]]]; [exists r; split; [left; reflexivity|reflexivity]|exists r'; split; [right; exact Hin|exact Hr]].
      + intros [r' [[<-|Hin] Hr]]; [left; symmetry; exact Hr|right; exists r'; split; assumption].
  Qed.

  Lemma curve_ids_sorted (t : table) : StronglySorted lt (curve_ids N t).
  Proof.
    induction t as [|r t IH]; cbn [curve_ids fold_right]; [constructor|].
    apply insert_id_sorted. exact IH.
  Qed.

  (* strictly ascending lists with the same members are equal *)
  Lemma sorted_same_members (l1 l2 : list nat) :
    StronglySorted lt l1 -> StronglySorted lt l2 -> (forall x, In x l1 <-> In x l2) -> l1 = l2.
  Proof.
    revert l2. induction l1 as [|a l1 IH]; intros l2 H1 H2 Hm.
    - destruct l2 as [|b l2]; [reflexivity|]. exfalso. apply (proj2 (Hm b)). left; reflexivity.
    - destruct l2 as [|b l2]; [exfalso; apply (proj1 (Hm a)); left; reflexivity|].
      inversion H1 as [|? ? H1t H1h]; subst. inversion H2 as [|? ? H2t H2h]; subst.
      rewrite Forall_forall in H1h, H2h.
      assert (a = b).
      { destruct (proj1 (Hm a) (or_introl eq_refl)) as [E|Hin]; [symmetry; exact E|].
        destruct (proj2 (Hm b) (or_introl eq_refl)) as [E|Hin']; [exact E|].
        specialize (H1h _ Hin'). specialize (H2h _ Hin). lia. }
      subst b. f_equal. apply IH; try assumption.
      intros x. split; intros Hx.
      + destruct (proj1 (Hm x) (or_intror Hx)) as [E|Hin]; [|exact Hin]. subst x. specialize (H1h _ Hx). lia.
      + destruct (proj2 (Hm x) (or_intror Hx)) as [E|Hin]; [|exact Hin]. subst x. specialize (H2h _ Hx). lia.
  Qed.

  (* ---- groups ---- *)
  Lemma group_of_app k (t1 t2 : table) : group_of N k (t1 ++ t2) = group_of N k t1 ++ group_of N k t2.
  Proof. unfold group_of. apply filter_app. Qed.

  Lemma group_of_all k (t : table) : Forall (fun r => row_id N r = k) t -> group_of N k t = t.
  Proof.
    induction 1 as [|r t Hr _ IH]; [reflexivity|]. unfold group_of in *. cbn [filter].
    rewrite Hr, Nat.eqb_refl, IH. reflexivity.
  Qed.

  Lemma group_of_none k k' (t : table) : k' <> k -> Forall (fun r => row_id N r = k') t -> group_of N k t = [].
  Proof.
    intros Hne. induction 1 as [|r t Hr _ IH]; [reflexivity|]. unfold group_of in *. cbn [filter].
    rewrite Hr. destruct (Nat.eqb_spec k' k) as [E|_]; [contradiction|]. exact IH.
  Qed.

  Lemma group_nonempty_iff k (t : table) : group_of N k t <> [] <-> In k (curve_ids N t).
  Proof.
    rewrite curve_ids_In. unfold group_of. split.
    - intros Hne. destruct (filter _ t) as [|r rest] eqn:E; [contradiction|].
      assert (Hin : In r (filter (fun r => Nat.eqb (row_id N r) k) t)) by (rewrite E; left; reflexivity).
      apply filter_In in Hin. destruct Hin as [Hin Hk]. exists r. split; [exact Hin|]. apply Nat.eqb_eq; exact Hk.
    - intros [r [Hin Hr]] E.
      assert (Hf : In r (filter (fun r => Nat.eqb (row_id N r) k) t)) by (apply filter_In; split; [exact Hin|apply Nat.eqb_eq; exact Hr]).
      rewrite E in Hf. destruct Hf.
  Qed.

  (* the loaded set depends only on the per-identifier sub-sequences of the file: any interleaving of the curves' lines
     (each curve's own lines staying in order) loads to the same list of curves, in ascending identifier order *)
  Theorem load_set_interleaving (PP : PPfun N) (m : Mixture N) (t t' : table) :
    (forall k, group_of N k t' = group_of N k t) -> load_set N PP m t' = load_set N PP m t.
  Proof.
    intros Hg. unfold load_set.
    assert (Hids : curve_ids N t' = curve_ids N t).
    { apply sorted_same_members; try apply curve_ids_sorted.
      intros k. rewrite <- !group_nonempty_iff, Hg. reflexivity. }
    rewrite Hids. clear Hids. induction (curve_ids N t) as [|k ks IH]; [reflexivity|].
    cbn [mapM]. rewrite Hg, IH. reflexivity.
  Qed.

  (* blocks: curve after curve, identifiers strictly ascending *)
  Definition block_ok (b : nat * table) : Prop := snd b <> [] /\ Forall (fun r => row_id N r = fst b) (snd b).

  Lemma curve_ids_blocks (bs : list (nat * table)) :
    Forall block_ok bs -> StronglySorted lt (map fst bs) -> curve_ids N (concat (map snd bs)) = map fst bs.
  Proof.
    intros Hok Hs. apply sorted_same_members; [apply curve_ids_sorted|exact Hs|].
    intros k. rewrite curve_ids_In. split.
    - intros [r [Hin Hr]]. apply in_concat in Hin. destruct Hin as [tb [Htb Hr']].
      apply in_map_iff in Htb. destruct Htb as [[k' tb'] [E Hb]]. cbn in E. subst tb'.
      rewrite Forall_forall in Hok. destruct (Hok _ Hb) as [_ Hall]. cbn [fst snd] in Hall.
      rewrite Forall_forall in Hall. rewrite <- Hr, (Hall _ Hr'). apply in_map_iff. exists (k', tb). split; [reflexivity|exact Hb].
    - intros Hin. apply in_map_iff in Hin. destruct Hin as [[k' tb] [E Hb]]. cbn in E. subst k'.
      rewrite Forall_forall in Hok. destruct (Hok _ Hb) as [Hne Hall]. cbn [fst snd] in *.
      destruct tb as [|r tb]; [contradiction|]. exists r. split.
      + apply in_concat. exists (r :: tb). split; [apply in_map_iff; exists (k, r :: tb); split; [reflexivity|exact Hb]|left; reflexivity].
      + inversion Hall; assumption.
  Qed.

  Lemma group_of_blocks (bs : list (nat * table)) k :
    Forall block_ok bs -> ~ In k (map fst bs) -> group_of N k (concat (map snd bs)) = [].
  Proof.
    induction bs as [|[k' tb] bs IH]; intros Hok Hnin; [reflexivity|].
    cbn [map concat snd]. rewrite group_of_app. inversion Hok as [|? ? [_ Hall] Hok']; subst. cbn [fst snd] in *.
    rewrite (group_of_none k k'); [|intros E; apply Hnin; left; exact E|exact Hall].
    cbn [app]. apply IH; [exact Hok'|]. intros Hin; apply Hnin; right; exact Hin.
  Qed.

  Theorem load_set_blocks (PP : PPfun N) (m : Mixture N) (bs : list (nat * table)) :
    Forall block_ok bs -> StronglySorted lt (map fst bs) ->
    load_set N PP m (concat (map snd bs)) = mapM (fun b => load_curve N PP m (snd b)) bs.
  Proof.
    intros Hok Hs. unfold load_set. rewrite (curve_ids_blocks bs Hok Hs).
    (* every identifier of the list selects exactly its own block *)
    assert (Hsel : forall b, In b bs -> group_of N (fst b) (concat (map snd bs)) = snd b).
    { clear PP m. induction bs as [|[k0 tb0] bs IH]; intros b Hb; [destruct Hb|].
      cbn [map concat snd fst]. rewrite group_of_app.
      inversion Hok as [|? ? [Hne0 Hall0] Hok']; subst. inversion Hs as [|? ? Hs' Hlt]; subst. cbn [fst snd] in *.
      destruct Hb as [<-|Hb].
      - cbn [fst snd]. rewrite (group_of_all k0 tb0 Hall0).
        rewrite group_of_blocks; [apply app_nil_r|exact Hok'|].
        intros Hin. rewrite Forall_forall in Hlt. specialize (Hlt _ Hin). lia.
      - rewrite (group_of_none (fst b) k0); [|
          intros E; rewrite Forall_forall in Hlt; assert (In (fst b) (map fst bs)) by (apply in_map; exact Hb);
          specialize (Hlt (fst b) H); lia | exact Hall0].
        cbn [app]. apply IH; assumption. }
    clear Hok Hs. revert Hsel. generalize (concat (map snd bs)) as T. intros T Hsel.
    induction bs as [|b bs IH]; [reflexivity|].
    cbn [map mapM]. rewrite (Hsel b (or_introl eq_refl)).
    destruct (load_curve N PP m (snd b)); cbn [bind]; [|reflexivity].
    rewrite IH; [reflexivity|]. intros b' Hb'. apply Hsel. right; exact Hb'.
  Qed.

  (* a file written by DiffusionCurve.save holds one identifier: the set has exactly that curve *)
  Corollary load_set_single (PP : PPfun N) (m : Mixture N) k (t : table) :
    t <> [] -> Forall (fun r => row_id N r = k) t ->
    load_set N PP m t = (c <- load_curve N PP m t ;; Ok [c]).
  Proof.
    intros Hne Hall.
    pose proof (load_set_blocks PP m [(k, t)]) as H. cbn [map concat snd fst mapM] in H. rewrite app_nil_r in H.
    rewrite H; [destruct (load_curve N PP m t); reflexivity| |].
    - constructor; [split; assumption|constructor].
    - repeat constructor.
  Qed.
End Grouping.

(* ---- set round trip over the reals: curves written one after the other under ascending identifiers ---- *)
From Coq Require Import Reals Lra.
From PV Require Import Lemmas.PersistCurve.
Local Open Scope R_scope.

Lemma map3M_Forall {A B C D} (f : A -> B -> C -> D) (Q : D -> Prop) la lb lc t :
  (forall a b c, Q (f a b c)) -> map3M (fun a b c => Ok (f a b c)) la lb lc = Ok t -> Forall Q t.
Proof.
  intros HQ. revert lb lc t. induction la as [|a ta IH]; intros lb lc t H.
  - cbn in H. injection H as <-. constructor.
  - destruct lb as [|b tb]; [discriminate|]. destruct lc as [|c tc]; [discriminate|].
    cbn [map3M bind] in H. destruct (map3M _ ta tb tc) as [ds|e] eqn:E; [|discriminate].
    cbn [bind] in H. injection H as <-. constructor; [apply HQ|]. eapply IH; exact E.
Qed.

Lemma save_curve_rows_id k mem mix com (c : Curve ROps) t :
  save_curve ROps k mem mix com c = Ok t -> Forall (fun r => row_id ROps r = k) t.
Proof. unfold save_curve. apply map3M_Forall. intros; reflexivity. Qed.

Definition curve_storable (c : Curve ROps) : Prop :=
  cv_xs c <> [] /\ length (cv_J c) = length (cv_xs c) /\ length (cv_P c) = length (cv_xs c) /\
  Forall (fun x : Composition ROps => 0 <= cp x <= 1 /\ ctype x = Weight) (cv_xs c) /\ Forall wf_pair (cv_P c).

Theorem curve_set_roundtrip (PP : PPfun ROps) (m : Mixture ROps) mem mix com (ics : list (nat * Curve ROps)) :
  StronglySorted lt (map fst ics) -> Forall (fun ic => curve_storable (snd ic)) ics ->
  exists tables, mapM (fun ic => save_curve ROps (fst ic) mem mix com (snd ic)) ics = Ok tables /\
    load_set ROps PP m (concat tables) = Ok (map snd ics).
Proof.
  intros Hs Hok.
  assert (H : exists tables, mapM (fun ic => save_curve ROps (fst ic) mem mix com (snd ic)) ics = Ok tables /\
             length tables = length ics /\
             Forall (block_ok ROps) (combine (map fst ics) tables) /\
             mapM (fun b => load_curve ROps PP m (snd b)) (combine (map fst ics) tables) = Ok (map snd ics)).
  { clear Hs. induction Hok as [|[k c] ics [Hne [HJ [HP [Hx Hwf]]]] _ IH].
    - exists []. repeat split; constructor.
    - destruct IH as [ts [Hsave [Hlen [Hb Hl]]]]. cbn [fst snd] in *.
      destruct (curve_roundtrip_weight PP m k mem mix com c Hne HJ HP Hx Hwf) as [tb [Hs1 Hl1]].
      exists (tb :: ts). cbn [mapM map fst snd combine length]. rewrite Hs1. cbn [bind]. rewrite Hsave. cbn [bind].
      repeat split; [rewrite Hlen; reflexivity| |].
      + constructor; [|exact Hb]. split; cbn [fst snd].
        * intros ->. unfold load_curve in Hl1. discriminate.
        * eapply save_curve_rows_id; exact Hs1.
      + cbn [snd]. rewrite Hl1. cbn [bind]. rewrite Hl. reflexivity. }
  destruct H as [ts [Hsave [Hlen [Hb Hl]]]]. exists ts. split; [exact Hsave|].
  assert (E1 : map snd (combine (map fst ics) ts) = ts).
  { clear -Hlen. revert ts Hlen. induction ics as [|ic ics IH]; intros [|t ts] H; try discriminate; [reflexivity|].
    cbn. f_equal. apply IH. cbn in H. lia. }
  assert (E2 : map fst (combine (map fst ics) ts) = map fst ics).
  { clear -Hlen. revert ts Hlen. induction ics as [|ic ics IH]; intros [|t ts] H; try discriminate; [reflexivity|].
    cbn. f_equal. apply IH. cbn in H. lia. }
  rewrite <- E1. rewrite (load_set_blocks ROps PP m (combine (map fst ics) ts) Hb); [exact Hl|].
  rewrite E2. exact Hs.
Qed.
