(* Clausius-Clapeyron consistency of vapour pressure / vaporisation heat, and the cooling heat as
   the integral of the specific heat (property C13). *)
From Coq Require Import Reals Lra ZArith Psatz.
From Coquelicot Require Import Coquelicot.
From PV Require Import Num PyBase Model.Component Lemmas.RTac.
Local Open Scope R_scope.

Definition Rg : R := 8314462 / 10 ^ 6.
Lemma Rgas_R : Rgas ROps = Rg. Proof. reflexivity. Qed.
Lemma negRgas_R : negRgas ROps = - Rg.
Proof. unfold negRgas, Rg. rnum. field. Qed.

Definition mkC (t : VPType) (a b c : R) (h : HCConst ROps) : Component ROps :=
  Build_Component ROps 0 1 (Build_VPConst ROps t a b c) h None.

(* the saturation pressure as a total real function of the temperature *)
Definition psat (k : Component ROps) (T : R) : R :=
  match vapor_pressure ROps k T with Ok p => p | Err _ => 0 end.
Definition hvap (k : Component ROps) (T : R) : R :=
  match vaporisation_heat ROps k T with Ok p => p | Err _ => 0 end.

Lemma ln_Rpower x y : ln (Rpower x y) = y * ln x.
Proof. unfold Rpower. apply ln_exp. Qed.

Section Antoine.
  Variable k : Component ROps.
  Hypothesis Hty : vp_type (vpc k) = Antoine.
  Let a := vp_a (vpc k). Let b := vp_b (vpc k). Let c := vp_c (vpc k).

  Lemma psat_antoine T : psat k T = Rpower 10 (a + b / (T + c)).
  Proof. unfold psat, vapor_pressure. rewrite Hty. reflexivity. Qed.

  Lemma hvap_antoine T : hvap k T = - ((T / (T + c)) ^ 2 * Rg * b * ln 10) / 1000.
  Proof. unfold hvap, vaporisation_heat. rewrite Hty. reflexivity. Qed.

  Lemma lnpsat_antoine_derive T : T + c <> 0 ->
    is_derive (fun t => ln (psat k t)) T (- b * ln 10 / (T + c) ^ 2).
  Proof.
    intros Hp.
    apply is_derive_ext_loc with (f := fun t => (a + b / (t + c)) * ln 10).
    - exists (mkposreal 1 Rlt_0_1). intros t _. rewrite psat_antoine, ln_Rpower. reflexivity.
    - auto_derive; [exact Hp | field; exact Hp].
  Qed.

  (* Clausius-Clapeyron: 1000 * H(T) = R T^2 dln(Psat)/dT *)
  Lemma clausius_clapeyron_antoine T : T + c <> 0 ->
    1000 * hvap k T = Rg * T ^ 2 * Derive (fun t => ln (psat k t)) T.
  Proof.
    intros Hp.
    assert (E : Derive (fun t => ln (psat k t)) T = - b * ln 10 / (T + c) ^ 2)
      by (apply is_derive_unique, lnpsat_antoine_derive; exact Hp).
    rewrite E, hvap_antoine. field. exact Hp.
  Qed.
End Antoine.

Section Frost.
  Variable k : Component ROps.
  Hypothesis Hty : vp_type (vpc k) = Frost.
  Let a := vp_a (vpc k). Let b := vp_b (vpc k). Let c := vp_c (vpc k).

  Lemma psat_frost T : psat k T = exp (a + b / T + c / T ^ 2).
  Proof. unfold psat, vapor_pressure. rewrite Hty. reflexivity. Qed.

  Lemma hvap_frost T : hvap k T = - Rg * (b + 2 * c / T) / 1000.
  Proof. unfold hvap, vaporisation_heat. rewrite Hty. rewrite negRgas_R. reflexivity. Qed.

  Lemma lnpsat_frost_derive T : T <> 0 ->
    is_derive (fun t => ln (psat k t)) T (- b / T ^ 2 - 2 * c / T ^ 3).
  Proof.
    intros Hp.
    apply is_derive_ext with (f := fun t => a + b / t + c / t ^ 2).
    - intros t. rewrite psat_frost, ln_exp. reflexivity.
    - auto_derive; [ nzr | field; exact Hp ].
  Qed.

  Lemma clausius_clapeyron_frost T : T <> 0 ->
    1000 * hvap k T = Rg * T ^ 2 * Derive (fun t => ln (psat k t)) T.
  Proof.
    intros Hp.
    assert (E : Derive (fun t => ln (psat k t)) T = - b / T ^ 2 - 2 * c / T ^ 3)
      by (apply is_derive_unique, lnpsat_frost_derive; exact Hp).
    rewrite E, hvap_frost. field. exact Hp.
  Qed.
End Frost.

(* ---- cooling heat = integral of the specific heat ---- *)
Section Cooling.
  Variable k : Component ROps.
  Let cp := specific_heat ROps k.
  Let cool := cooling_heat ROps k.

  Definition cp_anti (t : R) : R :=
    let h := hcc k in
    hc_a h * t + hc_b h * t ^ 2 / 2 + hc_c h * t ^ 3 / 3 + hc_d h * t ^ 4 / 4.

  Lemma cool_anti t0 t1 : cool t0 t1 = cp_anti t0 - cp_anti t1.
  Proof. unfold cool, cooling_heat, cp_anti. rnum. field. Qed.

  Lemma cp_anti_derive t : is_derive cp_anti t (cp t).
  Proof.
    unfold cp_anti, cp, specific_heat. rnum. auto_derive; [exact I | field].
  Qed.

  Lemma cp_continuous t : continuous cp t.
  Proof.
    unfold cp, specific_heat. rnum.
    apply (ex_derive_continuous (fun t => hc_a (hcc k) + hc_b (hcc k) * t + hc_c (hcc k) * t ^ 2 + hc_d (hcc k) * t ^ 3)).
    auto_derive. exact I.
  Qed.

  Lemma cool_is_integral t0 t1 : is_RInt cp t1 t0 (cool t0 t1).
  Proof.
    rewrite cool_anti.
    apply (is_RInt_derive cp_anti cp).
    - intros x _. apply cp_anti_derive.
    - intros x _. apply cp_continuous.
  Qed.

  Lemma cool_additive t0 t1 t2 : cool t0 t1 + cool t1 t2 = cool t0 t2.
  Proof. rewrite !cool_anti. rnum. ring. Qed.
  Lemma cool_antisym t0 t1 : cool t0 t1 = - cool t1 t0.
  Proof. rewrite !cool_anti. rnum. ring. Qed.
  Lemma cool_zero t : cool t t = 0.
  Proof. rewrite cool_anti. rnum. ring. Qed.
  Lemma cool_derive_upper t0 t1 : is_derive (fun t => cool t t1) t0 (cp t0).
  Proof.
    unfold cool, cooling_heat, cp, specific_heat. rnum. auto_derive; [exact I | field].
  Qed.
End Cooling.
