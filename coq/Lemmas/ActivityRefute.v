(* Finding F1: the UNIQUAC formula as written in mixture.py violates Gibbs-Duhem - a concrete witness, verified with
   interval arithmetic (Interval).  Kept in a file of its own: the reflexive interval computation is checked by the kernel's
   virtual machine in seconds, but the independent checker coqchk (no VM) does not finish on it within hours, so the
   thorough tier runs coqchk on everything except this file (DESIGN.md section 8). *)
From Coq Require Import Reals Lra.
From Coquelicot Require Import Coquelicot.
From Interval Require Import Tactic.
From PV Require Import Num PyBase Model.Component Model.Mixture Lemmas.RTac Lemmas.Composition Lemmas.Thermo Lemmas.Activity.
Local Open Scope R_scope.


Definition wit_u : UQParams ROps := Build_UQParams ROps (ln 2) (- ln 2) 0 0 10.
Definition wit_k : UQConst ROps := Build_UQConst ROps 1 1 1.

Lemma uniquac_asis_GD_refuted :
  (1/2) * Derive (fun y => ln (fst (uniquac_gamma_gen ROps false wit_u wit_k wit_k 1 y (1 - y)))) (1/2)
  + (1 - 1/2) * Derive (fun y => ln (snd (uniquac_gamma_gen ROps false wit_u wit_k wit_k 1 y (1 - y)))) (1/2) > 1/10.
Proof.
  rewrite (Derive_ext _ (ulng1 1 1 1 1 1 1 10 (uq_t12 wit_u 1) (uq_t21 wit_u 1)))
    by (intros y; rewrite uniquac_gamma_R; cbn [fst]; apply ln_exp).
  rewrite (Derive_ext (fun y => ln (snd _)) (ulng2 1 1 1 1 1 1 10 (uq_t12 wit_u 1) (uq_t21 wit_u 1) false))
    by (intros y; rewrite uniquac_gamma_R; cbn [snd]; apply ln_exp).
  unfold uq_t12, uq_t21, wit_u. cbn [ualpha12 ualpha21 ubeta12 ubeta21].
  evar (l1 : R). assert (H1 : is_derive (ulng1 1 1 1 1 1 1 10 (exp (- (ln 2 + 0 / 1) / 1)) (exp (- (- ln 2 + 0 / 1) / 1))) (1/2) l1).
  { unfold ulng1, ul. auto_derive; [ repeat split; try exact I; try (apply Rgt_not_eq); interval | unfold l1; reflexivity ]. }
  evar (l2 : R). assert (H2 : is_derive (ulng2 1 1 1 1 1 1 10 (exp (- (ln 2 + 0 / 1) / 1)) (exp (- (- ln 2 + 0 / 1) / 1)) false) (1/2) l2).
  { unfold ulng2, ubracket, ul. auto_derive; [ repeat split; try exact I; try (apply Rgt_not_eq); interval | unfold l2; reflexivity ]. }
  rewrite (is_derive_unique _ _ _ H1), (is_derive_unique _ _ _ H2). unfold l1, l2.
  interval.
Qed.
