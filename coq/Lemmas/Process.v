(* Proofs about the process loops (properties C01, C03, C08, C11, C18). *)
From Coq Require Import Reals Lra ZArith Bool Arith Psatz Lia List.
From PV Require Import Num PyBase Model.Component Model.Mixture Model.Permeance Model.Solver Model.Process
  Lemmas.RTac Lemmas.Composition.
Import ListNotations.
Local Open Scope R_scope.

Notation RState := (PState ROps).
Notation RRow := (PRow ROps).

Lemma mk_comp_R_inv p t c : mk_comp ROps p t = Ok c -> 0 <= p <= 1 /\ c = RC p t.
Proof.
  intros H. assert (0 <= p <= 1) as Hp by (apply (mk_comp_R_iff p t); eexists; exact H).
  split; [exact Hp|]. rewrite mk_comp_R_ok in H by exact Hp. injection H as <-. reflexivity.
Qed.

Lemma mk_permeance_m_R v u : mk_permeance_m ROps v u = Ok (mk_permeance ROps v u).
Proof. unfold mk_permeance_m, mk_permeance. destruct (leb ROps (ilit ROps 0) v); reflexivity. Qed.

Section Run.
  Variable kind : PKind.
  Variable m : Mixture ROps.
  Variable cd : Conditions ROps.
  Variables (dt prec : R) (ct : ActModel).
  Variable slv : SolveArgs ROps -> res (R * R).
  Variable perm : R -> Component ROps -> res (Permeance ROps).
  Variables (f1 f2 : PervFn ROps) (FR1 FR2 : R).

  Notation step := (step ROps kind m cd dt prec ct slv perm f1 f2 FR1 FR2).
  Notation run_from := (run_from ROps kind m cd dt prec ct slv perm f1 f2 FR1 FR2).

  Definition step_args (st : RState) (P : Permeance ROps * Permeance ROps) : SolveArgs ROps :=
    Build_SolveArgs ROps (st_T st) (st_x st) prec (cd_Tp cd) (cd_pp cd) (Some (fst P)) (Some (snd P)) ct.

  (* everything one successful step establishes *)
  Record StepFacts (k : nat) (st : RState) (row : RRow) (st' : RState) : Prop := {
    sf_time : r_time row = dt * INR k;
    sf_m : r_m row = st_m st;
    sf_x : r_x row = st_x st;
    sf_T : r_T row = st_T st;
    sf_perm : step_permeances ROps kind m perm st = Ok (r_P row);
    sf_solve : slv (step_args st (r_P row)) = Ok (r_J row);
    sf_y : r_y row = RC (fst (r_J row) / (0 + fst (r_J row) + snd (r_J row))) Weight
           /\ 0 <= fst (r_J row) / (0 + fst (r_J row) + snd (r_J row)) <= 1;
    sf_evap : exists e1 e2, latent_per_kg ROps (c1 m) (st_T st) = Ok e1 /\ latent_per_kg ROps (c2 m) (st_T st) = Ok e2 /\
              r_Q row = e1 * (fst (r_J row) * cd_A cd * dt) + e2 * (snd (r_J row) * cd_A cd * dt);
    sf_cond : (r_Qc row = None <-> cd_Tp cd = None)
              /\ cond_heat ROps m cd (st_T st) (fst (r_J row) * cd_A cd * dt) (snd (r_J row) * cd_A cd * dt) = Ok (r_Qc row);
    sf_mass : st_m st' = st_m st - fst (r_J row) * cd_A cd * dt - snd (r_J row) * cd_A cd * dt;
    sf_mass_pos : 0 < st_m st';
    sf_comp : ctype (st_x st') = Weight /\ 0 <= cp (st_x st') <= 1 /\
              cp (st_x st') * st_m st' = cp (st_x st) * st_m st - fst (r_J row) * cd_A cd * dt;
    sf_temp : next_temperature ROps kind m cd dt k st (r_Q row) = Ok (st_T st');
    sf_nextperm : next_permeances ROps kind cd f1 f2 FR1 FR2 st (st_x st') (st_T st') = Ok (st_P st') }.

  Lemma INR_ilit k : ilit ROps (Z.of_nat k) = INR k.
  Proof. unfold ilit. rnum. symmetry. apply INR_IZR_INZ. Qed.

  Lemma step_facts k st row st' : step k st = Ok (row, st') -> StepFacts k st row st'.
  Proof.
    unfold Process.step. intros H.
    destruct (latent_per_kg ROps (c1 m) (st_T st)) as [e1|?] eqn:E1; [|discriminate]. cbn [bind] in H.
    destruct (latent_per_kg ROps (c2 m) (st_T st)) as [e2|?] eqn:E2; [|discriminate]. cbn [bind] in H.
    destruct (step_permeances ROps kind m perm st) as [P|?] eqn:EP; [|discriminate]. cbn [bind] in H.
    destruct (slv _) as [J|?] eqn:EJ; [|discriminate]. cbn [bind] in H.
    destruct (mk_comp ROps _ Weight) as [y|?] eqn:EY; [|discriminate]. cbn [bind] in H.
    destruct (cond_heat ROps m cd (st_T st) _ _) as [Qc|?] eqn:EQ; [|discriminate]. cbn [bind] in H.
    destruct (ltb ROps (ilit ROps 0) _) eqn:EM; [|discriminate].
    destruct (mk_comp ROps _ Weight) as [x'|?] eqn:EX in H; [|discriminate]. cbn [bind] in H.
    destruct (next_temperature ROps kind m cd dt k st _) as [T'|?] eqn:ET; [|discriminate]. cbn [bind] in H.
    destruct (next_permeances ROps kind cd f1 f2 FR1 FR2 st x' T') as [P'|?] eqn:EN; [|discriminate]. cbn [bind] in H.
    injection H as <- <-.
    apply mk_comp_R_inv in EY. destruct EY as [Hy ->].
    apply mk_comp_R_inv in EX. destruct EX as [Hx ->].
    rnum. apply Rltb_true in EM.
    constructor; cbn [r_time r_m r_x r_T r_P r_J r_y r_Q r_Qc st_m st_x st_T st_P cp ctype]; rnum.
    - rewrite INR_ilit. reflexivity.
    - reflexivity.
    - reflexivity.
    - reflexivity.
    - exact EP.
    - exact EJ.
    - split; [reflexivity | exact Hy].
    - exists e1, e2. repeat split; assumption.
    - split; [| exact EQ].
      unfold cond_heat in EQ. destruct (cd_Tp cd) as [tp|].
      + destruct (latent_per_kg ROps (c1 m) tp); [|discriminate]. cbn [bind] in EQ.
        destruct (latent_per_kg ROps (c2 m) tp); [|discriminate]. cbn [bind] in EQ.
        injection EQ as <-. split; discriminate.
      + injection EQ as <-. split; reflexivity.
    - reflexivity.
    - exact EM.
    - split; [reflexivity|]. split; [exact Hx|]. field. lra.
    - exact ET.
    - exact EN.
  Qed.

  (* ---- chains of steps ---- *)
  Inductive Chain : nat -> RState -> list RRow -> RState -> Prop :=
  | chain_nil k st : Chain k st [] st
  | chain_cons k st row st' rows stf :
      step k st = Ok (row, st') -> Chain (S k) st' rows stf -> Chain k st (row :: rows) stf.

  Lemma run_from_chain n k st rows :
    run_from n k st = Ok rows -> length rows = n /\ exists stf, Chain k st rows stf.
  Proof.
    revert k st rows. induction n as [|n IH]; intros k st rows; cbn [Process.run_from].
    - intros H; injection H as <-. split; [reflexivity|]. exists st. constructor.
    - destruct (step k st) as [[row st']|?] eqn:ES; [|discriminate]. cbn [bind fst snd].
      destruct (run_from n (S k) st') as [rs|?] eqn:ER; [|discriminate]. cbn [bind].
      intros H; injection H as <-. destruct (IH _ _ _ ER) as [HL [stf HC]].
      split; [cbn; congruence|]. exists stf. econstructor; eassumption.
  Qed.

  (* the i-th reported row is produced by a step from a state whose successor produces row i+1 *)
  Lemma chain_nth k st rows stf i row :
    Chain k st rows stf -> nth_error rows i = Some row ->
    exists sti sti', step (k + i) sti = Ok (row, sti') /\
      (i = 0%nat -> sti = st) /\
      (forall row', nth_error rows (S i) = Some row' -> exists stj, step (k + S i) sti' = Ok (row', stj)) /\
      (nth_error rows (S i) = None -> sti' = stf).
  Proof.
    intros HC. revert i row. induction HC as [k st | k st r st' rows stf Hs HC IH]; intros i row Hn.
    - destruct i; discriminate.
    - destruct i as [|i].
      + cbn in Hn. injection Hn as <-. exists st, st'. rewrite Nat.add_0_r. repeat split; try assumption.
        * intros row' Hr. cbn in Hr. inversion HC as [|? ? r2 st2 rs2 ? Hs2 HC2]; subst; cbn in Hr; [discriminate|].
          injection Hr as <-. exists st2. rewrite Nat.add_1_r. exact Hs2.
        * intros Hr. cbn in Hr. inversion HC; subst; [reflexivity | discriminate].
      + cbn in Hn. destruct (IH _ _ Hn) as [sti [sti' [H1 [H2 [H3 H4]]]]].
        exists sti, sti'. replace (k + S i)%nat with (S k + i)%nat by lia.
        repeat split; try assumption.
        * intros Hc; discriminate.
        * intros row' Hr. cbn in Hr. replace (k + S (S i))%nat with (S k + S i)%nat by lia. apply H3. exact Hr.
  Qed.
End Run.

(* ================= consequences used by the property files ================= *)
Section Consequences.
  Variable kind : PKind.
  Variable m : Mixture ROps.
  Variable cd : Conditions ROps.
  Variables (dt prec : R) (ct : ActModel).
  Variable slv : SolveArgs ROps -> res (R * R).
  Variable perm : R -> Component ROps -> res (Permeance ROps).
  Variables (f1 f2 : PervFn ROps) (FR1 FR2 : R).
  Notation step := (Process.step ROps kind m cd dt prec ct slv perm f1 f2 FR1 FR2).
  Notation run_from := (Process.run_from ROps kind m cd dt prec ct slv perm f1 f2 FR1 FR2).
  Notation Chain := (Chain kind m cd dt prec ct slv perm f1 f2 FR1 FR2).
  Notation A := (cd_A cd).

  Variables (n k : nat) (st : RState) (rows : list RRow).
  Hypothesis Hrun : run_from n k st = Ok rows.

  Lemma rows_length : length rows = n.
  Proof. exact (proj1 (run_from_chain _ _ _ _ _ _ _ _ _ _ _ _ _ _ _ _ Hrun)). Qed.

  Lemma row_facts i row : nth_error rows i = Some row ->
    exists sti sti', StepFacts kind m cd dt prec ct slv perm f1 f2 FR1 FR2 (k + i) sti row sti' /\ (i = 0%nat -> sti = st)
      /\ (forall row', nth_error rows (S i) = Some row' ->
            exists stj, StepFacts kind m cd dt prec ct slv perm f1 f2 FR1 FR2 (k + S i) sti' row' stj).
  Proof.
    intros Hn. destruct (run_from_chain _ _ _ _ _ _ _ _ _ _ _ _ _ _ _ _ Hrun) as [_ [stf HC]].
    destruct (chain_nth _ _ _ _ _ _ _ _ _ _ _ _ _ _ _ _ _ _ HC Hn) as [sti [sti' [H1 [H2 [H3 _]]]]].
    exists sti, sti'. split; [apply step_facts; exact H1|]. split; [exact H2|].
    intros row' Hr. destruct (H3 _ Hr) as [stj Hj]. exists stj. apply step_facts. exact Hj.
  Qed.

  (* C01: initial state and time grid *)
  Lemma first_row row : nth_error rows 0 = Some row ->
    r_m row = st_m st /\ r_x row = st_x st /\ r_T row = st_T st.
  Proof.
    intros Hn. destruct (row_facts _ _ Hn) as [sti [sti' [F [H0 _]]]]. rewrite <- (H0 eq_refl).
    destruct F. repeat split; assumption.
  Qed.
  Lemma time_grid i row : nth_error rows i = Some row -> r_time row = dt * INR (k + i).
  Proof. intros Hn. destruct (row_facts _ _ Hn) as [sti [sti' [F _]]]. destruct F. assumption. Qed.

  (* C01: total and first-component mass balance between consecutive reported states *)
  Lemma mass_balance i row row' : nth_error rows i = Some row -> nth_error rows (S i) = Some row' ->
    r_m row' = r_m row - (fst (r_J row) + snd (r_J row)) * A * dt
    /\ cp (r_x row') * r_m row' = cp (r_x row) * r_m row - fst (r_J row) * A * dt
    /\ ctype (r_x row') = Weight.
  Proof.
    intros Hn Hn'. destruct (row_facts _ _ Hn) as [sti [sti' [F [_ Hnext]]]].
    destruct (Hnext _ Hn') as [stj F'].
    destruct F as [_ Fm Fx _ _ _ _ _ _ Fmass _ Fcomp _ _]. destruct F' as [_ Fm' Fx' _ _ _ _ _ _ _ _ _ _ _].
    rewrite Fm', Fx', Fm, Fx. destruct Fcomp as [C1 [C2 C3]].
    repeat split; [rewrite Fmass; rnum; ring | exact C3 | exact C1].
  Qed.

  (* C03: evaporation heat, condensation heat, next temperature *)
  Lemma heat_row i row : nth_error rows i = Some row ->
    (exists e1 e2, latent_per_kg ROps (c1 m) (r_T row) = Ok e1 /\ latent_per_kg ROps (c2 m) (r_T row) = Ok e2 /\
       r_Q row = e1 * (fst (r_J row) * A * dt) + e2 * (snd (r_J row) * A * dt))
    /\ (r_Qc row = None <-> cd_Tp cd = None)
    /\ cond_heat ROps m cd (r_T row) (fst (r_J row) * A * dt) (snd (r_J row) * A * dt) = Ok (r_Qc row).
  Proof.
    intros Hn. destruct (row_facts _ _ Hn) as [sti [sti' [F _]]].
    destruct F as [_ _ _ FT _ _ _ Fe Fc _ _ _ _ _]. rewrite FT. destruct Fc as [Fc1 Fc2]. exact (conj Fe (conj Fc1 Fc2)).
  Qed.

  Lemma temperature_next i row row' : nth_error rows i = Some row -> nth_error rows (S i) = Some row' ->
    exists sti, r_m row = st_m sti /\ r_x row = st_x sti /\ r_T row = st_T sti /\
      next_temperature ROps kind m cd dt (k + i) sti (r_Q row) = Ok (r_T row').
  Proof.
    intros Hn Hn'. destruct (row_facts _ _ Hn) as [sti [sti' [F [_ Hnext]]]].
    destruct (Hnext _ Hn') as [stj F']. exists sti.
    destruct F as [_ Fm Fx FT _ _ _ _ _ _ _ _ Ftemp _]. destruct F' as [_ _ _ FT' _ _ _ _ _ _ _ _ _ _].
    rewrite FT'. exact (conj Fm (conj Fx (conj FT Ftemp))).
  Qed.

  (* C08: every reported flux pair is the solver's answer at the reported state of that step *)
  Lemma flux_is_solver i row : nth_error rows i = Some row ->
    slv (Build_SolveArgs ROps (r_T row) (r_x row) prec (cd_Tp cd) (cd_pp cd)
           (Some (fst (r_P row))) (Some (snd (r_P row))) ct) = Ok (r_J row)
    /\ r_y row = RC (fst (r_J row) / (0 + fst (r_J row) + snd (r_J row))) Weight.
  Proof.
    intros Hn. destruct (row_facts _ _ Hn) as [sti [sti' [F _]]].
    destruct F as [_ _ Fx FT _ Fs Fy _ _ _ _ _ _ _]. rewrite Fx, FT. split; [exact Fs | exact (proj1 Fy)].
  Qed.

  (* C18: admissibility of every reported state *)
  Lemma admissible i row : 0 < st_m st -> 0 <= cp (st_x st) <= 1 -> nth_error rows i = Some row ->
    0 < r_m row /\ 0 <= cp (r_x row) <= 1 /\ 0 <= cp (r_y row) <= 1.
  Proof.
    intros Hm0 Hx0 Hn.
    assert (Hy : 0 <= cp (r_y row) <= 1).
    { destruct (row_facts _ _ Hn) as [sti [sti' [F _]]]. destruct F as [_ _ _ _ _ _ Fy _ _ _ _ _ _ _].
      destruct Fy as [-> Hy]. exact Hy. }
    destruct i as [|i].
    - destruct (first_row _ Hn) as [-> [-> _]]. exact (conj Hm0 (conj Hx0 Hy)).
    - destruct (nth_error rows i) as [prev|] eqn:Ep.
      + destruct (row_facts _ _ Ep) as [sti [sti' [F [_ Hnext]]]]. destruct (Hnext _ Hn) as [stj F'].
        destruct F as [_ _ _ _ _ _ _ _ _ _ Fpos Fcomp _ _]. destruct F' as [_ Fm' Fx' _ _ _ _ _ _ _ _ _ _ _].
        rewrite Fm', Fx'. destruct Fcomp as [_ [C2 _]]. exact (conj Fpos (conj C2 Hy)).
      + exfalso. apply nth_error_None in Ep. assert (nth_error rows (S i) <> None) by congruence.
        apply nth_error_Some in H. lia.
  Qed.

  Lemma temperature_positive i row : is_iso kind = false -> nth_error rows (S i) = Some row -> 0 < r_T row.
  Proof.
    intros Hk Hn. destruct (nth_error rows i) as [prev|] eqn:Ep.
    - destruct (temperature_next _ _ _ Ep Hn) as [sti [_ [_ [_ HT]]]].
      unfold next_temperature in HT. rewrite Hk in HT.
      match type of HT with (bind ?X _ = _) => destruct X as [T'|?]; [|discriminate] end.
      cbn [bind] in HT. destruct (ltb ROps (ilit ROps 0) T') eqn:E; [|discriminate].
      injection HT as <-. rnum. apply Rltb_true in E. exact E.
    - exfalso. apply nth_error_None in Ep. assert (nth_error rows (S i) <> None) by congruence.
      apply nth_error_Some in H. lia.
  Qed.

  Lemma temperature_iso i row : is_iso kind = true -> nth_error rows i = Some row -> r_T row = st_T st.
  Proof.
    intros Hk. revert row. induction i as [|i IH]; intros row Hn.
    - exact (proj2 (proj2 (first_row _ Hn))).
    - destruct (nth_error rows i) as [prev|] eqn:Ep.
      + destruct (temperature_next _ _ _ Ep Hn) as [sti [_ [_ [HTs HT]]]].
        unfold next_temperature in HT. rewrite Hk in HT. injection HT as <-. rewrite <- HTs. apply IH. reflexivity.
      + exfalso. apply nth_error_None in Ep. assert (nth_error rows (S i) <> None) by congruence.
        apply nth_error_Some in H. lia.
  Qed.
End Consequences.

(* ================= scaling (C11) ================= *)
Lemma scale_div s Q c mm : s <> 0 -> s * Q / (c * (s * mm)) = Q / (c * mm).
Proof.
  intros Hs. unfold Rdiv. rewrite !Rinv_mult.
  replace (s * Q * (/ c * (/ s * / mm))) with ((s * / s) * (Q * (/ c * / mm))) by ring.
  rewrite Rinv_r by exact Hs. ring.
Qed.

Section Scaling.
  Variable kind : PKind.
  Variable m : Mixture ROps.
  Variables (cd cd' : Conditions ROps).
  Variables (dt dt' prec : R) (ct : ActModel).
  Variable slv : SolveArgs ROps -> res (R * R).
  Variable perm : R -> Component ROps -> res (Permeance ROps).
  Variables (f1 f2 : PervFn ROps) (FR1 FR2 : R).
  Variable s : R.
  Hypothesis Hs : 0 < s.
  (* the two runs differ only in area / step length (with A' dt' = s A dt) and, through the states, in feed mass *)
  Hypothesis HAdt : cd_A cd' * dt' = s * (cd_A cd * dt).
  Hypothesis HT0 : cd_T0 cd' = cd_T0 cd.
  Hypothesis HTp : cd_Tp cd' = cd_Tp cd.
  Hypothesis Hpp : cd_pp cd' = cd_pp cd.
  Hypothesis Hprog : cd_prog cd' = cd_prog cd.
  Hypothesis Hdt : dt' = dt \/ (cd_prog cd = None).

  Definition scale_st (st : RState) : RState := Build_PState ROps (s * st_m st) (st_x st) (st_T st) (st_P st).
  Definition scale_row (k : nat) (r : RRow) : RRow :=
    Build_PRow ROps (dt' * INR k) (s * r_m r) (r_x r) (r_T r) (r_P r) (r_J r) (r_y r) (s * r_Q r)
      (match r_Qc r with Some q => Some (s * q) | None => None end).

  Lemma cond_heat_scale T d1 d2 q :
    cond_heat ROps m cd T d1 d2 = Ok q ->
    cond_heat ROps m cd' T (s * d1) (s * d2) = Ok (match q with Some v => Some (s * v) | None => None end).
  Proof.
    unfold cond_heat. rewrite HTp. destruct (cd_Tp cd) as [tp|].
    - set (s1 := cooling_heat ROps (c1 m) T tp). set (s2 := cooling_heat ROps (c2 m) T tp).
      destruct (latent_per_kg ROps (c1 m) tp) as [k1|]; [|discriminate]. cbn [bind].
      destruct (latent_per_kg ROps (c2 m) tp) as [k2|]; [|discriminate]. cbn [bind].
      intros H; injection H as <-. rnum. do 2 f_equal. ring.
    - intros H; injection H as <-. reflexivity.
  Qed.

  Lemma next_temperature_scale k st Q T' :
    next_temperature ROps kind m cd dt k st Q = Ok T' ->
    next_temperature ROps kind m cd' dt' k (scale_st st) (s * Q) = Ok T'.
  Proof.
    unfold next_temperature. destruct (is_iso kind); [intros H; exact H|].
    rewrite Hprog. destruct (cd_prog cd) as [pr|] eqn:Epr.
    - destruct Hdt as [-> | Hc]; [|discriminate]. intros H; exact H.
    - cbn [bind scale_st st_T st_x st_m]. rnum. rewrite scale_div by lra. intros H; exact H.
  Qed.

  Lemma step_scale k st row st' :
    Process.step ROps kind m cd dt prec ct slv perm f1 f2 FR1 FR2 k st = Ok (row, st') ->
    Process.step ROps kind m cd' dt' prec ct slv perm f1 f2 FR1 FR2 k (scale_st st) = Ok (scale_row k row, scale_st st').
  Proof.
    unfold Process.step. intros H.
    cbn [scale_st st_T st_x st_m st_P].
    destruct (latent_per_kg ROps (c1 m) (st_T st)) as [e1|?]; [|discriminate]. cbn [bind] in *.
    destruct (latent_per_kg ROps (c2 m) (st_T st)) as [e2|?]; [|discriminate]. cbn [bind] in *.
    replace (step_permeances ROps kind m perm (scale_st st))
      with (step_permeances ROps kind m perm st) by (unfold step_permeances; destruct kind; reflexivity).
    destruct (step_permeances ROps kind m perm st) as [P|?]; [|discriminate]. cbn [bind] in *.
    rewrite HTp, Hpp.
    destruct (slv _) as [J|?]; [|discriminate]. cbn [bind] in *.
    destruct (mk_comp ROps _ Weight) as [y|?] eqn:EY; [|discriminate]. cbn [bind] in *.
    rnum.
    assert (D1 : fst J * cd_A cd' * dt' = s * (fst J * cd_A cd * dt)) by (rewrite Rmult_assoc, HAdt; ring).
    assert (D2 : snd J * cd_A cd' * dt' = s * (snd J * cd_A cd * dt)) by (rewrite Rmult_assoc, HAdt; ring).
    rewrite D1, D2.
    destruct (cond_heat ROps m cd (st_T st) _ _) as [Qc|?] eqn:EQ; [|discriminate]. cbn [bind] in *.
    rewrite (cond_heat_scale _ _ _ _ EQ). cbn [bind].
    destruct (Rltb 0 (st_m st - fst J * cd_A cd * dt - snd J * cd_A cd * dt)) eqn:EM; [|discriminate].
    apply Rltb_true in EM.
    assert (EM' : Rltb 0 (s * st_m st - s * (fst J * cd_A cd * dt) - s * (snd J * cd_A cd * dt)) = true)
      by (apply Rltb_true; nra).
    rewrite EM'.
    replace ((cp (st_x st) * (s * st_m st) - s * (fst J * cd_A cd * dt)) /
             (s * st_m st - s * (fst J * cd_A cd * dt) - s * (snd J * cd_A cd * dt)))
      with ((cp (st_x st) * st_m st - fst J * cd_A cd * dt) / (st_m st - fst J * cd_A cd * dt - snd J * cd_A cd * dt))
      by (field; repeat split; try lra; apply Rgt_not_eq; nra).
    destruct (mk_comp ROps _ Weight) as [x'|?] in H |- *; [|discriminate]. cbn [bind] in *.
    destruct (next_temperature ROps kind m cd dt k st _) as [T'|?] eqn:ET; [|discriminate]. cbn [bind] in *.
    replace (e1 * (s * (fst J * cd_A cd * dt)) + e2 * (s * (snd J * cd_A cd * dt)))
      with (s * (e1 * (fst J * cd_A cd * dt) + e2 * (snd J * cd_A cd * dt))) by ring.
    rewrite (next_temperature_scale _ _ _ _ ET). cbn [bind].
    replace (next_permeances ROps kind cd' f1 f2 FR1 FR2 (scale_st st) x' T')
      with (next_permeances ROps kind cd f1 f2 FR1 FR2 st x' T')
      by (unfold next_permeances, scale_st; cbn [st_x st_P]; rewrite HT0; reflexivity).
    destruct (next_permeances ROps kind cd f1 f2 FR1 FR2 st x' T') as [P'|?]; [|discriminate]. cbn [bind] in *.
    injection H as <- <-. unfold scale_row, scale_st.
    cbn [r_time r_m r_x r_T r_P r_J r_y r_Q r_Qc st_m st_x st_T st_P]. rewrite INR_ilit.
    do 2 f_equal. f_equal; ring.
  Qed.

  Fixpoint scale_rows (k : nat) (rows : list RRow) : list RRow :=
    match rows with [] => [] | r :: t => scale_row k r :: scale_rows (S k) t end.

  Lemma run_scale n k st rows :
    Process.run_from ROps kind m cd dt prec ct slv perm f1 f2 FR1 FR2 n k st = Ok rows ->
    Process.run_from ROps kind m cd' dt' prec ct slv perm f1 f2 FR1 FR2 n k (scale_st st) = Ok (scale_rows k rows).
  Proof.
    revert k st rows. induction n as [|n IH]; intros k st rows; cbn [Process.run_from].
    - intros H; injection H as <-. reflexivity.
    - destruct (Process.step ROps kind m cd dt prec ct slv perm f1 f2 FR1 FR2 k st) as [[row st']|?] eqn:ES; [|discriminate].
      cbn [bind fst snd]. rewrite (step_scale _ _ _ _ ES). cbn [bind fst snd].
      destruct (Process.run_from ROps kind m cd dt prec ct slv perm f1 f2 FR1 FR2 n (S k) st') as [rs|?] eqn:ER; [|discriminate].
      cbn [bind]. rewrite (IH _ _ _ ER). cbn [bind]. intros H; injection H as <-. reflexivity.
  Qed.
End Scaling.

(* ================= entry points ================= *)
Lemma entry_ideal_iso (m : Mixture ROps) cd n dt prec ct slv perm rows :
  ideal_isothermal ROps m cd n dt prec ct slv perm = Ok rows ->
  exists p1 p2 x0, perm (cd_T0 cd) (c1 m) = Ok p1 /\ perm (cd_T0 cd) (c2 m) = Ok p2 /\
    to_weight ROps (cd_x0 cd) m = Ok x0 /\
    run_from ROps IdealIso m cd dt prec ct slv perm (dummy_fn ROps) (dummy_fn ROps) 0 0 n 0
      (Build_PState ROps (cd_m0 cd) x0 (cd_T0 cd) (p1, p2)) = Ok rows.
Proof.
  unfold ideal_isothermal. intros H.
  destruct (perm (cd_T0 cd) (c1 m)) as [p1|?]; [|discriminate]. cbn [bind] in H.
  destruct (perm (cd_T0 cd) (c2 m)) as [p2|?]; [|discriminate]. cbn [bind] in H.
  destruct (to_weight ROps (cd_x0 cd) m) as [x0|?]; [|discriminate]. cbn [bind] in H.
  exists p1, p2, x0. repeat split; try reflexivity. exact H.
Qed.

Lemma entry_ideal_noniso (m : Mixture ROps) cd n dt prec ct slv perm rows :
  ideal_non_isothermal ROps m cd n dt prec ct slv perm = Ok rows ->
  exists x0 P, to_weight ROps (cd_x0 cd) m = Ok x0 /\
    run_from ROps IdealNonIso m cd dt prec ct slv perm (dummy_fn ROps) (dummy_fn ROps) 0 0 n 0
      (Build_PState ROps (cd_m0 cd) x0 (cd_T0 cd) P) = Ok rows.
Proof.
  unfold ideal_non_isothermal. intros H.
  destruct (to_weight ROps (cd_x0 cd) m) as [x0|?]; [|discriminate]. cbn [bind] in H.
  eexists x0, _. split; [reflexivity | exact H].
Qed.

Lemma entry_nonideal iso (m : Mixture ROps) cd n dt prec ct slv f1 f2 ip rows :
  non_ideal_process ROps iso m cd n dt prec ct slv f1 f2 ip = Ok rows ->
  exists x0 P0 FR1 FR2, to_weight ROps (cd_x0 cd) m = Ok x0 /\
    nonideal_initial ROps m f1 f2 x0 (cd_T0 cd) ip = Ok (P0, (FR1, FR2)) /\
    run_from ROps (if iso then NonIdealIso else NonIdealNonIso) m cd dt prec ct slv (fun _ _ => Err ValueError)
      f1 f2 FR1 FR2 n 0 (Build_PState ROps (cd_m0 cd) x0 (cd_T0 cd) P0) = Ok rows.
Proof.
  unfold non_ideal_process. intros H.
  destruct (to_weight ROps (cd_x0 cd) m) as [x0|?] eqn:E0; [|discriminate]. cbn [bind] in H.
  destruct (nonideal_initial ROps m f1 f2 x0 (cd_T0 cd) ip) as [[P0 [FR1 FR2]]|?] eqn:E1; [|discriminate]. cbn [bind fst snd] in H.
  exists x0, P0, FR1, FR2. split; [reflexivity|]. split; [exact E1 | exact H].
Qed.

Lemma to_weight_result (m : Mixture ROps) c x0 : to_weight ROps c m = Ok x0 -> 0 <= cp c <= 1 ->
  ctype x0 = Weight /\ 0 <= cp x0 <= 1.
Proof.
  unfold to_weight. destruct (ctype c) eqn:E.
  - intros H _. apply mk_comp_R_inv in H. destruct H as [Hr ->]. cbn [ctype cp]. split; [reflexivity | exact Hr].
  - intros H Hc; injection H as <-. split; assumption.
Qed.
