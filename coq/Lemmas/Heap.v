(* Footprint and history independence of the modelled heap operations (property C20). *)
From Coq Require Import Reals Lra ZArith Bool Arith Lia List.
From PV Require Import Num PyBase Model.Heap.
Import ListNotations.

Section HeapLemmas.
  Context (N : NumOps).
  Notation heap := (heap N).

  Lemma update_length {A} (l : list A) i v : length (update l i v) = length l.
  Proof. revert i. induction l as [|x t IH]; intros [|j]; cbn; try reflexivity. now rewrite IH. Qed.

  Lemma update_nth_other {A} (l : list A) i j v d : i <> j -> nth j (update l i v) d = nth j l d.
  Proof.
    revert i j. induction l as [|x t IH]; intros [|i] [|j] H; cbn; try reflexivity; try congruence.
    apply IH. congruence.
  Qed.

  Lemma update_nth_same {A} (l : list A) i v d : i < length l -> nth i (update l i v) d = v.
  Proof. revert i. induction l as [|x t IH]; intros [|i] H; cbn in *; try lia; try reflexivity. apply IH. lia. Qed.

  Lemma read_alloc_old (h : heap) arr l : l < length h -> read N (fst (alloc N h arr)) l = read N h l.
  Proof. intros H. unfold read, alloc. cbn [fst]. apply app_nth1. exact H. Qed.

  Lemma read_write0_other (h : heap) l l' v : l <> l' -> read N (write0 N h l v) l' = read N h l'.
  Proof. intros H. unfold read, write0. apply update_nth_other. exact H. Qed.

  (* a non-ideal call writes only arrays it allocated itself: every pre-existing location keeps its contents *)
  Theorem nonideal_call_footprint (h : heap) n m alpha a b factor v l :
    l < length h -> read N (fst (nonideal_call N h n m alpha a b factor v)) l = read N h l.
  Proof.
    intros Hl. unfold nonideal_call, new_fn, rescale_obj, alloc, fn_mul. cbn [fst snd fo_b].
    rewrite read_write0_other by (rewrite app_length; cbn; lia).
    unfold read. rewrite app_nth1 by (rewrite app_length; cbn; lia). apply app_nth1. exact Hl.
  Qed.

  (* ... and its result (the contents of the arrays of the returned function) does not depend on the heap it started
     from: any history of earlier calls gives the same coefficients as a fresh interpreter state *)
  Theorem nonideal_call_history_independent (h h' : heap) n m alpha a b factor v :
    let r := nonideal_call N h n m alpha a b factor v in
    let r' := nonideal_call N h' n m alpha a b factor v in
    fo_alpha (snd r) = fo_alpha (snd r') /\ read N (fst r) (fo_a (snd r)) = read N (fst r') (fo_a (snd r'))
    /\ read N (fst r) (fo_b (snd r)) = read N (fst r') (fo_b (snd r')).
  Proof.
    unfold nonideal_call, new_fn, rescale_obj, alloc, fn_mul, write0, read. cbn [fst snd fo_alpha fo_a fo_b].
    assert (A : forall (g : heap) x y, nth (length g) ((g ++ [x]) ++ [y]) [] = x).
    { intros g x y. rewrite app_nth1 by (rewrite app_length; cbn; lia). rewrite app_nth2 by lia. rewrite Nat.sub_diag. reflexivity. }
    assert (B : forall (g : heap) x y, nth (length (g ++ [x])) ((g ++ [x]) ++ [y]) [] = y).
    { intros g x y. rewrite app_nth2 by lia. rewrite Nat.sub_diag. reflexivity. }
    repeat split.
    - rewrite !update_nth_other by (rewrite app_length; cbn; lia). rewrite !A. reflexivity.
    - rewrite !update_nth_same by (rewrite !app_length; cbn; lia). rewrite !B. reflexivity.
  Qed.

  (* the scaled copy and the original share their arrays: an in-place write through one is visible through the other
     (this is why the write must only ever hit arrays allocated inside the same call) *)
  Theorem mul_shares_arrays (f : FnObj N) c : fo_a (fn_mul N f c) = fo_a f /\ fo_b (fn_mul N f c) = fo_b f.
  Proof. split; reflexivity. Qed.
End HeapLemmas.
