(* Relabelling symmetry of the driving-force law and of the whole flux solver (C06). *)
From Coq Require Import Reals Lra ZArith Bool Arith Lia List.
From PV Require Import Num PyBase Model.Component Model.Mixture Model.Permeance Model.Solver Model.Process
  Lemmas.RTac Lemmas.Composition Lemmas.Thermo Lemmas.Activity Lemmas.Solver Lemmas.Process Lemmas.Swap.
Import ListNotations.
Local Open Scope R_scope.

Definition swap_fargs (a : FluxArgs ROps) : FluxArgs ROps :=
  Build_FluxArgs ROps (fa_P2 a) (fa_P1 a) (swap_comp (fa_y a)) (swap_comp (fa_x a)) (fa_T a) (fa_Tp a) (fa_pp a) (fa_ct a).

Definition interior (c : Composition ROps) : Prop := 0 < cp c < 1.

(* the driving-force law of the relabelled system is the mirror image (as written: pressure x MASS fraction) *)
Lemma fluxes_swap spec (m : Mixture ROps) (a : FluxArgs ROps) :
  sym_model spec (fa_ct a) -> vp_defined m (fa_T a) -> (forall tp, fa_Tp a = Some tp -> vp_defined m tp) ->
  0 < mw (c1 m) -> 0 < mw (c2 m) -> interior (fa_x a) -> interior (fa_y a) ->
  fluxes_from_permeate_gen ROps spec false (swap_mixture m) (swap_fargs a)
  = swap_res (fluxes_from_permeate_gen ROps spec false m a).
Proof.
  intros Hs Hv Hvp HM1 HM2 Hx Hy. unfold fluxes_from_permeate_gen, swap_fargs.
  cbn [fa_P1 fa_P2 fa_y fa_x fa_T fa_Tp fa_pp fa_ct].
  rewrite (pp_swap spec (fa_T a) m (fa_x a) (fa_ct a) Hs Hv HM1 HM2 Hx).
  destruct (partial_pressures_gen ROps spec (fa_T a) m (fa_x a) (fa_ct a)) as [pf|]; cbn [swap_res bind]; [|reflexivity].
  unfold permeate_pressures_gen. cbn [fa_y fa_Tp fa_pp fa_ct].
  destruct (fa_Tp a) as [tp|] eqn:ETp, (fa_pp a) as [p|] eqn:Epp; cbn [bind swap_res].
  - reflexivity.
  - rewrite (pp_swap spec tp m (fa_y a) (fa_ct a) Hs (Hvp tp eq_refl) HM1 HM2 Hy).
    destruct (partial_pressures_gen ROps spec tp m (fa_y a) (fa_ct a)) as [q|]; cbn [swap_res bind]; [|reflexivity].
    unfold swap_pair. cbn [fst snd]. reflexivity.
  - destruct (fa_y a) as [v t]. unfold swap_pair, first, second, swap_comp. cbn [fst snd cp]. rnum.
    replace (1 - (1 - v)) with v by ring. reflexivity.
  - unfold swap_pair. cbn [fst snd]. reflexivity.
Qed.

(* the fixed-point loop commutes with the relabelling when the two maps mirror each other on an invariant set *)
Lemma solve_loop_swap_inv (Inv : Composition ROps -> Prop) (F F' : Composition ROps -> res (R * R)) prec fuel d y :
  (forall y, Inv y -> F' (swap_comp y) = swap_res (F y)) ->
  (forall y J, Inv y -> F y = Ok J -> fst J + snd J <> 0) ->
  (forall y J y', Inv y -> F y = Ok J -> comp_of_fluxes ROps J = Ok y' -> Inv y') ->
  Inv y ->
  solve_loop ROps fuel F' prec d (swap_comp y)
  = match solve_loop ROps fuel F prec d y with Ok r => Ok (swap_comp r) | Err e => Err e end.
Proof.
  intros HF Hnz Hinv. revert d y. induction fuel as [|f IH]; intros d y Hy; cbn [solve_loop].
  - destruct (leb ROps prec d); reflexivity.
  - destruct (leb ROps prec d); [|reflexivity].
    rewrite (HF y Hy). destruct (F y) as [J|] eqn:EF; cbn [swap_res bind]; [|reflexivity].
    rewrite (comp_of_fluxes_swap J (Hnz _ _ Hy EF)).
    destruct (comp_of_fluxes ROps J) as [y1|] eqn:EY; cbn [bind]; [|reflexivity].
    rewrite step_dist_swap. apply IH. exact (Hinv _ _ _ Hy EF EY).
Qed.

(* a permeate composition computed from two positive fluxes is interior *)
Lemma comp_of_fluxes_interior (J : R * R) y : 0 < fst J -> 0 < snd J -> comp_of_fluxes ROps J = Ok y -> interior y.
Proof.
  intros H1 H2 H. unfold comp_of_fluxes in H. apply mk_comp_R_inv in H. destruct H as [_ ->]. unfold interior. cbn [cp]. rnum.
  assert (0 < fst J + snd J) by lra.
  split.
  - apply Rdiv_lt_0_compat; lra.
  - apply (Rmult_lt_reg_r (0 + fst J + snd J)); [lra|]. unfold Rdiv. rewrite Rmult_assoc, Rinv_l by lra. lra.
Qed.

(* the whole flux calculation (permeances supplied) of the relabelled system returns the exchanged fluxes, whenever the
   driving force stays positive for both components along the iteration (forward permeation) *)
Theorem solve_swap spec (m : Mixture ROps) perm perm' (a : SolveArgs ROps) P1 P2 :
  sa_P1 a = Some P1 -> sa_P2 a = Some P2 ->
  sym_model spec (sa_ct a) -> vp_defined m (sa_T a) -> (forall tp, sa_Tp a = Some tp -> vp_defined m tp) ->
  0 < mw (c1 m) -> 0 < mw (c2 m) -> interior (sa_x a) -> 0 < pval P1 -> 0 < pval P2 ->
  (forall pf, partial_pressures_gen ROps spec (sa_T a) m (sa_x a) (sa_ct a) = Ok pf -> 0 < fst pf /\ 0 < snd pf) ->
  (forall y J, interior y -> fluxes_from_permeate_gen ROps spec false m (mk_flux_args ROps a (P1, P2) y) = Ok J -> 0 < fst J /\ 0 < snd J) ->
  solve_gen ROps spec false (swap_mixture m) perm' (swap_sargs a) = swap_res (solve_gen ROps spec false m perm a).
Proof.
  intros E1 E2 Hs Hv Hvp HM1 HM2 Hx HP1 HP2 Hpf Hpos.
  unfold solve_gen, solve_with, resolve_permeances, swap_sargs.
  cbn [sa_P1 sa_P2 sa_T sa_x sa_ct sa_prec sa_Tp sa_pp]. rewrite E1, E2. cbn [bind fst snd].
  rewrite (pp_swap spec (sa_T a) m (sa_x a) (sa_ct a) Hs Hv HM1 HM2 Hx).
  destruct (partial_pressures_gen ROps spec (sa_T a) m (sa_x a) (sa_ct a)) as [pf|] eqn:Epf; cbn [swap_res bind]; [|reflexivity].
  destruct (Hpf pf eq_refl) as [Hf1 Hf2].
  unfold swap_pair at 1 2. cbn [fst snd].
  set (J0 := (pval P1 * fst pf, pval P2 * snd pf)).
  assert (HJ0 : 0 < fst J0 /\ 0 < snd J0) by (unfold J0; cbn [fst snd]; split; apply Rmult_lt_0_compat; assumption).
  change (mul ROps (pval P2) (snd pf), mul ROps (pval P1) (fst pf)) with (swap_pair J0).
  change (mul ROps (pval P1) (fst pf), mul ROps (pval P2) (snd pf)) with J0.
  rewrite (comp_of_fluxes_swap J0) by (destruct HJ0; lra).
  destruct (comp_of_fluxes ROps J0) as [y0|] eqn:EY0; cbn [bind]; [|reflexivity].
  pose proof (comp_of_fluxes_interior J0 y0 (proj1 HJ0) (proj2 HJ0) EY0) as Hy0.
  set (F := fun y => fluxes_from_permeate_gen ROps spec false m (mk_flux_args ROps a (P1, P2) y)).
  set (a' := Build_SolveArgs ROps (sa_T a) (swap_comp (sa_x a)) (sa_prec a) (sa_Tp a) (sa_pp a) (Some P2) (Some P1) (sa_ct a)).
  set (F' := fun y => fluxes_from_permeate_gen ROps spec false (swap_mixture m) (mk_flux_args ROps a' (P2, P1) y)).
  assert (HFF : forall y, interior y -> F' (swap_comp y) = swap_res (F y)).
  { intros y Hy. unfold F, F'.
    change (mk_flux_args ROps a' (P2, P1) (swap_comp y)) with (swap_fargs (mk_flux_args ROps a (P1, P2) y)).
    apply fluxes_swap; cbn [mk_flux_args fa_ct fa_T fa_Tp fa_x fa_y]; assumption. }
  assert (HL := solve_loop_swap_inv interior F F' (sa_prec a) solver_cap (ilit ROps 1) y0 HFF).
  rewrite HL; clear HL.
  - change (fun y : Composition ROps => fluxes_from_permeate_gen ROps spec false m (mk_flux_args ROps a (P1, P2) y)) with F.
    destruct (solve_loop ROps solver_cap F (sa_prec a) (ilit ROps 1) y0) as [y|] eqn:EL; cbn [bind]; [|reflexivity].
    assert (Hy : interior y).
    { clear EY0. revert EL. generalize (ilit ROps 1). generalize solver_cap. intros fuel. revert y0 Hy0.
      induction fuel as [|f IH]; intros y1 Hy1 d; cbn [solve_loop].
      - destruct (leb ROps (sa_prec a) d); [discriminate|]. intros E; injection E as <-. exact Hy1.
      - destruct (leb ROps (sa_prec a) d); [|intros E; injection E as <-; exact Hy1].
        destruct (F y1) as [J|] eqn:EF; cbn [bind]; [|discriminate].
        destruct (comp_of_fluxes ROps J) as [y2|] eqn:EY; cbn [bind]; [|discriminate].
        destruct (Hpos y1 J Hy1 EF) as [A B].
        apply (IH y2 (comp_of_fluxes_interior J y2 A B EY)). }
    exact (HFF y Hy).
  - intros y J Hy EF. destruct (Hpos y J Hy EF) as [A B]. apply Rgt_not_eq. apply Rplus_lt_0_compat; assumption.
  - intros y J y' Hy EF EY. destruct (Hpos y J Hy EF) as [A B]. exact (comp_of_fluxes_interior J y' A B EY).
  - exact Hy0.
Qed.

(* in vacuum mode the forward-permeation hypothesis of [solve_swap] follows from positive feed partial pressures *)
Corollary solve_swap_vacuum spec (m : Mixture ROps) perm perm' (a : SolveArgs ROps) P1 P2 :
  sa_P1 a = Some P1 -> sa_P2 a = Some P2 -> sa_Tp a = None -> sa_pp a = None ->
  sym_model spec (sa_ct a) -> vp_defined m (sa_T a) ->
  0 < mw (c1 m) -> 0 < mw (c2 m) -> interior (sa_x a) -> 0 < pval P1 -> 0 < pval P2 ->
  (forall pf, partial_pressures_gen ROps spec (sa_T a) m (sa_x a) (sa_ct a) = Ok pf -> 0 < fst pf /\ 0 < snd pf) ->
  solve_gen ROps spec false (swap_mixture m) perm' (swap_sargs a) = swap_res (solve_gen ROps spec false m perm a).
Proof.
  intros E1 E2 ET Ep Hs Hv HM1 HM2 Hx HP1 HP2 Hpf.
  apply (solve_swap spec m perm perm' a P1 P2); try assumption.
  - intros tp H. rewrite ET in H. discriminate.
  - intros y J _. unfold fluxes_from_permeate_gen, mk_flux_args, permeate_pressures_gen.
    cbn [fa_T fa_x fa_ct fa_Tp fa_pp fa_P1 fa_P2 fst snd]. rewrite ET, Ep.
    destruct (partial_pressures_gen ROps spec (sa_T a) m (sa_x a) (sa_ct a)) as [pf|] eqn:E; [|discriminate].
    cbn [bind]. intros H; injection H as <-. cbn [fst snd]. destruct (Hpf pf eq_refl) as [A B]. rnum.
    split; apply Rmult_lt_0_compat; lra.
Qed.
