(* Proofs about fitted permeance functions and the selection logic (properties C05, C16). *)
From Coq Require Import Reals Lra ZArith Bool Arith Psatz Lia List.
From PV Require Import Num PyBase Model.Component Model.Mixture Model.Permeance Model.Solver Model.Process Model.Fit
  Lemmas.RTac Lemmas.Composition Lemmas.Permeance Lemmas.Thermo Lemmas.Process Lemmas.Membrane.
Import ListNotations.
Local Open Scope R_scope.

Notation RFn := (PervFn ROps).
Notation RMeas := (Meas ROps).

(* ---- evaluation formula ---- *)
Lemma pf_call_R (f : RFn) x t :
  pf_call ROps f x t = pf_alpha f * exp (rsum (poly_terms ROps (pf_a f) x 1) - rsum (poly_terms ROps (pf_b f) x 0) / t).
Proof. unfold pf_call. rewrite !psum_R. reflexivity. Qed.

Lemma poly_terms_R cs x e : poly_terms ROps cs x e = match cs with [] => [] | c :: t => (c * x ^ e) :: poly_terms ROps t x (S e) end.
Proof. destruct cs; reflexivity. Qed.

Lemma pf_mul_call (f : RFn) c x t : pf_call ROps (pf_mul ROps f c) x t = c * pf_call ROps f x t.
Proof. unfold pf_call, pf_mul. cbn [pf_alpha pf_a pf_b]. rnum. ring. Qed.

(* ---- single-curve Arrhenius re-scaling ---- *)
Lemma rescale_arrhenius (f g : RFn) Ea Tc b0 x T : T <> 0 -> Tc <> 0 ->
  pf_b f = [b0] -> rescale_fit ROps f Ea Tc = Ok g ->
  pf_call ROps g x T = pf_call ROps f x Tc * exp (- Ea / Rg * (1 / T - 1 / Tc)).
Proof.
  intros HT HTc Hb. unfold rescale_fit. rewrite Hb. intros H; injection H as <-.
  rewrite !pf_call_R. cbn [pf_alpha pf_a pf_b]. rewrite Hb.
  cbn [poly_terms rsum]. rnum.
  rewrite !Rmult_assoc, <- !exp_plus. do 2 f_equal. unfold Rg. field. repeat split; assumption.
Qed.

(* ---- best-of selection ---- *)
Lemma best_of_spec {A} (cands : list (A * R)) (best : option (A * R)) r :
  best_of ROps cands best = Some r ->
  (In r cands \/ best = Some r) /\
  (forall c, In c cands -> snd r <= snd c) /\ (forall b, best = Some b -> snd r <= snd b).
Proof.
  revert best. induction cands as [|[c l] t IH]; intros best; cbn [best_of].
  - intros ->. repeat split; [right; reflexivity | intros ? [] | intros b Hb; injection Hb as <-; apply Rle_refl].
  - destruct best as [[bc bl]|].
    + rnum. destruct (Rltb l bl) eqn:E.
      * intros H. destruct (IH _ H) as [H1 [H2 H3]]. apply Rltb_true in E. repeat split.
        -- destruct H1 as [H1|H1]; [left; right; exact H1 | left; left; injection H1 as <-; reflexivity].
        -- intros c0 [<-|Hc]; [exact (H3 _ eq_refl) | exact (H2 _ Hc)].
        -- intros b Hb; injection Hb as <-. specialize (H3 _ eq_refl). cbn [snd] in *. lra.
      * intros H. destruct (IH _ H) as [H1 [H2 H3]]. apply Rltb_false in E. repeat split.
        -- destruct H1 as [H1|H1]; [left; right; exact H1 | right; exact H1].
        -- intros c0 [<-|Hc]; [specialize (H3 _ eq_refl); cbn [snd] in *; lra | exact (H2 _ Hc)].
        -- exact H3.
    + intros H. destruct (IH _ H) as [H1 [H2 H3]]. repeat split.
      * destruct H1 as [H1|H1]; [left; right; exact H1 | left; left; injection H1 as <-; reflexivity].
      * intros c0 [<-|Hc]; [exact (H3 _ eq_refl) | exact (H2 _ Hc)].
      * intros b Hb; discriminate.
Qed.

Lemma find_best_fit_optimal (fitf : nat -> nat -> RFn) grid data c :
  find_best_fit ROps fitf grid data = Some c ->
  (exists ij, In ij grid /\ c = fitf (fst ij) (snd ij)) /\
  (forall ij, In ij grid -> sq_loss ROps c data <= sq_loss ROps (fitf (fst ij) (snd ij)) data).
Proof.
  unfold find_best_fit.
  destruct (best_of ROps _ None) as [[c0 l0]|] eqn:E; [|discriminate]. intros H; injection H as <-.
  destruct (best_of_spec _ _ _ E) as [H1 [H2 _]].
  destruct H1 as [H1|H1]; [|discriminate].
  apply in_map_iff in H1. destruct H1 as [ij [Hij Hin]]. injection Hij as Hc Hl.
  split; [exists ij; split; [exact Hin | symmetry; exact Hc]|].
  intros ij' Hin'. specialize (H2 (fitf (fst ij') (snd ij'), sq_loss ROps (fitf (fst ij') (snd ij')) data)).
  cbn [snd] in H2. rewrite <- Hc, Hl. apply H2. apply in_map_iff. exists ij'. split; [reflexivity | exact Hin'].
Qed.

Lemma grid_of_complete n m i j : (i <= n)%nat -> (j <= m)%nat -> In (i, j) (grid_of n m).
Proof.
  intros Hi Hj. unfold grid_of. apply in_flat_map. exists i. split; [apply in_seq; lia|].
  apply in_map_iff. exists j. split; [reflexivity | apply in_seq; lia].
Qed.

Lemma best_of_some {A} (cands : list (A * R)) b : exists r, best_of ROps cands (Some b) = Some r.
Proof.
  revert b. induction cands as [|[c l] t IH]; intros [bc bl]; cbn [best_of]; [eexists; reflexivity|].
  destruct (ltb ROps l bl); apply IH.
Qed.

Lemma find_best_fit_nonempty (fitf : nat -> nat -> RFn) n m data : exists c, find_best_fit ROps fitf (grid_of n m) data = Some c.
Proof.
  unfold find_best_fit, grid_of. cbn [seq flat_map map app best_of].
  match goal with |- context [best_of ROps ?l (Some ?b)] => destruct (best_of_some l b) as [[c l0] ->] end.
  eexists; reflexivity.
Qed.

(* fit_vle: the selected parameter vector is the initial one or a candidate with error below the running best *)
Lemma vle_best_spec cands best err :
  vle_best ROps cands best err = best \/ exists e, In (vle_best ROps cands best err, e) cands /\ e < err.
Proof.
  revert best err. induction cands as [|[x e] t IH]; intros best err; cbn [vle_best].
  - left; reflexivity.
  - rnum. destruct (Rltb e err) eqn:E.
    + apply Rltb_true in E. destruct (IH x e) as [H|[e' [H1 H2]]].
      * right. exists e. rewrite H. split; [left; reflexivity | exact E].
      * right. exists e'. split; [right; exact H1 | lra].
    + destruct (IH best err) as [H|[e' [H1 H2]]]; [left; exact H|].
      right. exists e'. split; [right; exact H1 | exact H2].
Qed.

(* ---- fit: the caller's data is a prefix of what the minimiser sees; without zero points it is the same list ---- *)
Lemma fit_data_noiz uniq (data : list RMeas) idx : fit_data ROps uniq data false idx = data.
Proof. reflexivity. Qed.
Lemma fit_data_iz uniq (data : list RMeas) idx :
  fit_data ROps uniq data true idx = data ++ zero_points ROps idx (uniq (map ms_t data))
  /\ Forall (fun z : RMeas => ms_p z = 0 /\ ms_x z = INR idx) (zero_points ROps idx (uniq (map ms_t data))).
Proof.
  split; [reflexivity|]. unfold zero_points. apply Forall_forall. intros z Hz. apply in_map_iff in Hz.
  destruct Hz as [t [<- _]]. cbn [ms_p ms_x]. split; [reflexivity | apply INR_ilit].
Qed.

(* ---- non-ideal models: initial permeances, facilitation factor, per-step permeances ---- *)
Lemma nonideal_initial_none (m : Mixture ROps) (f1 f2 : RFn) x0 T0 P0 FR :
  nonideal_initial ROps m f1 f2 x0 T0 None = Ok (P0, FR) ->
  0 < pf_call ROps f1 (cp x0) T0 -> 0 < pf_call ROps f2 (cp x0) T0 ->
  pval (fst P0) = pf_call ROps f1 (cp x0) T0 /\ pval (snd P0) = pf_call ROps f2 (cp x0) T0 /\ FR = (1, 1)
  /\ punits (fst P0) = KG /\ punits (snd P0) = KG.
Proof.
  intros H H1 H2. unfold nonideal_initial in H. cbn [bind] in H. unfold first in H.
  set (v1 := pf_call ROps f1 (cp x0) T0) in *. set (v2 := pf_call ROps f2 (cp x0) T0) in *.
  rewrite !mk_permeance_id in H by lra. cbn [pval fst snd] in H. injection H as <- <-.
  cbn [fst snd pval punits]. repeat split. rnum. f_equal; field; lra.
Qed.

Lemma nonideal_initial_some (m : Mixture ROps) (f1 f2 : RFn) x0 T0 ip P0 FR :
  nonideal_initial ROps m f1 f2 x0 T0 (Some ip) = Ok (P0, FR) ->
  convert ROps (fst ip) KG (Some (c1 m)) = Ok (fst P0) /\ convert ROps (snd ip) KG (Some (c2 m)) = Ok (snd P0)
  /\ FR = (pval (fst P0) / pf_call ROps f1 (cp x0) T0, pval (snd P0) / pf_call ROps f2 (cp x0) T0).
Proof.
  unfold nonideal_initial.
  destruct (convert ROps (fst ip) KG _) as [q1|]; [|discriminate]. cbn [bind].
  destruct (convert ROps (snd ip) KG _) as [q2|]; [|discriminate]. cbn [bind]. unfold first.
  intros H; injection H as <- <-. cbn [fst snd]. split; [reflexivity|]. split; reflexivity.
Qed.

Lemma next_permeances_nonideal (iso : bool) (cd : Conditions ROps) (f1 f2 : RFn) (FR1 FR2 : R) (st : PState ROps) (x' : Composition ROps) (T' : R) P' :
  next_permeances ROps (if iso then NonIdealIso else NonIdealNonIso) cd f1 f2 FR1 FR2 st x' T' = Ok P' ->
  let xx := if iso then cp (st_x st) else cp x' in
  let TT := if iso then cd_T0 cd else T' in
  pval (fst P') = Rmax 0 (pf_call ROps f1 xx TT * FR1) /\ pval (snd P') = Rmax 0 (pf_call ROps f2 xx TT * FR2)
  /\ punits (fst P') = KG /\ punits (snd P') = KG.
Proof.
  unfold next_permeances. destruct iso; rewrite !mk_permeance_m_R; cbn [bind]; unfold first; cbv beta iota zeta;
    match goal with |- Ok (mk_permeance _ (mul _ ?a _) _, mk_permeance _ (mul _ ?b _) _) = _ -> _ => set (v1 := a); set (v2 := b) end;
    intros H; injection H as <-; cbn [fst snd]; unfold mk_permeance; cbn [pval punits]; rnum;
    repeat split; try reflexivity; unfold Rleb, Rmax;
    match goal with |- context [Rle_dec 0 ?v] => destruct (Rle_dec 0 v); try reflexivity; lra end.
Qed.
