(* Round-trip of the process-model column map and the fresh-directory property (C17). *)
From Coq Require Import Reals Lra ZArith Bool Arith Lia List.
From PV Require Import Num PyBase Model.Component Model.Mixture Model.Permeance Model.Solver Model.Process Model.Persist
  Lemmas.Composition Lemmas.Permeance Lemmas.Process.
Import ListNotations.
Local Open Scope R_scope.

(* a reported row as the process models produce them: mass-fraction compositions in [0,1], permeances in kg units, >= 0 *)
Definition wf_row (r : PRow ROps) : Prop :=
  ctype (r_x r) = Weight /\ ctype (r_y r) = Weight /\ 0 <= cp (r_x r) <= 1 /\ 0 <= cp (r_y r) <= 1 /\
  punits (fst (r_P r)) = KG /\ punits (snd (r_P r)) = KG /\ 0 <= pval (fst (r_P r)) /\ 0 <= pval (snd (r_P r)).

Lemma load_save_row (m : Mixture ROps) mem mix com (r : PRow ROps) Tp pp : wf_row r ->
  load_row ROps m KG (save_row ROps mem mix com r Tp pp) = Ok r.
Proof.
  intros [Hx [Hy [Rx [Ry [U1 [U2 [P1 P2]]]]]]].
  destruct r as [t fm x fT [q1 q2] [j1 j2] y q qc]. cbn [r_x r_y r_P fst snd] in *.
  destruct x as [xp xt], y as [yp yt], q1 as [v1 u1], q2 as [v2 u2]. cbn [ctype cp punits pval] in *. subst.
  unfold save_row, load_row, first. cbn [r_time r_m r_T r_x r_y r_J r_P r_Q r_Qc cp ctype fst snd pval punits cell_opt].
  rewrite !mk_comp_R_ok by assumption. cbn [bind to_weight ctype].
  rewrite !mk_permeance_id by assumption. rewrite !convert_same. cbn [bind].
  destruct qc; reflexivity.
Qed.

Lemma load_save_process (m : Mixture ROps) mem mix com rows Tp pp : Forall wf_row rows -> rows <> [] ->
  load_process ROps m (save_process ROps mem mix com rows Tp pp) = Ok (rows, Tp, pp).
Proof.
  intros Hwf Hne. unfold load_process.
  assert (HU : first_units ROps (save_process ROps mem mix com rows Tp pp) = KG).
  { destruct rows as [|r t]; [contradiction|]. cbn. inversion Hwf as [|? ? [_ [_ [_ [_ [U1 _]]]]] _]; subst. exact U1. }
  rewrite HU.
  assert (HM : mapM (load_row ROps m KG) (save_process ROps mem mix com rows Tp pp) = Ok rows).
  { clear Hne HU. induction Hwf as [|r t Hr Ht IH]; [reflexivity|].
    cbn [save_process map mapM]. rewrite (load_save_row m mem mix com r Tp pp Hr). cbn [bind].
    unfold save_process in IH. rewrite IH. reflexivity. }
  rewrite HM. cbn [bind]. destruct rows as [|r t]; [contradiction|].
  unfold first_opt, save_process. cbn [map nth save_row]. destruct Tp, pp; reflexivity.
Qed.

(* the number of lines written is the number of steps *)
Lemma save_process_length mem mix com (rows : list (PRow ROps)) Tp pp : length (save_process ROps mem mix com rows Tp pp) = length rows.
Proof. unfold save_process. apply map_length. Qed.

(* saving never touches an existing process directory: it raises, or creates a directory that did not exist *)
Lemma generate_path_fresh (fs : FS) name :
  (generate_process_path fs name = Err FileExistsError /\ In name fs) \/
  (exists fs', generate_process_path fs name = Ok (fs', name) /\ ~ In name fs /\ forall d, In d fs -> In d fs').
Proof.
  unfold generate_process_path. destruct (existsb (Nat.eqb name) fs) eqn:E.
  - left. split; [reflexivity|]. apply existsb_exists in E. destruct E as [d [Hd He]]. apply Nat.eqb_eq in He. subst. exact Hd.
  - right. exists (name :: fs). split; [reflexivity|]. split.
    + intros Hin. assert (existsb (Nat.eqb name) fs = true) by (apply existsb_exists; exists name; split; [exact Hin | apply Nat.eqb_refl]). congruence.
    + intros d Hd. right. exact Hd.
Qed.
