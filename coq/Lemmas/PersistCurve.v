(* Round trips of the curve CSV map and of the JSON forms of PervaporationFunction and Conditions (C17). *)
From Coq Require Import Reals Lra ZArith Bool Arith Lia List.
From PV Require Import Num PyBase Model.Component Model.Mixture Model.Permeance Model.Solver Model.Process Model.Curve
  Model.Persist Model.PersistCurve Lemmas.Composition Lemmas.Permeance.
Import ListNotations.
Local Open Scope R_scope.

(* ---------------- JSON ---------------- *)
Lemma pf_json_roundtrip (f : PervFn ROps) : pf_from_json ROps (pf_to_json ROps f) = Ok f.
Proof. destruct f; reflexivity. Qed.

Lemma cond_json_roundtrip (c : Conditions ROps) : 0 <= cp (cd_x0 c) <= 1 ->
  cond_from_json ROps (cond_to_json ROps c) =
  Ok {| cd_A := cd_A c; cd_T0 := cd_T0 c; cd_m0 := cd_m0 c; cd_x0 := cd_x0 c; cd_Tp := cd_Tp c; cd_pp := cd_pp c;
        cd_prog := None |}.
Proof.
  destruct c as [A T0 m0 [xp xt] tp pp prog]. cbn [cd_x0 cp]. intros Hx.
  unfold cond_from_json, cond_to_json. cbn [jget jkey_eqb bind cd_A cd_T0 cd_m0 cd_x0 cd_Tp cd_pp cp ctype].
  rewrite (mk_comp_R_ok xp xt Hx). cbn [bind]. destruct tp, pp; reflexivity.
Qed.

(* an out-of-range stored composition value is rejected on load, not clipped *)
Lemma cond_json_rejects (o : JObj ROps) A T0 m0 xv xt tp pp :
  jget ROps K_area o = Ok (JNum A) -> jget ROps K_T0 o = Ok (JNum T0) -> jget ROps K_m0 o = Ok (JNum m0) ->
  jget ROps K_xval o = Ok (JNum xv) -> jget ROps K_xtype o = Ok (JCType xt) ->
  jget ROps K_Tp o = Ok tp -> jget ROps K_pp o = Ok pp ->
  ~ (0 <= xv <= 1) -> cond_from_json ROps o = Err ValueError.
Proof.
  intros E1 E2 E3 E4 E5 E6 E7 H. unfold cond_from_json. rewrite E1, E2, E3, E4, E5, E6, E7. cbn [bind].
  rewrite (mk_comp_R_err xv xt) by lra. reflexivity.
Qed.

(* ---------------- curve CSV ---------------- *)
Fixpoint map3 {A B C D} (f : A -> B -> C -> D) (la : list A) (lb : list B) (lc : list C) : list D :=
  match la, lb, lc with a :: ta, b :: tb, c :: tc => f a b c :: map3 f ta tb tc | _, _, _ => [] end.

Lemma map3M_ok {A B C D} (f : A -> B -> C -> D) la lb lc : length lb = length la -> length lc = length la ->
  map3M (fun a b c => Ok (f a b c)) la lb lc = Ok (map3 f la lb lc).
Proof.
  revert lb lc. induction la as [|a ta IH]; intros [|b tb] [|c tc] Hb Hc; try discriminate; [reflexivity|].
  cbn [map3M map3 bind]. rewrite IH by (cbn in *; lia). reflexivity.
Qed.

Lemma map3_length {A B C D} (f : A -> B -> C -> D) la lb lc : length lb = length la -> length lc = length la ->
  length (map3 f la lb lc) = length la.
Proof.
  revert lb lc. induction la as [|a ta IH]; intros [|b tb] [|c tc] Hb Hc; try discriminate; [reflexivity|].
  cbn [map3 length]. rewrite IH by (cbn in *; lia). reflexivity.
Qed.

Definition wf_pair (P : Permeance ROps * Permeance ROps) : Prop :=
  punits (fst P) = KG /\ punits (snd P) = KG /\ 0 <= pval (fst P) /\ 0 <= pval (snd P).

Section Rows.
  Variables (id mem mix com : nat) (T : R) (Tp pp : option R) (m : Mixture ROps).
  Let row := save_curve_row ROps id mem mix com T Tp pp.

  Lemma rows_present k xs Js Ps : (k = 8 \/ k = 9 \/ k = 10 \/ k = 11 \/ k = 12)%nat ->
    all_present ROps k (map3 row xs Js Ps) = true.
  Proof.
    intros Hk. revert Js Ps. induction xs as [|x xs IH]; intros [|J Js] [|P Ps]; try reflexivity.
    cbn [map3 all_present forallb]. fold (all_present ROps k (map3 row xs Js Ps)). rewrite IH.
    destruct Hk as [->|[->|[->|[->| ->]]]]; reflexivity.
  Qed.

  Lemma rows_fluxes xs Js Ps : length Js = length xs -> length Ps = length xs ->
    mapM (row_fluxes ROps) (map3 row xs Js Ps) = Ok Js.
  Proof.
    revert Js Ps. induction xs as [|x xs IH]; intros [|J Js] [|P Ps] HJ HP; try discriminate; [reflexivity|].
    cbn [map3 mapM]. unfold row at 1, save_curve_row, row_fluxes, col. cbn [nth cell_num bind].
    rewrite IH by (cbn in *; lia). destruct J; reflexivity.
  Qed.

  Lemma rows_permeances xs Js Ps : length Js = length xs -> length Ps = length xs -> Forall wf_pair Ps ->
    mapM (row_permeances ROps m KG) (map3 row xs Js Ps) = Ok Ps.
  Proof.
    revert Js Ps. induction xs as [|x xs IH]; intros [|J Js] [|P Ps] HJ HP Hwf; try discriminate; [reflexivity|].
    inversion Hwf as [|? ? [U1 [U2 [V1 V2]]] Hwf']; subst.
    cbn [map3 mapM]. unfold row at 1, save_curve_row, row_permeances, col. cbn [nth cell_num].
    destruct P as [[v1 u1] [v2 u2]]. cbn [fst snd pval punits] in *. subst.
    rewrite !mk_permeance_id by assumption. rewrite !convert_same. cbn [bind].
    rewrite IH by (cbn in *; try lia; assumption). reflexivity.
  Qed.

  Lemma rows_compositions xs Js Ps : length Js = length xs -> length Ps = length xs ->
    Forall (fun x : Composition ROps => 0 <= cp x <= 1) xs ->
    mapM (row_composition ROps m) (map3 row xs Js Ps) = mapM (fun x => to_weight ROps x m) xs.
  Proof.
    revert Js Ps. induction xs as [|x xs IH]; intros [|J Js] [|P Ps] HJ HP Hx; try discriminate; [reflexivity|].
    inversion Hx as [|? ? Hx0 Hx']; subst.
    cbn [map3 mapM]. unfold row at 1, save_curve_row, row_composition, col. cbn [nth].
    destruct x as [xp xt]. cbn [cp ctype] in *. rewrite (mk_comp_R_ok xp xt Hx0). cbn [bind].
    rewrite IH by (cbn in *; try lia; assumption). reflexivity.
  Qed.
End Rows.

Lemma convert_pairs_kg (m : Mixture ROps) Ps : Forall wf_pair Ps -> mapM (convert_pair ROps m) Ps = Ok Ps.
Proof.
  induction 1 as [|P Ps [U1 [U2 _]] _ IH]; [reflexivity|].
  cbn [mapM]. unfold convert_pair at 1. destruct P as [[v1 u1] [v2 u2]]. cbn [fst snd punits] in *. subst.
  rewrite !convert_same. cbn [bind]. rewrite IH. reflexivity.
Qed.

(* a constructed curve (compositions valid, permeances in kg units as the constructor leaves them, one line at least)
   loads back with the same temperature, permeate condition, fluxes and permeances, and with its feed compositions
   converted to mass fractions *)
Theorem curve_roundtrip (PP : PPfun ROps) (m : Mixture ROps) id mem mix com (c : Curve ROps) xw :
  cv_xs c <> [] -> length (cv_J c) = length (cv_xs c) -> length (cv_P c) = length (cv_xs c) ->
  Forall (fun x : Composition ROps => 0 <= cp x <= 1) (cv_xs c) -> Forall wf_pair (cv_P c) ->
  mapM (fun x => to_weight ROps x m) (cv_xs c) = Ok xw ->
  exists table, save_curve ROps id mem mix com c = Ok table /\ length table = length (cv_xs c) /\
    load_curve ROps PP m table =
      Ok {| cv_T := cv_T c; cv_xs := xw; cv_J := cv_J c; cv_Tp := cv_Tp c; cv_pp := cv_pp c; cv_P := cv_P c |}.
Proof.
  destruct c as [T xs Js Tp pp Ps]. cbn [cv_T cv_xs cv_J cv_Tp cv_pp cv_P]. intros Hne HJ HP Hx Hwf Hw.
  eexists. split; [|split].
  - unfold save_curve. cbn [cv_T cv_xs cv_J cv_Tp cv_pp cv_P]. apply map3M_ok; assumption.
  - apply map3_length; assumption.
  - destruct xs as [|x0 xs]; [contradiction|]. destruct Js as [|J0 Js]; [discriminate|]. destruct Ps as [|P0 Ps]; [discriminate|].
    unfold load_curve. cbn [map3].
    change (save_curve_row ROps id mem mix com T Tp pp x0 J0 P0 :: map3 (save_curve_row ROps id mem mix com T Tp pp) xs Js Ps)
      with (map3 (save_curve_row ROps id mem mix com T Tp pp) (x0 :: xs) (J0 :: Js) (P0 :: Ps)).
    rewrite !rows_present by tauto. cbn [andb].
    rewrite rows_fluxes by assumption. cbn [bind].
    assert (HU : col ROps 12 (save_curve_row ROps id mem mix com T Tp pp x0 J0 P0) = CUnits KG).
    { inversion Hwf as [|? ? [U1 _] _]; subst. unfold col, save_curve_row. cbn [nth]. rewrite U1. reflexivity. }
    rewrite HU. rewrite rows_permeances by assumption. cbn [bind].
    replace (cell_num ROps (col ROps 3 (save_curve_row ROps id mem mix com T Tp pp x0 J0 P0))) with (Some T) by reflexivity.
    rewrite rows_compositions by assumption. rewrite Hw. cbn [bind].
    unfold mk_curve. cbn [ci_J ci_P ci_T ci_xs ci_Tp ci_pp]. rewrite convert_pairs_kg by assumption. cbn [bind].
    replace (cell_num ROps (col ROps 4 _)) with Tp by (destruct Tp; reflexivity).
    replace (cell_num ROps (col ROps 5 _)) with pp by (destruct pp; reflexivity).
    reflexivity.
Qed.

(* mass-fraction curves (what every constructor path of the library produces after loading) load back unchanged *)
Corollary curve_roundtrip_weight (PP : PPfun ROps) (m : Mixture ROps) id mem mix com (c : Curve ROps) :
  cv_xs c <> [] -> length (cv_J c) = length (cv_xs c) -> length (cv_P c) = length (cv_xs c) ->
  Forall (fun x : Composition ROps => 0 <= cp x <= 1 /\ ctype x = Weight) (cv_xs c) -> Forall wf_pair (cv_P c) ->
  exists table, save_curve ROps id mem mix com c = Ok table /\ load_curve ROps PP m table = Ok c.
Proof.
  intros Hne HJ HP Hx Hwf.
  assert (Hw : mapM (fun x => to_weight ROps x m) (cv_xs c) = Ok (cv_xs c)).
  { clear -Hx. induction Hx as [|x xs [_ Ht] _ IH]; [reflexivity|]. cbn [mapM]. rewrite (to_weight_idem _ x Ht). cbn [bind]. rewrite IH. reflexivity. }
  destruct (curve_roundtrip PP m id mem mix com c (cv_xs c) Hne HJ HP) as [tbl [Hs [_ Hl]]]; try assumption.
  { eapply Forall_impl; [|exact Hx]. intros x [H _]; exact H. }
  exists tbl. split; [exact Hs|]. rewrite Hl. destruct c; reflexivity.
Qed.

(* a table whose flux AND permeance columns both have holes is rejected *)
Lemma load_curve_needs_data (PP : PPfun ROps) (m : Mixture ROps) row0 rest :
  all_present ROps 8 (row0 :: rest) && all_present ROps 9 (row0 :: rest) = false ->
  all_present ROps 10 (row0 :: rest) && all_present ROps 11 (row0 :: rest) && all_present ROps 12 (row0 :: rest) = false ->
  load_curve ROps PP m (row0 :: rest) = Err ValueError.
Proof. intros HJ HP. unfold load_curve. rewrite HJ, HP. reflexivity. Qed.
