(* Curves built from permeances: reported fluxes, and re-inversion of those fluxes (C09). *)
From Coq Require Import Reals Lra ZArith Bool Arith Lia List.
From PV Require Import Num PyBase Model.Component Model.Mixture Model.Permeance Model.Solver Model.Process Model.Curve
  Model.Persist Model.PersistCurve
  Lemmas.RTac Lemmas.Composition Lemmas.Permeance Lemmas.Solver Lemmas.Process Lemmas.Curve Lemmas.PersistCurve.
Import ListNotations.
Local Open Scope R_scope.

Definition fluxes_of (Ps : list (Permeance ROps * Permeance ROps)) (pfs : list (R * R)) : list (R * R) :=
  map (fun q : (Permeance ROps * Permeance ROps) * (R * R) => (pval (fst (fst q)) * fst (snd q), pval (snd (fst q)) * snd (snd q))) (combine Ps pfs).

Lemma fluxes_of_cons P Ps pf pfs :
  fluxes_of (P :: Ps) (pf :: pfs) = (pval (fst P) * fst pf, pval (snd P) * snd pf) :: fluxes_of Ps pfs.
Proof. reflexivity. Qed.

Lemma map3M_fluxes (Ps : list (Permeance ROps * Permeance ROps)) (pfs : list (R * R)) : length pfs = length Ps ->
  map3M (fun p pf (_ : unit) => Ok (mul ROps (pval (fst p)) (fst pf), mul ROps (pval (snd p)) (snd pf))) Ps pfs (map (fun _ => tt) Ps)
  = Ok (fluxes_of Ps pfs).
Proof.
  revert pfs. induction Ps as [|P Ps IH]; intros [|pf pfs] H; try discriminate; [reflexivity|].
  cbn [map map3M bind]. rewrite IH by (cbn in H; lia). reflexivity.
Qed.

Lemma mapM_length {A B} (f : A -> res B) l r : mapM f l = Ok r -> length r = length l.
Proof.
  revert r. induction l as [|a t IH]; intros r; cbn [mapM].
  - intros H; injection H as <-. reflexivity.
  - destruct (f a); [|discriminate]. cbn [bind]. destruct (mapM f t) as [bs|]; [|discriminate]. cbn [bind].
    intros H; injection H as <-. cbn [length]. rewrite (IH bs eq_refl). reflexivity.
Qed.

(* a curve given permeances in kg units (what conversion leaves) reports fluxes = permeance x feed partial pressure and
   the permeances themselves; the permeate condition is stored but not used *)
Theorem curve_from_permeances PP (m : Mixture ROps) T xs Tp pp Ps pfs :
  Forall wf_pair Ps -> length Ps = length xs -> mapM (fun x => PP T x NRTL) xs = Ok pfs ->
  mk_curve ROps PP m (Build_CurveIn ROps T xs None Tp pp (Some Ps))
  = Ok (Build_Curve ROps T xs (fluxes_of Ps pfs) Tp pp Ps).
Proof.
  intros Hwf Hlen Hpf. unfold mk_curve. cbn [ci_J ci_P ci_T ci_xs ci_Tp ci_pp]. rewrite Hpf. cbn [bind].
  rewrite (convert_pairs_kg m Ps Hwf). cbn [bind].
  pose proof (mapM_length _ _ _ Hpf) as HL. change (num ROps) with R in *.
  rewrite map3M_fluxes by lia. cbn [bind].
  rewrite (convert_pairs_kg m Ps Hwf). reflexivity.
Qed.

(* ... and a curve built (in vacuum) from exactly those fluxes returns the original permeances *)
Definition pos2 (p : R * R) : Prop := 0 < fst p /\ 0 < snd p.
Definition wf_pos (P : Permeance ROps * Permeance ROps) : Prop :=
  punits (fst P) = KG /\ punits (snd P) = KG /\ 0 < pval (fst P) /\ 0 < pval (snd P).

Lemma reinvert_points PP (m : Mixture ROps) Ps pfs : Forall wf_pos Ps -> Forall pos2 pfs -> length pfs = length Ps ->
  exists ys, mapM (point_permeate_comp ROps) (fluxes_of Ps pfs) = Ok ys /\
    map3M (invert_point ROps PP m None None) (fluxes_of Ps pfs) pfs ys = Ok Ps.
Proof.
  intros HP. revert pfs. induction HP as [|P Ps [U1 [U2 [V1 V2]]] _ IH]; intros [|pf pfs] Hpf Hlen; try discriminate.
  - exists []. split; reflexivity.
  - inversion Hpf as [|? ? [F1 F2] Hpf']; subst.
    destruct (IH pfs Hpf' ltac:(cbn in Hlen; lia)) as [ys [E1 E2]]. change (num ROps) with R in E1, E2.
    rewrite fluxes_of_cons. cbn [mapM].
    unfold point_permeate_comp at 1. cbn [fst snd]. rnum.
    set (j1 := pval (fst P) * fst pf). set (j2 := pval (snd P) * snd pf).
    assert (J1 : 0 < j1) by (apply Rmult_lt_0_compat; assumption).
    assert (J2 : 0 < j2) by (apply Rmult_lt_0_compat; assumption).
    assert (Hy : 0 <= j1 / (0 + j1 + j2) <= 1).
    { split.
      - apply Rlt_le, Rdiv_lt_0_compat; lra.
      - apply (Rmult_le_reg_r (0 + j1 + j2)); [lra|]. unfold Rdiv. rewrite Rmult_assoc, Rinv_l by lra. lra. }
    rewrite (mk_comp_R_ok _ Weight Hy). cbn [bind].
    exists (RC (j1 / (0 + j1 + j2)) Weight :: ys). split.
    { change (num ROps) with R. rewrite E1. reflexivity. }
    cbn [map3M]. unfold invert_point at 1. cbn [bind fst snd]. rnum.
    change (num ROps) with R. rewrite E2. cbn [bind]. f_equal. f_equal.
    destruct P as [[v1 u1] [v2 u2]]. cbn [fst snd pval punits] in *. subst. unfold j1, j2.
    rewrite !div_mul_cancel by lra. rewrite !mk_permeance_id by lra. reflexivity.
Qed.

Theorem curve_reinversion PP (m : Mixture ROps) T xs Tp pp Ps pfs :
  Forall wf_pos Ps -> Forall pos2 pfs -> length Ps = length xs -> mapM (fun x => PP T x NRTL) xs = Ok pfs ->
  exists c, mk_curve ROps PP m (Build_CurveIn ROps T xs None Tp pp (Some Ps)) = Ok c /\
    mk_curve ROps PP m (Build_CurveIn ROps T xs (Some (cv_J c)) None None None)
    = Ok (Build_Curve ROps T xs (cv_J c) None None Ps).
Proof.
  intros HP Hpf Hlen Hpp.
  assert (Hwf : Forall wf_pair Ps).
  { eapply Forall_impl; [|exact HP]. intros P [U1 [U2 [V1 V2]]]. unfold wf_pair. repeat split; try assumption; lra. }
  eexists. split; [apply (curve_from_permeances PP m T xs Tp pp Ps pfs Hwf Hlen Hpp)|].
  cbn [cv_J]. unfold mk_curve. cbn [ci_J ci_P ci_T ci_xs ci_Tp ci_pp].
  pose proof (mapM_length _ _ _ Hpp) as HL. change (num ROps) with R in *.
  destruct (reinvert_points PP m Ps pfs HP Hpf) as [ys [E1 E2]]; [lia|]. change (num ROps) with R in E1, E2. rewrite E1. cbn [bind]. rewrite Hpp. cbn [bind]. rewrite E2. reflexivity.
Qed.
