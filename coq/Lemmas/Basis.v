(* Independence of the mole-/mass-fraction input basis (property C07). *)
From Coq Require Import Reals Lra ZArith Bool Arith Psatz Lia List.
From PV Require Import Num PyBase Model.Component Model.Mixture Model.Permeance Model.Solver Model.Process Model.Curve Model.Fit
  Lemmas.RTac Lemmas.Composition Lemmas.Thermo Lemmas.Activity Lemmas.Solver Lemmas.Process.
Import ListNotations.
Local Open Scope R_scope.

Section Basis.
  Variable m : Mixture ROps.
  Hypothesis HM1 : 0 < mw (c1 m).
  Hypothesis HM2 : 0 < mw (c2 m).
  Notation M1 := (mw (c1 m)). Notation M2 := (mw (c2 m)).
  (* the same physical composition in the two bases *)
  Definition as_weight (w : R) : Composition ROps := RC w Weight.
  Definition as_molar (w : R) : Composition ROps := RC (fmolar M1 M2 w) Molar.

  Lemma to_weight_as_molar w : 0 <= w <= 1 -> to_weight ROps (as_molar w) m = Ok (as_weight w).
  Proof.
    intros Hw. unfold as_molar, as_weight.
    rewrite (to_weight_molar_R m HM1 HM2) by (apply fmolar_range; assumption).
    rewrite (fweight_fmolar m HM1 HM2) by assumption. reflexivity.
  Qed.
  Lemma to_weight_as_weight w : to_weight ROps (as_weight w) m = Ok (as_weight w).
  Proof. reflexivity. Qed.
  Lemma to_molar_as_weight w : 0 <= w <= 1 -> to_molar ROps (as_weight w) m = Ok (as_molar w).
  Proof. intros Hw. exact (to_molar_weight_R m HM1 HM2 w Hw). Qed.
  Lemma to_molar_as_molar w : to_molar ROps (as_molar w) m = Ok (as_molar w).
  Proof. reflexivity. Qed.

  Definition set_feed (a : FluxArgs ROps) (x : Composition ROps) : FluxArgs ROps :=
    Build_FluxArgs ROps (fa_P1 a) (fa_P2 a) (fa_y a) x (fa_T a) (fa_Tp a) (fa_pp a) (fa_ct a).

  (* the driving-force function *)
  Lemma flux_feed_basis spec fix4 a w : 0 <= w <= 1 ->
    fluxes_from_permeate_gen ROps spec fix4 m (set_feed a (as_weight w))
    = fluxes_from_permeate_gen ROps spec fix4 m (set_feed a (as_molar w)).
  Proof.
    intros Hw. unfold fluxes_from_permeate_gen, set_feed. cbn [fa_T fa_x fa_ct fa_P1 fa_P2].
    unfold as_weight, as_molar. rewrite (pp_basis m HM1 HM2 spec _ w _ Hw). reflexivity.
  Qed.

  Lemma solve_loop_ext (F F' : Composition ROps -> res (R * R)) prec fuel d y :
    (forall y, F y = F' y) -> solve_loop ROps fuel F prec d y = solve_loop ROps fuel F' prec d y.
  Proof.
    intros HF. revert d y. induction fuel as [|f IH]; intros d y; cbn [solve_loop]; [reflexivity|].
    destruct (leb ROps prec d); [|reflexivity]. rewrite HF. destruct (F' y) as [J|]; cbn [bind]; [|reflexivity].
    destruct (comp_of_fluxes ROps J) as [y1|]; cbn [bind]; [apply IH | reflexivity].
  Qed.

  Definition set_sx (a : SolveArgs ROps) (x : Composition ROps) : SolveArgs ROps :=
    Build_SolveArgs ROps (sa_T a) x (sa_prec a) (sa_Tp a) (sa_pp a) (sa_P1 a) (sa_P2 a) (sa_ct a).

  (* the flux solver *)
  Lemma solve_basis spec fix4 perm a w : 0 <= w <= 1 ->
    solve_gen ROps spec fix4 m perm (set_sx a (as_weight w)) = solve_gen ROps spec fix4 m perm (set_sx a (as_molar w)).
  Proof.
    intros Hw. unfold solve_gen, solve_with, set_sx, resolve_permeances. cbn [sa_T sa_x sa_ct sa_prec sa_P1 sa_P2].
    match goal with |- bind ?X _ = bind ?X _ => destruct X as [P|]; cbn [bind]; [|reflexivity] end.
    unfold as_weight, as_molar. rewrite (pp_basis m HM1 HM2 spec _ w _ Hw).
    match goal with |- bind ?X _ = bind ?X _ => destruct X as [pf|]; cbn [bind]; [|reflexivity] end.
    match goal with |- bind ?X _ = bind ?X _ => destruct X as [y0|]; cbn [bind]; [|reflexivity] end.
    assert (HF : forall y,
      fluxes_from_permeate_gen ROps spec fix4 m
        (mk_flux_args ROps (Build_SolveArgs ROps (sa_T a) (RC w Weight) (sa_prec a) (sa_Tp a) (sa_pp a) (sa_P1 a) (sa_P2 a) (sa_ct a)) P y)
      = fluxes_from_permeate_gen ROps spec fix4 m
        (mk_flux_args ROps (Build_SolveArgs ROps (sa_T a) (RC (fmolar M1 M2 w) Molar) (sa_prec a) (sa_Tp a) (sa_pp a) (sa_P1 a) (sa_P2 a) (sa_ct a)) P y)).
    { intros y.
      exact (flux_feed_basis spec fix4 (Build_FluxArgs ROps (fst P) (snd P) y (RC w Weight) (sa_T a) (sa_Tp a) (sa_pp a) (sa_ct a)) w Hw). }
    rewrite (solve_loop_ext _ _ _ _ _ _ HF).
    match goal with |- bind ?X _ = bind ?X _ => destruct X as [y|]; cbn [bind]; [|reflexivity] end.
    apply HF.
  Qed.

  (* helpers, for any flux calculation that is itself basis independent *)
  Lemma separation_factor_basis (slv : SolveArgs ROps -> res (R * R)) a w : 0 <= w <= 1 ->
    slv (set_sx a (as_weight w)) = slv (set_sx a (as_molar w)) ->
    separation_factor ROps m slv (set_sx a (as_weight w)) = separation_factor ROps m slv (set_sx a (as_molar w)).
  Proof.
    intros Hw Hs. unfold separation_factor, permeate_composition. rewrite <- Hs.
    destruct (slv (set_sx a (as_weight w))) as [J|]; cbn [bind]; [|reflexivity].
    destruct (mk_comp ROps _ Weight) as [y|]; cbn [bind]; [|reflexivity].
    cbn [set_sx sa_x]. rewrite to_weight_as_molar by exact Hw. reflexivity.
  Qed.

  (* measurement points extracted from a curve given in either basis *)
  Lemma measurement_point_basis (second_comp : bool) T w P : 0 <= w <= 1 ->
    curve_measurements ROps m second_comp (Build_CurvePts ROps T [(as_molar w, P)])
    = curve_measurements ROps m second_comp (Build_CurvePts ROps T [(as_weight w, P)]).
  Proof.
    intros Hw. unfold curve_measurements. cbn [cs_pts mapM fst snd cs_T].
    rewrite to_weight_as_molar by exact Hw. reflexivity.
  Qed.

  (* processes: the initial composition enters only through to_weight *)
  Definition set_x0 (cd : Conditions ROps) (x : Composition ROps) : Conditions ROps :=
    Build_Conditions ROps (cd_A cd) (cd_T0 cd) (cd_m0 cd) x (cd_Tp cd) (cd_pp cd) (cd_prog cd).

  Lemma run_from_x0 kind cd x dt prec ct slv perm f1 f2 FR1 FR2 n k st :
    run_from ROps kind m (set_x0 cd x) dt prec ct slv perm f1 f2 FR1 FR2 n k st
    = run_from ROps kind m cd dt prec ct slv perm f1 f2 FR1 FR2 n k st.
  Proof.
    revert k st. induction n as [|n IH]; intros k st; cbn [run_from]; [reflexivity|].
    replace (step ROps kind m (set_x0 cd x) dt prec ct slv perm f1 f2 FR1 FR2 k st)
      with (step ROps kind m cd dt prec ct slv perm f1 f2 FR1 FR2 k st) by reflexivity.
    destruct (step ROps kind m cd dt prec ct slv perm f1 f2 FR1 FR2 k st) as [rs|]; cbn [bind]; [|reflexivity].
    rewrite IH. reflexivity.
  Qed.

  Lemma ideal_isothermal_basis cd w n dt prec ct slv perm : 0 <= w <= 1 ->
    ideal_isothermal ROps m (set_x0 cd (as_molar w)) n dt prec ct slv perm
    = ideal_isothermal ROps m (set_x0 cd (as_weight w)) n dt prec ct slv perm.
  Proof.
    intros Hw. unfold ideal_isothermal. cbn [set_x0 cd_T0 cd_x0 cd_m0].
    rewrite to_weight_as_molar by exact Hw. rewrite to_weight_as_weight.
    destruct (perm (cd_T0 cd) (c1 m)); cbn [bind]; [|reflexivity].
    destruct (perm (cd_T0 cd) (c2 m)); cbn [bind]; [|reflexivity].
    rewrite !run_from_x0. reflexivity.
  Qed.

  Lemma ideal_non_isothermal_basis cd w n dt prec ct slv perm : 0 <= w <= 1 ->
    ideal_non_isothermal ROps m (set_x0 cd (as_molar w)) n dt prec ct slv perm
    = ideal_non_isothermal ROps m (set_x0 cd (as_weight w)) n dt prec ct slv perm.
  Proof.
    intros Hw. unfold ideal_non_isothermal. cbn [set_x0 cd_T0 cd_x0 cd_m0].
    rewrite to_weight_as_molar by exact Hw. rewrite to_weight_as_weight. cbn [bind].
    rewrite !run_from_x0. reflexivity.
  Qed.

  Lemma non_ideal_process_basis iso cd w n dt prec ct slv f1 f2 ip : 0 <= w <= 1 ->
    non_ideal_process ROps iso m (set_x0 cd (as_molar w)) n dt prec ct slv f1 f2 ip
    = non_ideal_process ROps iso m (set_x0 cd (as_weight w)) n dt prec ct slv f1 f2 ip.
  Proof.
    intros Hw. unfold non_ideal_process. cbn [set_x0 cd_T0 cd_x0 cd_m0].
    rewrite to_weight_as_molar by exact Hw. rewrite to_weight_as_weight. cbn [bind].
    destruct (nonideal_initial ROps m f1 f2 (as_weight w) (cd_T0 cd) ip); cbn [bind]; [|reflexivity].
    rewrite !run_from_x0. reflexivity.
  Qed.
End Basis.
