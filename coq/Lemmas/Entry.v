(* Diffusion curves: independence of the composition basis (C07) and agreement of entry points (C08). *)
From Coq Require Import Reals Lra ZArith Bool Arith Lia List.
From PV Require Import Num PyBase Model.Component Model.Mixture Model.Permeance Model.Solver Model.Process Model.Curve
  Lemmas.RTac Lemmas.Composition Lemmas.Permeance Lemmas.Thermo Lemmas.Activity Lemmas.Solver Lemmas.Process Lemmas.Curve Lemmas.Basis.
Import ListNotations.
Local Open Scope R_scope.

Lemma mapM_ext_map {A B C} (f : B -> res C) (g g' : A -> B) (P : A -> Prop) l :
  Forall P l -> (forall a, P a -> f (g a) = f (g' a)) -> mapM f (map g l) = mapM f (map g' l).
Proof.
  intros HP Hf. induction HP as [|a t Ha _ IH]; [reflexivity|].
  cbn [map mapM]. rewrite (Hf a Ha), IH. reflexivity.
Qed.

(* what a curve exposes apart from the encoding of its feed compositions *)
Definition curve_data (c : Curve ROps) := (cv_T c, cv_J c, cv_Tp c, cv_pp c, cv_P c).
Definition lift {A B} (h : A -> B) (r : res A) : res B := match r with Ok a => Ok (h a) | Err e => Err e end.

Section CurveBasis.
  Variable m : Mixture ROps.
  Hypothesis HM1 : 0 < mw (c1 m).
  Hypothesis HM2 : 0 < mw (c2 m).
  Variable PP : PPfun ROps.
  (* the partial-pressure function does not depend on the basis (true of the real one: [real_PP_basis] below) *)
  Hypothesis HPP : forall T w ct, 0 <= w <= 1 -> PP T (as_weight w) ct = PP T (as_molar m w) ct.
  Definition unit_frac (w : R) : Prop := 0 <= w <= 1.

  Lemma pfs_basis T ws : Forall unit_frac ws ->
    mapM (fun x => PP T x NRTL) (map as_weight ws) = mapM (fun x => PP T x NRTL) (map (as_molar m) ws).
  Proof. intros H. apply (mapM_ext_map (fun x => PP T x NRTL) as_weight (as_molar m) unit_frac ws H). intros w Hw. apply HPP. exact Hw. Qed.

  (* DiffusionCurve(...) from fluxes, from permeances, or from both *)
  Theorem mk_curve_basis T ws J Tp pp P : Forall unit_frac ws ->
    lift curve_data (mk_curve ROps PP m (Build_CurveIn ROps T (map as_weight ws) J Tp pp P))
    = lift curve_data (mk_curve ROps PP m (Build_CurveIn ROps T (map (as_molar m) ws) J Tp pp P)).
  Proof.
    intros Hw. unfold mk_curve. cbn [ci_J ci_P ci_T ci_xs ci_Tp ci_pp]. destruct J as [Js|], P as [Ps|].
    - destruct (mapM (convert_pair ROps m) Ps); reflexivity.
    - destruct (mapM (point_permeate_comp ROps) Js) as [ys|]; cbn [bind lift]; [|reflexivity].
      rewrite (pfs_basis T ws Hw). destruct (mapM _ (map (as_molar m) ws)) as [pfs|]; cbn [bind lift]; [|reflexivity].
      destruct (map3M _ Js pfs ys); reflexivity.
    - rewrite (pfs_basis T ws Hw). destruct (mapM _ (map (as_molar m) ws)) as [pfs|]; cbn [bind lift]; [|reflexivity].
      destruct (mapM (convert_pair ROps m) Ps) as [P'|]; cbn [bind lift]; [|reflexivity].
      destruct (map3M _ P' pfs _) as [Js|]; cbn [bind lift]; [|reflexivity].
      destruct (mapM (convert_pair ROps m) P'); reflexivity.
    - reflexivity.
  Qed.

  (* the separation factor of a curve (which converts the feed to mass fractions itself) *)
  Theorem curve_separation_factor_basis T ws J Tp pp P : Forall unit_frac ws ->
    curve_separation_factor ROps m (Build_Curve ROps T (map as_weight ws) J Tp pp P)
    = curve_separation_factor ROps m (Build_Curve ROps T (map (as_molar m) ws) J Tp pp P).
  Proof.
    intros Hw. unfold curve_separation_factor, curve_permeate_composition. cbn [cv_J cv_xs].
    destruct (mapM (point_permeate_comp ROps) J) as [ys|]; cbn [bind]; [|reflexivity].
    rewrite (mapM_ext_map (fun x => to_weight ROps x m) as_weight (as_molar m) unit_frac ws Hw); [reflexivity|].
    intros w Hww. rewrite (to_weight_as_molar m HM1 HM2 w Hww). reflexivity.
  Qed.

  (* Pervaporation.ideal_diffusion_curve, for any flux calculation that is itself basis independent *)
  Theorem ideal_curve_basis (slv : SolveArgs ROps -> res (R * R)) T ws Tp pp prec ct :
    (forall a w, 0 <= w <= 1 -> slv (set_sx a (as_weight w)) = slv (set_sx a (as_molar m w))) -> Forall unit_frac ws ->
    lift curve_data (ideal_diffusion_curve ROps PP m slv T (map as_weight ws) Tp pp prec ct)
    = lift curve_data (ideal_diffusion_curve ROps PP m slv T (map (as_molar m) ws) Tp pp prec ct).
  Proof.
    intros Hslv Hw. unfold ideal_diffusion_curve. change (num ROps) with R.
    pose (a0 := Build_SolveArgs ROps T (as_weight 0) prec Tp pp None None ct).
    rewrite (mapM_ext_map (fun x => slv (Build_SolveArgs ROps T x prec Tp pp None None ct)) as_weight (as_molar m) unit_frac ws Hw).
    2:{ intros w Hww. exact (Hslv a0 w Hww). }
    destruct (mapM _ (map (as_molar m) ws)) as [Js|]; cbn [bind]; [|reflexivity].
    apply mk_curve_basis. exact Hw.
  Qed.
End CurveBasis.

Lemma real_PP_basis (m : Mixture ROps) : 0 < mw (c1 m) -> 0 < mw (c2 m) ->
  forall T w ct, 0 <= w <= 1 -> real_PP ROps m T (as_weight w) ct = real_PP ROps m T (as_molar m w) ct.
Proof. intros H1 H2 T w ct Hw. unfold real_PP, partial_pressures. exact (pp_basis m H1 H2 false T w ct Hw). Qed.

(* ---------------- C08: entry points ---------------- *)
(* the fluxes of an ideal diffusion curve are the standalone flux calculation at each feed composition, with the same
   temperature, precision, permeate condition and activity model and the membrane's own permeances *)
Theorem ideal_curve_fluxes PP (m : Mixture ROps) slv T xs Tp pp prec ct c :
  ideal_diffusion_curve ROps PP m slv T xs Tp pp prec ct = Ok c ->
  mapM (fun x => slv (Build_SolveArgs ROps T x prec Tp pp None None ct)) xs = Ok (cv_J c) /\ cv_xs c = xs /\ cv_T c = T
  /\ cv_Tp c = Tp /\ cv_pp c = pp.
Proof.
  unfold ideal_diffusion_curve. destruct (mapM _ xs) as [Js|]; [|discriminate]. cbn [bind].
  unfold mk_curve. cbn [ci_J ci_P ci_T ci_xs ci_Tp ci_pp].
  destruct (mapM (point_permeate_comp ROps) Js) as [ys|]; [|discriminate]. cbn [bind].
  destruct (mapM _ xs) as [pfs|]; [|discriminate]. cbn [bind].
  destruct (map3M _ Js pfs ys) as [P|]; [|discriminate]. cbn [bind].
  intros H; injection H as <-. cbn [cv_J cv_xs cv_T cv_Tp cv_pp]. repeat split; reflexivity.
Qed.

(* a calculation that resolves the permeances through the membrane is the calculation with those permeances supplied *)
Theorem solve_resolved spec fix4 (m : Mixture ROps) perm perm' (a : SolveArgs ROps) P :
  resolve_permeances ROps m perm a = Ok P ->
  solve_gen ROps spec fix4 m perm a
  = solve_gen ROps spec fix4 m perm' (Build_SolveArgs ROps (sa_T a) (sa_x a) (sa_prec a) (sa_Tp a) (sa_pp a) (Some (fst P)) (Some (snd P)) (sa_ct a)).
Proof.
  intros H. unfold solve_gen, solve_with. rewrite H. cbn [bind].
  unfold resolve_permeances at 1. cbn [sa_P1 sa_P2 sa_T sa_x sa_ct sa_prec bind]. destruct P as [p1 p2]. reflexivity.
Qed.

(* step 0 of every process entry point is the standalone flux calculation at the stated initial temperature and the
   initial composition converted to mass fractions, with the run's precision, permeate condition and activity model and
   the permeances reported for step 0 *)
Section Step0.
  Variables (m : Mixture ROps) (cd : Conditions ROps) (n : nat) (dt prec : R) (ct : ActModel).
  Variable slv : SolveArgs ROps -> res (R * R).

  Definition step0_statement (rows : list (PRow ROps)) : Prop :=
    forall row, nth_error rows 0 = Some row ->
    exists x0, to_weight ROps (cd_x0 cd) m = Ok x0 /\ r_T row = cd_T0 cd /\ r_x row = x0 /\ r_m row = cd_m0 cd /\
      slv (Build_SolveArgs ROps (cd_T0 cd) x0 prec (cd_Tp cd) (cd_pp cd) (Some (fst (r_P row))) (Some (snd (r_P row))) ct)
      = Ok (r_J row).

  Lemma step0_of_run kind perm f1 f2 FR1 FR2 x0 P rows : to_weight ROps (cd_x0 cd) m = Ok x0 ->
    run_from ROps kind m cd dt prec ct slv perm f1 f2 FR1 FR2 n 0 (Build_PState ROps (cd_m0 cd) x0 (cd_T0 cd) P) = Ok rows ->
    step0_statement rows.
  Proof.
    intros Hx Hrun row Hrow. exists x0. split; [exact Hx|].
    destruct (first_row kind m cd dt prec ct slv perm f1 f2 FR1 FR2 n 0 _ rows Hrun row Hrow) as [Hm [Hxr HT]].
    cbn [st_m st_x st_T] in *.
    destruct (flux_is_solver kind m cd dt prec ct slv perm f1 f2 FR1 FR2 n 0 _ rows Hrun 0 row Hrow) as [HJ _].
    rewrite HT, Hxr in HJ. repeat split; assumption.
  Qed.

  Theorem step0_ideal_isothermal perm rows : ideal_isothermal ROps m cd n dt prec ct slv perm = Ok rows -> step0_statement rows.
  Proof.
    intros H. destruct (entry_ideal_iso m cd n dt prec ct slv perm rows H) as [p1 [p2 [x0 [_ [_ [Hx Hrun]]]]]].
    exact (step0_of_run _ _ _ _ _ _ x0 _ rows Hx Hrun).
  Qed.
  Theorem step0_ideal_non_isothermal perm rows : ideal_non_isothermal ROps m cd n dt prec ct slv perm = Ok rows -> step0_statement rows.
  Proof.
    intros H. destruct (entry_ideal_noniso m cd n dt prec ct slv perm rows H) as [x0 [P [Hx Hrun]]].
    exact (step0_of_run _ _ _ _ _ _ x0 _ rows Hx Hrun).
  Qed.
  Theorem step0_non_ideal iso f1 f2 ip rows : non_ideal_process ROps iso m cd n dt prec ct slv f1 f2 ip = Ok rows -> step0_statement rows.
  Proof.
    intros H. destruct (entry_nonideal iso m cd n dt prec ct slv f1 f2 ip rows H) as [x0 [P0 [FR1 [FR2 [Hx [_ Hrun]]]]]].
    exact (step0_of_run _ _ _ _ _ _ x0 _ rows Hx Hrun).
  Qed.
End Step0.
