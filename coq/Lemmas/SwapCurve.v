(* Relabelling symmetry of DiffusionCurve construction from fluxes, of the ideal diffusion curve and of the
   selectivity / separation-factor metrics (C06). *)
From Coq Require Import Reals Lra ZArith Bool Arith Lia List.
From PV Require Import Num PyBase Model.Component Model.Mixture Model.Permeance Model.Solver Model.Process Model.Curve
  Lemmas.RTac Lemmas.Composition Lemmas.Permeance Lemmas.Thermo Lemmas.Activity Lemmas.Solver Lemmas.Process Lemmas.Curve Lemmas.Swap.
From PV Require Import Lemmas.SwapSolve.
Import ListNotations.
Local Open Scope R_scope.

Definition lift {A B} (h : A -> B) (r : res A) : res B := match r with Ok a => Ok (h a) | Err e => Err e end.

Lemma mapM_swap {A B} (f f' : A -> res B) (g : A -> A) (h : B -> B) (P : A -> Prop) l :
  Forall P l -> (forall a, P a -> f' (g a) = lift h (f a)) ->
  mapM f' (map g l) = lift (map h) (mapM f l).
Proof.
  intros HP Hf. induction HP as [|a t Ha _ IH]; [reflexivity|].
  cbn [map mapM]. rewrite (Hf a Ha). destruct (f a) as [b|]; cbn [lift bind]; [|reflexivity].
  rewrite IH. destruct (mapM f t); reflexivity.
Qed.

Lemma mapM_Forall2 {A B} (f : A -> res B) (P : A -> Prop) (Q : B -> Prop) l r :
  Forall P l -> (forall a b, P a -> f a = Ok b -> Q b) -> mapM f l = Ok r -> Forall Q r.
Proof.
  intros HP Hf. revert r. induction HP as [|a t Ha _ IH]; intros r; cbn [mapM].
  - intros H; injection H as <-. constructor.
  - destruct (f a) as [b|] eqn:E; [|discriminate]. cbn [bind].
    destruct (mapM f t) as [bs|]; [|discriminate]. cbn [bind]. intros H; injection H as <-.
    constructor; [exact (Hf a b Ha E) | apply IH; reflexivity].
Qed.

Lemma map3M_swap {A B C D} (f f' : A -> B -> C -> res D) ga gb gc (h : D -> D) (Q : C -> Prop) la lb lc :
  Forall Q lc -> (forall a b c, Q c -> f' (ga a) (gb b) (gc c) = lift h (f a b c)) ->
  map3M f' (map ga la) (map gb lb) (map gc lc) = lift (map h) (map3M f la lb lc).
Proof.
  intros HQ Hf. revert lb lc HQ. induction la as [|a ta IH]; intros lb lc HQ; [reflexivity|].
  destruct lb as [|b tb]; [reflexivity|]. destruct lc as [|c tc]; [reflexivity|].
  inversion HQ as [|? ? Hc Ht]; subst. cbn [map map3M]. rewrite (Hf a b c Hc).
  destruct (f a b c) as [d|]; cbn [lift bind]; [|reflexivity].
  rewrite (IH tb tc Ht). destruct (map3M f ta tb tc); reflexivity.
Qed.

Definition swap_curve (c : Curve ROps) : Curve ROps :=
  Build_Curve ROps (cv_T c) (map swap_comp (cv_xs c)) (map swap_pair (cv_J c)) (cv_Tp c) (cv_pp c) (map swap_pair (cv_P c)).
Definition swap_curve_in (c : CurveIn ROps) : CurveIn ROps :=
  Build_CurveIn ROps (ci_T c) (map swap_comp (ci_xs c)) (option_map (map swap_pair) (ci_J c)) (ci_Tp c) (ci_pp c)
                (option_map (map swap_pair) (ci_P c)).

Section CurveSwap.
  Variables (PP PP' : PPfun ROps) (m : Mixture ROps).
  Hypothesis HPP : forall T x ct, interior x -> PP' T (swap_comp x) ct = swap_res (PP T x ct).
  Hypothesis HM1 : 0 < mw (c1 m).
  Hypothesis HM2 : 0 < mw (c2 m).

  Lemma invert_point_swap Tp pp J pf y : interior y ->
    invert_point ROps PP' (swap_mixture m) Tp pp (swap_pair J) (swap_pair pf) (swap_comp y)
    = lift swap_pair (invert_point ROps PP m Tp pp J pf y).
  Proof.
    intros Hy. unfold invert_point. destruct Tp as [tp|], pp as [p|]; cbn [lift].
    - reflexivity.
    - rewrite (HPP tp y NRTL Hy). destruct (PP tp y NRTL) as [q|]; cbn [swap_res bind lift]; reflexivity.
    - rewrite (to_molar_swap m y HM1 HM2) by (unfold interior in Hy; lra).
      destruct (to_molar ROps y m) as [ym|]; cbn [bind lift]; [|reflexivity].
      destruct ym as [v t]. unfold swap_pair, first, second, swap_comp. cbn [fst snd cp]. rnum.
      replace (1 - (1 - v)) with v by ring. reflexivity.
    - reflexivity.
  Qed.

  Definition pos (J : R * R) : Prop := 0 < fst J /\ 0 < snd J.

  (* DiffusionCurve built from (positive) fluxes at interior feed compositions *)
  Lemma mk_curve_fluxes_swap T xs Js Tp pp : Forall interior xs -> Forall pos Js ->
    mk_curve ROps PP' (swap_mixture m) (Build_CurveIn ROps T (map swap_comp xs) (Some (map swap_pair Js)) Tp pp None)
    = lift swap_curve (mk_curve ROps PP m (Build_CurveIn ROps T xs (Some Js) Tp pp None)).
  Proof.
    intros Hx HJ. unfold mk_curve. cbn [ci_J ci_P ci_T ci_xs ci_Tp ci_pp]. change (num ROps) with R.
    rewrite (@mapM_swap (R * R) (Composition ROps) (point_permeate_comp ROps) (point_permeate_comp ROps) swap_pair swap_comp pos Js HJ).
    2:{ intros J [A B]. apply (comp_of_fluxes_swap J). lra. }
    destruct (@mapM (R * R) (Composition ROps) (point_permeate_comp ROps) Js) as [ys|] eqn:EY; cbn [lift bind]; [|reflexivity].
    rewrite (@mapM_swap (Composition ROps) (R * R) (fun x => PP T x NRTL) (fun x => PP' T x NRTL) swap_comp swap_pair interior xs Hx).
    2:{ intros x Hxi. rewrite (HPP T x NRTL Hxi). destruct (PP T x NRTL); reflexivity. }
    destruct (@mapM (Composition ROps) (R * R) (fun x => PP T x NRTL) xs) as [pfs|]; cbn [lift bind]; [|reflexivity].
    assert (Hys : Forall interior ys).
    { apply (mapM_Forall2 (point_permeate_comp ROps) pos interior Js ys HJ); [|exact EY].
      intros J y [A B] E. exact (comp_of_fluxes_interior J y A B E). }
    rewrite (@map3M_swap (R * R) (R * R) (Composition ROps) (Permeance ROps * Permeance ROps) (invert_point ROps PP m Tp pp) (invert_point ROps PP' (swap_mixture m) Tp pp) swap_pair swap_pair swap_comp swap_pair interior Js pfs ys Hys).
    2:{ intros J pf y Hy. apply invert_point_swap. exact Hy. }
    destruct (@map3M (R * R) (R * R) (Composition ROps) (Permeance ROps * Permeance ROps) (invert_point ROps PP m Tp pp) Js pfs ys) as [P|]; cbn [lift bind]; reflexivity.
  Qed.

  (* Pervaporation.ideal_diffusion_curve *)
  Theorem ideal_curve_swap (slv slv' : SolveArgs ROps -> res (R * R)) T xs Tp pp prec ct :
    (forall a, slv' (swap_sargs a) = swap_res (slv a)) -> (forall a J, slv a = Ok J -> pos J) -> Forall interior xs ->
    ideal_diffusion_curve ROps PP' (swap_mixture m) slv' T (map swap_comp xs) Tp pp prec ct
    = lift swap_curve (ideal_diffusion_curve ROps PP m slv T xs Tp pp prec ct).
  Proof.
    intros Hslv Hpos Hx. unfold ideal_diffusion_curve. change (num ROps) with R.
    pose (mk := fun x : Composition ROps => Build_SolveArgs ROps T x prec Tp pp None None ct).
    change (@mapM (Composition ROps) (R * R) (fun x => slv' (Build_SolveArgs ROps T x prec Tp pp None None ct)) (map swap_comp xs))
      with (@mapM (Composition ROps) (R * R) (fun x => slv' (mk x)) (map swap_comp xs)).
    change (@mapM (Composition ROps) (R * R) (fun x => slv (Build_SolveArgs ROps T x prec Tp pp None None ct)) xs)
      with (@mapM (Composition ROps) (R * R) (fun x => slv (mk x)) xs).
    rewrite (@mapM_swap (Composition ROps) (R * R) (fun x => slv (mk x)) (fun x => slv' (mk x)) swap_comp swap_pair (fun _ => True) xs).
    2:{ clear. induction xs; constructor; auto. }
    2:{ intros x _. change (mk (swap_comp x)) with (swap_sargs (mk x)). rewrite Hslv. destruct (slv (mk x)); reflexivity. }
    destruct (@mapM (Composition ROps) (R * R) (fun x => slv (mk x)) xs) as [Js|] eqn:EJ; cbn [lift bind]; [|reflexivity].
    apply mk_curve_fluxes_swap; [exact Hx|].
    apply (mapM_Forall (fun x => slv (mk x)) pos xs Js); [|exact EJ]. intros x J E. exact (Hpos _ _ E).
  Qed.
End CurveSwap.

(* selectivity (ratio of permeances in SI units) inverts; mass-based process selectivity inverts *)
Lemma process_selectivity_swap (P : Permeance ROps * Permeance ROps) : pval (fst P) <> 0 -> pval (snd P) <> 0 ->
  process_selectivity ROps (swap_pair P) = 1 / process_selectivity ROps P.
Proof. intros A B. unfold process_selectivity, swap_pair. cbn [fst snd]. rnum. field. split; assumption. Qed.

Lemma process_psi_swap (J : R * R) sf : process_psi ROps (swap_pair J) sf = process_psi ROps J sf.
Proof. unfold process_psi, swap_pair. cbn [fst snd]. rnum. ring. Qed.

(* ---- metrics of a curve ---- *)
Lemma fweight_swap M1 M2 x : 0 < M1 -> 0 < M2 -> 0 <= x <= 1 -> fweight M2 M1 (1 - x) = 1 - fweight M1 M2 x.
Proof.
  intros H1 H2 Hx. unfold fweight.
  assert (D : x * M1 + (1 - x) * M2 > 0) by nra.
  field. repeat split; try lra; apply Rgt_not_eq; nra.
Qed.

Lemma to_weight_swap (m : Mixture ROps) (c : Composition ROps) : 0 < mw (c1 m) -> 0 < mw (c2 m) -> 0 <= cp c <= 1 ->
  to_weight ROps (swap_comp c) (swap_mixture m) = lift swap_comp (to_weight ROps c m).
Proof.
  intros H1 H2 Hc. destruct c as [p t]. cbn [cp] in Hc. destruct t.
  - change (swap_comp (RC p Molar)) with (RC (1 - p) Molar).
    assert (Hc' : 0 <= 1 - p <= 1) by lra.
    rewrite (to_weight_molar_R (swap_mixture m) H2 H1 (1 - p) Hc').
    rewrite (to_weight_molar_R m H1 H2 p Hc). unfold lift, swap_comp. cbn [cp ctype swap_mixture c1 c2].
    rewrite fweight_swap by assumption. reflexivity.
  - reflexivity.
Qed.

(* selectivity of a curve point: permeances in kg units, positive *)
Definition wf_pos (P : Permeance ROps * Permeance ROps) : Prop :=
  punits (fst P) = KG /\ punits (snd P) = KG /\ 0 < pval (fst P) /\ 0 < pval (snd P).

Definition sel_point (m : Mixture ROps) (p : Permeance ROps * Permeance ROps) : res R :=
  a <- convert ROps (fst p) SI (Some (c1 m)) ;; b <- convert ROps (snd p) SI (Some (c2 m)) ;; Ok (pval a / pval b).

Lemma sel_point_swap (m : Mixture ROps) P : 0 < mw (c1 m) -> 0 < mw (c2 m) -> wf_pos P ->
  sel_point (swap_mixture m) (swap_pair P) = lift (fun s => 1 / s) (sel_point m P).
Proof.
  intros H1 H2 [U1 [U2 [V1 V2]]]. destruct P as [[v1 u1] [v2 u2]]. cbn [fst snd pval punits] in *. subst.
  unfold sel_point, swap_pair. cbn [fst snd swap_mixture c1 c2].
  rewrite !convert_ok by (try assumption; try lra; exact I). cbn [bind lift pval].
  f_equal. unfold cval. cbn [fac]. field. repeat split; lra.
Qed.

Lemma curve_selectivity_swap (m : Mixture ROps) (c : Curve ROps) : 0 < mw (c1 m) -> 0 < mw (c2 m) -> Forall wf_pos (cv_P c) ->
  curve_selectivity ROps (swap_mixture m) (swap_curve c) = lift (map (fun s => 1 / s)) (curve_selectivity ROps m c).
Proof.
  intros H1 H2 Hwf. unfold curve_selectivity, swap_curve. cbn [cv_P].
  change (mapM (sel_point (swap_mixture m)) (map swap_pair (cv_P c)) = lift (map (fun s => 1 / s)) (mapM (sel_point m) (cv_P c))).
  apply (mapM_swap (sel_point m) (sel_point (swap_mixture m)) swap_pair (fun s => 1 / s) wf_pos (cv_P c) Hwf).
  intros P HP. apply sel_point_swap; assumption.
Qed.

(* ---- separation factor of a curve ---- *)
Lemma to_weight_interior (m : Mixture ROps) (c xw : Composition ROps) : 0 < mw (c1 m) -> 0 < mw (c2 m) -> interior c ->
  to_weight ROps c m = Ok xw -> interior xw.
Proof.
  intros H1 H2 Hc. destruct c as [p t]. unfold interior in *. cbn [cp] in Hc. destruct t.
  - rewrite (to_weight_molar_R m H1 H2 p) by lra. intros E; injection E as <-. cbn [cp].
    pose proof (fweight_increasing m H1 H2 0 p) as A. pose proof (fweight_increasing m H1 H2 p 1) as B.
    rewrite fweight_0 in A by assumption. rewrite fweight_1 in B by assumption. split; [apply A; lra | apply B; lra].
  - rewrite to_weight_idem by reflexivity. intros E; injection E as <-. exact Hc.
Qed.

Definition sf_point (y x : Composition ROps) (_ : unit) : res R :=
  Ok ((first ROps y / second ROps y) / (first ROps x / second ROps x)).

Lemma sf_point_swap y x u : interior y -> interior x ->
  sf_point (swap_comp y) (swap_comp x) u = lift (fun s => 1 / s) (sf_point y x u).
Proof.
  intros [A B] [C D]. unfold sf_point, lift, swap_comp, first, second. destruct y as [vy ty], x as [vx tx]. cbn [cp] in *. rnum.
  f_equal. field. repeat split; lra.
Qed.

Lemma map3M_swap2 {A B C D} (f f' : A -> B -> C -> res D) ga gb (h : D -> D) (P : A -> Prop) (Q : B -> Prop) la lb lc :
  Forall P la -> Forall Q lb -> (forall a b c, P a -> Q b -> f' (ga a) (gb b) c = lift h (f a b c)) ->
  map3M f' (map ga la) (map gb lb) lc = lift (map h) (map3M f la lb lc).
Proof.
  intros HP HQ Hf. revert lb lc HQ. induction HP as [|a ta Ha _ IH]; intros lb lc HQ; [reflexivity|].
  destruct lb as [|b tb]; [reflexivity|]. destruct lc as [|c tc]; [reflexivity|].
  inversion HQ as [|? ? Hb Ht]; subst. cbn [map map3M]. rewrite (Hf a b c Ha Hb).
  destruct (f a b c) as [d|]; cbn [lift bind]; [|reflexivity].
  rewrite (IH tb tc Ht). destruct (map3M f ta tb tc); reflexivity.
Qed.

Lemma curve_separation_factor_swap (m : Mixture ROps) (c : Curve ROps) : 0 < mw (c1 m) -> 0 < mw (c2 m) ->
  Forall interior (cv_xs c) -> Forall pos (cv_J c) ->
  curve_separation_factor ROps (swap_mixture m) (swap_curve c) = lift (map (fun s => 1 / s)) (curve_separation_factor ROps m c).
Proof.
  intros H1 H2 Hx HJ. unfold curve_separation_factor, curve_permeate_composition, swap_curve. cbn [cv_J cv_xs]. change (num ROps) with R.
  rewrite (@mapM_swap (R * R) (Composition ROps) (point_permeate_comp ROps) (point_permeate_comp ROps) swap_pair swap_comp pos (cv_J c) HJ).
  2:{ intros J [A B]. apply (comp_of_fluxes_swap J). lra. }
  destruct (@mapM (R * R) (Composition ROps) (point_permeate_comp ROps) (cv_J c)) as [ys|] eqn:EY; cbn [lift bind]; [|reflexivity].
  rewrite (@mapM_swap (Composition ROps) (Composition ROps) (fun x => to_weight ROps x m) (fun x => to_weight ROps x (swap_mixture m)) swap_comp swap_comp interior (cv_xs c) Hx).
  2:{ intros x [A B]. apply to_weight_swap; try assumption. lra. }
  destruct (@mapM (Composition ROps) (Composition ROps) (fun x => to_weight ROps x m) (cv_xs c)) as [xw|] eqn:EX; cbn [lift bind]; [|reflexivity].
  assert (Hys : Forall interior ys).
  { apply (mapM_Forall2 (point_permeate_comp ROps) pos interior (cv_J c) ys HJ); [|exact EY].
    intros J y [A B] E. exact (comp_of_fluxes_interior J y A B E). }
  assert (Hxw : Forall interior xw).
  { apply (mapM_Forall2 (fun x => to_weight ROps x m) interior interior (cv_xs c) xw Hx); [|exact EX].
    intros x x' Hxi E. exact (to_weight_interior m x x' H1 H2 Hxi E). }
  rewrite map_map. cbn beta.
  change (map3M sf_point (map swap_comp ys) (map swap_comp xw) (map (fun _ => tt) ys)
          = lift (map (fun s => 1 / s)) (map3M sf_point ys xw (map (fun _ => tt) ys))).
  apply (map3M_swap2 sf_point sf_point swap_comp swap_comp (fun s => 1 / s) interior interior ys xw _ Hys Hxw).
  intros y x u Hy Hxi. apply sf_point_swap; assumption.
Qed.
