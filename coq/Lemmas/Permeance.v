(* Proofs about Permeance.convert over the reals (property C14). *)
From Coq Require Import Reals Lra ZArith Bool Arith Psatz.
From PV Require Import Num PyBase Model.Component Model.Permeance.
Local Open Scope R_scope.

Notation RP v u := (Build_Permeance ROps v u).

Definition known (u : Units) : Prop := match u with OtherUnit _ => False | _ => True end.

(* the SI value of one unit, for a component of molar mass M *)
Definition fac (M : R) (u : Units) : R :=
  match u with
  | GPU => 335 / 10 ^ 12
  | SI => 1
  | KG => 1 / (M * (36 * 10 ^ 2))
  | OtherUnit _ => 0
  end.

Lemma fac_pos M u : 0 < M -> known u -> 0 < fac M u.
Proof.
  intros HM K. destruct u; cbn [fac]; try contradiction.
  - apply Rdiv_lt_0_compat; [lra | apply pow_lt; lra].
  - lra.
  - apply Rdiv_lt_0_compat; [lra|]. apply Rmult_lt_0_compat; [exact HM|].
    apply Rmult_lt_0_compat; [lra | apply pow_lt; lra].
Qed.

Lemma conv_factor_R (k : Component ROps) u : known u ->
  conv_factor ROps (Some k) u = Ok (fac (mw k) u).
Proof. intros K. destruct u; try contradiction; reflexivity. Qed.

Lemma mk_permeance_nonneg v u : 0 <= pval (mk_permeance ROps v u).
Proof.
  unfold mk_permeance. cbn [pval]. rnum. unfold Rleb.
  destruct (Rle_dec 0 v); lra.
Qed.

Lemma mk_permeance_id v u : 0 <= v -> mk_permeance ROps v u = RP v u.
Proof.
  intros H. unfold mk_permeance. rnum. rewrite (proj2 (Rleb_true 0 v) H). reflexivity.
Qed.

Lemma units_eqb_refl u : units_eqb u u = true.
Proof. destruct u; cbn; try reflexivity. apply Nat.eqb_refl. Qed.
Lemma units_eqb_eq a b : units_eqb a b = true <-> a = b.
Proof.
  split; [|intros ->; apply units_eqb_refl].
  destruct a, b; cbn; try discriminate; try reflexivity.
  intros H. apply Nat.eqb_eq in H. congruence.
Qed.
Lemma units_eqb_neq a b : a <> b -> units_eqb a b = false.
Proof.
  intros H. destruct (units_eqb a b) eqn:E; [|reflexivity].
  apply units_eqb_eq in E. contradiction.
Qed.

Lemma convert_same v u c : convert ROps (RP v u) u c = Ok (RP v u).
Proof. unfold convert. cbn [punits]. rewrite units_eqb_refl. reflexivity. Qed.

(* the general formula (also covers to = from, where it reduces to the identity on values >= 0) *)
Lemma convert_formula (k : Component ROps) v u u' : 0 < mw k -> 0 <= v -> known u -> known u' ->
  exists w, convert ROps (RP v u) u' (Some k) = Ok (RP w u') /\ w = v * fac (mw k) u / fac (mw k) u'.
Proof.
  intros HM Hv K K'.
  pose proof (fac_pos (mw k) u HM K) as Fu. pose proof (fac_pos (mw k) u' HM K') as Fu'.
  unfold convert. cbn [punits pval].
  destruct (units_eqb u' u) eqn:E.
  - apply units_eqb_eq in E. subst u'. eexists; split; [reflexivity|]. rnum. field. lra.
  - rewrite !conv_factor_R by assumption. cbn [bind].
    assert (Hnn : 0 <= v * fac (mw k) u / fac (mw k) u').
    { apply Rmult_le_pos; [apply Rmult_le_pos; lra | left; apply Rinv_0_lt_compat; lra]. }
    destruct u'; try contradiction; (eexists; split; [rnum; rewrite mk_permeance_id by exact Hnn; reflexivity | reflexivity]).
Qed.

Definition cval (M v : R) (u u' : Units) : R := v * fac M u / fac M u'.

Lemma convert_ok (k : Component ROps) v u u' : 0 < mw k -> 0 <= v -> known u -> known u' ->
  convert ROps (RP v u) u' (Some k) = Ok (RP (cval (mw k) v u u') u').
Proof.
  intros HM Hv K K'. destruct (convert_formula k v u u' HM Hv K K') as [w [H1 H2]].
  rewrite H1, H2. reflexivity.
Qed.

Lemma cval_nonneg M v u u' : 0 < M -> 0 <= v -> known u -> known u' -> 0 <= cval M v u u'.
Proof.
  intros HM Hv K K'. pose proof (fac_pos M u HM K). pose proof (fac_pos M u' HM K').
  unfold cval. apply Rmult_le_pos; [apply Rmult_le_pos; lra | left; apply Rinv_0_lt_compat; lra].
Qed.

Lemma cval_linear M a v u u' : cval M (a * v) u u' = a * cval M v u u'.
Proof. unfold cval, Rdiv. ring. Qed.

Lemma cval_same M v u : 0 < M -> known u -> cval M v u u = v.
Proof. intros HM K. pose proof (fac_pos M u HM K). unfold cval. field. lra. Qed.

Lemma cval_path M v a b c : 0 < M -> known a -> known b -> known c ->
  cval M (cval M v a b) b c = cval M v a c.
Proof.
  intros HM Ka Kb Kc. pose proof (fac_pos M a HM Ka). pose proof (fac_pos M b HM Kb).
  pose proof (fac_pos M c HM Kc). unfold cval. field. split; lra.
Qed.

Lemma cval_inverse M v a b : 0 < M -> known a -> known b -> cval M (cval M v a b) b a = v.
Proof. intros. rewrite cval_path by assumption. apply cval_same; assumption. Qed.

Lemma kg_in_SI M : 0 < M -> cval M 1 KG SI = 1 / (3600 * M).
Proof. intros. unfold cval; cbn [fac]. field. lra. Qed.
Lemma gpu_in_SI M : cval M 1 GPU SI = 335 / 10 ^ 12.
Proof. unfold cval; cbn [fac]. field. Qed.

(* error cases *)
Lemma convert_none_to_kg v u : u <> KG -> convert ROps (RP v u) KG None = Err ValueError.
Proof.
  intros H. unfold convert. cbn [punits]. rewrite units_eqb_neq by congruence. reflexivity.
Qed.
Lemma convert_none_from_kg v u' : u' <> KG -> exists e, convert ROps (RP v KG) u' None = Err e.
Proof.
  intros H. unfold convert. cbn [punits]. rewrite units_eqb_neq by exact H.
  destruct u'; try congruence; eexists; reflexivity.
Qed.
Lemma convert_other_source v t u' c : u' <> OtherUnit t -> exists e, convert ROps (RP v (OtherUnit t)) u' c = Err e.
Proof.
  intros H. unfold convert. cbn [punits]. rewrite units_eqb_neq by exact H.
  destruct c, u'; cbn; eexists; reflexivity.
Qed.
Lemma convert_other_target v u t c : u <> OtherUnit t -> exists e, convert ROps (RP v u) (OtherUnit t) c = Err e.
Proof.
  intros H. unfold convert. cbn [punits]. rewrite units_eqb_neq by congruence.
  destruct c, u; cbn; try (eexists; reflexivity).
Qed.
