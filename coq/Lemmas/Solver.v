(* Proofs about the driving-force function and the fixed-point solver (properties C02, C10). *)
From Coq Require Import Reals Lra ZArith Bool Arith Psatz Lia.
From PV Require Import Num PyBase Model.Component Model.Mixture Model.Permeance Model.Solver
  Lemmas.RTac Lemmas.Composition.
Local Open Scope R_scope.

Notation RFluxArgs := (FluxArgs ROps).
Notation RSolveArgs := (SolveArgs ROps).

(* ---------- the driving-force law ---------- *)
Lemma flux_law spec fix4 (m : Mixture ROps) (a : RFluxArgs) J :
  fluxes_from_permeate_gen ROps spec fix4 m a = Ok J ->
  exists pf pp,
    partial_pressures_gen ROps spec (fa_T a) m (fa_x a) (fa_ct a) = Ok pf /\
    permeate_pressures_gen ROps spec fix4 m a = Ok pp /\
    J = (pval (fa_P1 a) * (fst pf - fst pp), pval (fa_P2 a) * (snd pf - snd pp)).
Proof.
  unfold fluxes_from_permeate_gen. intros H.
  destruct (partial_pressures_gen ROps spec (fa_T a) m (fa_x a) (fa_ct a)) as [pf|e]; [|discriminate].
  cbn [bind] in H.
  destruct (permeate_pressures_gen ROps spec fix4 m a) as [pp|e]; [|discriminate].
  cbn [bind] in H. injection H as <-. exists pf, pp. repeat split.
Qed.

Lemma permeate_vacuum spec fix4 (m : Mixture ROps) (a : RFluxArgs) :
  fa_Tp a = None -> fa_pp a = None -> permeate_pressures_gen ROps spec fix4 m a = Ok (0, 0).
Proof. intros H1 H2. unfold permeate_pressures_gen. rewrite H1, H2. reflexivity. Qed.

Lemma flux_vacuum spec fix4 (m : Mixture ROps) (a : RFluxArgs) J pf :
  fa_Tp a = None -> fa_pp a = None ->
  partial_pressures_gen ROps spec (fa_T a) m (fa_x a) (fa_ct a) = Ok pf ->
  fluxes_from_permeate_gen ROps spec fix4 m a = Ok J ->
  J = (pval (fa_P1 a) * fst pf, pval (fa_P2 a) * snd pf).
Proof.
  intros H1 H2 Hpf H. unfold fluxes_from_permeate_gen in H. rewrite Hpf in H. cbn [bind] in H.
  rewrite (permeate_vacuum spec fix4 m a H1 H2) in H. cbn [bind fst snd] in H.
  injection H as <-. rnum. f_equal; ring.
Qed.

(* the two permeate-side pressures of the permeate-pressure mode always add up to the pressure *)
Lemma permeate_pressure_sum spec fix4 (m : Mixture ROps) (a : RFluxArgs) p pp :
  fa_Tp a = None -> fa_pp a = Some p ->
  permeate_pressures_gen ROps spec fix4 m a = Ok pp -> fst pp + snd pp = p.
Proof.
  intros H1 H2. unfold permeate_pressures_gen. rewrite H1, H2.
  destruct fix4.
  - destruct (to_molar ROps (fa_y a) m) as [ym|e]; [|discriminate]. cbn [bind].
    intros H; injection H as <-. cbn [fst snd]. unfold first, second. rnum. ring.
  - intros H; injection H as <-. cbn [fst snd]. unfold first, second. rnum. ring.
Qed.

Lemma flux_pressure_zero spec (m : Mixture ROps) (a : RFluxArgs) J pf :
  fa_Tp a = None -> fa_pp a = Some 0 ->
  partial_pressures_gen ROps spec (fa_T a) m (fa_x a) (fa_ct a) = Ok pf ->
  fluxes_from_permeate_gen ROps spec false m a = Ok J ->
  J = (pval (fa_P1 a) * fst pf, pval (fa_P2 a) * snd pf).
Proof.
  intros H1 H2 Hpf H. unfold fluxes_from_permeate_gen in H. rewrite Hpf in H. cbn [bind] in H.
  unfold permeate_pressures_gen in H. rewrite H1, H2 in H. cbn [bind fst snd] in H.
  injection H as <-. rnum. f_equal; ring.
Qed.

Lemma flux_pressure_identity spec fix4 (m : Mixture ROps) (a : RFluxArgs) J pf p :
  fa_Tp a = None -> fa_pp a = Some p -> pval (fa_P1 a) <> 0 -> pval (fa_P2 a) <> 0 ->
  partial_pressures_gen ROps spec (fa_T a) m (fa_x a) (fa_ct a) = Ok pf ->
  fluxes_from_permeate_gen ROps spec fix4 m a = Ok J ->
  fst J / pval (fa_P1 a) + snd J / pval (fa_P2 a) = fst pf + snd pf - p.
Proof.
  intros H1 H2 N1 N2 Hpf H.
  destruct (flux_law _ _ _ _ _ H) as [pf' [pp [E1 [E2 ->]]]].
  rewrite Hpf in E1. injection E1 as <-.
  pose proof (permeate_pressure_sum _ _ _ _ _ _ H1 H2 E2) as Hs.
  cbn [fst snd]. rnum. rewrite <- Hs. field. split; assumption.
Qed.

(* ---------- the loop ---------- *)
Section Loop.
  Variable F : Composition ROps -> res (R * R).
  Variable prec : R.

  (* what the loop returns: the start value if the first test fails, otherwise an iterate
     y' = comp(F yp) whose distance to its predecessor is below the precision *)
  Lemma solve_loop_exit fuel d y y' :
    solve_loop ROps fuel F prec d y = Ok y' ->
    (d < prec /\ y' = y) \/
    (exists yp J, F yp = Ok J /\ comp_of_fluxes ROps J = Ok y' /\ step_dist ROps y' yp < prec).
  Proof.
    revert d y. induction fuel as [|f IH]; intros d y; cbn [solve_loop]; rnum.
    - destruct (Rleb prec d) eqn:E; [discriminate|].
      intros H; injection H as <-. left. split; [apply Rleb_false; exact E | reflexivity].
    - destruct (Rleb prec d) eqn:E.
      + destruct (F y) as [J|e] eqn:EF; [|discriminate]. cbn [bind].
        destruct (comp_of_fluxes ROps J) as [y1|e] eqn:EC; [|discriminate]. cbn [bind].
        intros H. destruct (IH _ _ H) as [[Hd ->]|Hex].
        * right. exists y, J. repeat split; assumption.
        * right. exact Hex.
      + intros H; injection H as <-. left. split; [apply Rleb_false; exact E | reflexivity].
  Qed.

  (* the number of driving-force evaluations made by the loop is at most the fuel *)
  Fixpoint loop_evals (fuel : nat) (d : R) (y : Composition ROps) : nat :=
    if Rleb prec d then
      match fuel with
      | O => O
      | S f =>
          match F y with
          | Ok J => match comp_of_fluxes ROps J with
                    | Ok y' => S (loop_evals f (step_dist ROps y' y) y')
                    | Err _ => 1%nat
                    end
          | Err _ => 1%nat
          end
      end
    else O.
  Lemma loop_evals_bound fuel d y : (loop_evals fuel d y <= fuel)%nat.
  Proof.
    revert d y. induction fuel as [|f IH]; intros d y; cbn [loop_evals];
      destruct (Rleb prec d); try lia.
    destruct (F y) as [J|e]; try lia. destruct (comp_of_fluxes ROps J) as [y1|e]; try lia.
    specialize (IH (step_dist ROps y1 y) y1). lia.
  Qed.

  (* a run that hits the cap raises (it does not return a value) *)
  Lemma solve_loop_total fuel d y : exists r, solve_loop ROps fuel F prec d y = r.
  Proof. eexists; reflexivity. Qed.
End Loop.

Lemma solver_cap_value : solver_cap = 10000%nat.
Proof. reflexivity. Qed.

(* ---------- calculate_partial_fluxes ---------- *)
Lemma solve_with_law cap PP F (m : Mixture ROps) perm (a : RSolveArgs) J :
  solve_with ROps cap PP F m perm a = Ok J ->
  exists P pf y0 y,
    resolve_permeances ROps m perm a = Ok P /\
    PP (sa_T a) (sa_x a) (sa_ct a) = Ok pf /\
    comp_of_fluxes ROps (pval (fst P) * fst pf, pval (snd P) * snd pf) = Ok y0 /\
    solve_loop ROps cap (fun y => F (mk_flux_args ROps a P y)) (sa_prec a) 1 y0 = Ok y /\
    F (mk_flux_args ROps a P y) = Ok J.
Proof.
  unfold solve_with. intros H.
  destruct (resolve_permeances ROps m perm a) as [P|e]; [|discriminate]. cbn [bind] in H.
  destruct (PP (sa_T a) (sa_x a) (sa_ct a)) as [pf|e]; [|discriminate]. cbn [bind] in H.
  destruct (comp_of_fluxes ROps _) as [y0|e] eqn:E0; [|discriminate]. cbn [bind] in H.
  destruct (solve_loop ROps cap _ (sa_prec a) _ y0) as [y|e] eqn:EL; [|discriminate]. cbn [bind] in H.
  exists P, pf, y0, y. repeat split; try assumption; try reflexivity.
Qed.

(* self-consistency: the permeate composition used for the returned fluxes is an iterate whose
   successor (= the composition of the returned fluxes) is within the precision whenever the
   iteration map is non-expansive between the last two iterates *)
Lemma self_consistent (G : R -> R) (L prec yp y' : R) :
  0 <= L <= 1 -> y' = G yp -> Rabs (y' - yp) < prec ->
  Rabs (G y' - G yp) <= L * Rabs (y' - yp) ->
  Rabs (G y' - y') < prec.
Proof.
  intros HL -> Hd HLip.
  eapply Rle_lt_trans; [exact HLip|].
  pose proof (Rabs_pos (G yp - yp)). nra.
Qed.

Lemma step_dist_first (y' y : Composition ROps) : Rabs (cp y' - cp y) <= step_dist ROps y' y.
Proof.
  unfold step_dist, first. rewrite nmax_R. rnum. apply Rmax_l.
Qed.

(* ---------- scaling of both permeances ---------- *)
Definition scale_perm (k : R) (p : Permeance ROps) : Permeance ROps :=
  Build_Permeance ROps (k * pval p) (punits p).
Definition scale_args (k : R) (a : RFluxArgs) : RFluxArgs :=
  Build_FluxArgs ROps (scale_perm k (fa_P1 a)) (scale_perm k (fa_P2 a)) (fa_y a) (fa_x a) (fa_T a)
    (fa_Tp a) (fa_pp a) (fa_ct a).

Lemma flux_scaling spec fix4 (m : Mixture ROps) (a : RFluxArgs) k :
  fluxes_from_permeate_gen ROps spec fix4 m (scale_args k a) =
  match fluxes_from_permeate_gen ROps spec fix4 m a with
  | Ok J => Ok (k * fst J, k * snd J)
  | Err e => Err e
  end.
Proof.
  unfold fluxes_from_permeate_gen, permeate_pressures_gen, scale_args. cbn [fa_T fa_x fa_ct fa_Tp fa_pp fa_y fa_P1 fa_P2].
  destruct (partial_pressures_gen ROps spec (fa_T a) m (fa_x a) (fa_ct a)) as [pf|e]; [|reflexivity].
  cbn [bind].
  match goal with |- context [bind ?X] => destruct X as [pp|e] end; [|reflexivity].
  cbn [bind fst snd scale_perm pval]. rnum. f_equal. f_equal; ring.
Qed.

Lemma comp_of_fluxes_scale k (J : R * R) : k <> 0 -> fst J + snd J <> 0 ->
  comp_of_fluxes ROps (k * fst J, k * snd J) = comp_of_fluxes ROps J.
Proof.
  intros Hk Hs. unfold comp_of_fluxes. cbn [fst snd]. rnum.
  replace (k * fst J / (0 + k * fst J + k * snd J)) with (fst J / (0 + fst J + snd J)); [reflexivity|].
  field. split; [|exact Hs]. replace (k * fst J + k * snd J) with (k * (fst J + snd J)) by ring.
  apply Rmult_integral_contrapositive_currified; assumption.
Qed.

Lemma comp_of_fluxes_scale_any k (J : R * R) : k <> 0 ->
  comp_of_fluxes ROps (k * fst J, k * snd J) = comp_of_fluxes ROps J.
Proof.
  intros Hk. unfold comp_of_fluxes. cbn [fst snd]. rnum. f_equal.
  replace (0 + k * fst J + k * snd J) with (k * (0 + fst J + snd J)) by ring.
  unfold Rdiv. rewrite Rinv_mult.
  replace (k * fst J * (/ k * / (0 + fst J + snd J))) with ((k * / k) * (fst J * / (0 + fst J + snd J))) by ring.
  rewrite Rinv_r by exact Hk. ring.
Qed.

Definition scale_res (k : R) (r : res (R * R)) : res (R * R) :=
  match r with Ok J => Ok (k * fst J, k * snd J) | Err e => Err e end.

Lemma solve_loop_scale k F F' prec fuel d y :
  k <> 0 -> (forall y, F' y = scale_res k (F y)) ->
  solve_loop ROps fuel F' prec d y = solve_loop ROps fuel F prec d y.
Proof.
  intros Hk HF. revert d y. induction fuel as [|f IH]; intros d y; cbn [solve_loop]; [reflexivity|].
  destruct (leb ROps prec d); [|reflexivity].
  rewrite HF. destruct (F y) as [J|e]; cbn [scale_res bind]; [|reflexivity].
  rewrite comp_of_fluxes_scale_any by exact Hk.
  destruct (comp_of_fluxes ROps J) as [y1|e]; cbn [bind]; [apply IH | reflexivity].
Qed.

Definition with_perms (a : RSolveArgs) (p1 p2 : Permeance ROps) : RSolveArgs :=
  Build_SolveArgs ROps (sa_T a) (sa_x a) (sa_prec a) (sa_Tp a) (sa_pp a) (Some p1) (Some p2) (sa_ct a).

(* multiplying both permeances by k multiplies both fluxes by k; the iterates (hence the
   permeate composition and the number of iterations) are unchanged *)
Lemma solve_scaling spec fix4 (m : Mixture ROps) perm (a : RSolveArgs) p1 p2 k : k <> 0 ->
  solve_gen ROps spec fix4 m perm (with_perms a (scale_perm k p1) (scale_perm k p2))
  = scale_res k (solve_gen ROps spec fix4 m perm (with_perms a p1 p2)).
Proof.
  intros Hk. unfold solve_gen, solve_with, with_perms, resolve_permeances.
  cbn [sa_P1 sa_P2 sa_T sa_x sa_ct sa_prec bind fst snd].
  destruct (partial_pressures_gen ROps spec (sa_T a) m (sa_x a) (sa_ct a)) as [pf|e]; [|reflexivity].
  cbn [bind scale_perm pval].
  replace (comp_of_fluxes ROps (mul ROps (k * pval p1) (fst pf), mul ROps (k * pval p2) (snd pf)))
    with (comp_of_fluxes ROps (mul ROps (pval p1) (fst pf), mul ROps (pval p2) (snd pf))).
  2:{ rewrite <- (comp_of_fluxes_scale_any k (mul ROps (pval p1) (fst pf), mul ROps (pval p2) (snd pf)) Hk).
      cbn [fst snd]. rnum. f_equal. f_equal; ring. }
  destruct (comp_of_fluxes ROps _) as [y0|e]; [|reflexivity]. cbn [bind].
  assert (HF : forall y,
    fluxes_from_permeate_gen ROps spec fix4 m
      (mk_flux_args ROps (Build_SolveArgs ROps (sa_T a) (sa_x a) (sa_prec a) (sa_Tp a) (sa_pp a)
         (Some (scale_perm k p1)) (Some (scale_perm k p2)) (sa_ct a)) (scale_perm k p1, scale_perm k p2) y)
    = scale_res k (fluxes_from_permeate_gen ROps spec fix4 m
      (mk_flux_args ROps (Build_SolveArgs ROps (sa_T a) (sa_x a) (sa_prec a) (sa_Tp a) (sa_pp a)
         (Some p1) (Some p2) (sa_ct a)) (p1, p2) y))).
  { intros y. apply (flux_scaling spec fix4 m (mk_flux_args ROps (Build_SolveArgs ROps (sa_T a) (sa_x a) (sa_prec a) (sa_Tp a) (sa_pp a)
         (Some p1) (Some p2) (sa_ct a)) (p1, p2) y) k). }
  rewrite (solve_loop_scale k _ _ _ _ _ _ Hk HF).
  destruct (solve_loop ROps solver_cap _ (sa_prec a) _ y0) as [y|e]; [|reflexivity]. cbn [bind].
  apply HF.
Qed.
