(* small real-arithmetic tactics shared by the proofs *)
From Coq Require Import Reals Lra Psatz.
Local Open Scope R_scope.

Ltac nzr :=
  repeat match goal with
  | |- _ /\ _ => split
  | |- True => exact I
  | |- _ * _ <> 0 => apply Rmult_integral_contrapositive_currified
  | |- _ ^ _ <> 0 => apply pow_nonzero
  | |- _ <> 0 => assumption
  | |- _ <> 0 => lra
  | |- _ <> 0 => apply Rgt_not_eq; nra
  | |- _ <> 0 => apply Rlt_not_eq; nra
  end.
