(* Thermodynamic consistency of the activity-coefficient models (property C04). *)
From Coq Require Import Reals Lra ZArith Psatz Bool.
From Coquelicot Require Import Coquelicot.
From PV Require Import Num PyBase Model.Component Model.Mixture Lemmas.RTac Lemmas.Composition Lemmas.Thermo.
Local Open Scope R_scope.

Ltac pos := repeat match goal with
  | |- _ /\ _ => split
  | |- True => exact I
  | |- _ <> 0 => apply Rgt_not_eq
  | |- _ > 0 => apply Rlt_gt
  | |- 0 < exp _ => apply exp_pos
  | |- 0 < _ => assumption
  | |- 0 < _ => lra
  | |- 0 < _ => nra
  | |- 0 < _ * _ => apply Rmult_lt_0_compat
  | |- 0 < / _ => apply Rinv_0_lt_compat
  | |- 0 < _ + _ => apply Rplus_lt_0_compat
  end.

(* ================= NRTL ================= *)
Section NRTL.
  Variables (t0 t1 G0 G1 : R).
  Definition nl1 (x1 : R) : R :=
    (1 - x1) ^ 2 * (t1 * (G1 / (x1 + (1 - x1) * G1)) ^ 2 + t0 * G0 / ((1 - x1) + x1 * G0) ^ 2).
  Definition nl2 (x1 : R) : R :=
    x1 ^ 2 * (t0 * (G0 / ((1 - x1) + x1 * G0)) ^ 2 + t1 * G1 / (x1 + (1 - x1) * G1) ^ 2).

  Lemma nrtl_GD x1 : 0 < x1 < 1 -> 0 < G0 -> 0 < G1 ->
    x1 * Derive nl1 x1 + (1 - x1) * Derive nl2 x1 = 0.
  Proof.
    intros Hx HG0 HG1.
    evar (l1 : R). assert (H1 : is_derive nl1 x1 l1).
    { unfold nl1. auto_derive; [pos; nra | unfold l1; reflexivity]. }
    evar (l2 : R). assert (H2 : is_derive nl2 x1 l2).
    { unfold nl2. auto_derive; [pos; nra | unfold l2; reflexivity]. }
    rewrite (is_derive_unique _ _ _ H1), (is_derive_unique _ _ _ H2).
    unfold l1, l2. field. pos; nra.
  Qed.

  Lemma nl1_pure : nl1 1 = 0. Proof. unfold nl1. replace (1 - 1) with 0 by ring. ring. Qed.
  Lemma nl2_pure : nl2 0 = 0. Proof. unfold nl2. ring. Qed.

  Lemma nl1_continuous_at_1 : 0 < G0 -> continuous nl1 1.
  Proof.
    intros HG. apply (ex_derive_continuous (K:=R_AbsRing) (V:=R_NormedModule)). unfold nl1. auto_derive.
    repeat split; try exact I; apply Rgt_not_eq; nra.
  Qed.
End NRTL.

Lemma nl2_continuous_at_0 t0 t1 G0 G1 : 0 < G1 -> continuous (nl2 t0 t1 G0 G1) 0.
Proof.
  intros HG. apply (ex_derive_continuous (K:=R_AbsRing) (V:=R_NormedModule)). unfold nl2. auto_derive.
  repeat split; try exact I; apply Rgt_not_eq; nra.
Qed.

(* the model's NRTL coefficients are exp of nl1 / nl2 with G = exp(-tau * alpha) > 0 *)
Definition nrtl_G (p : NRTLParams ROps) (T : R) : R * R := nrtl_gexp ROps p T.
Lemma nrtl_G_pos (p : NRTLParams ROps) (T : R) : 0 < fst (nrtl_G p T) /\ 0 < snd (nrtl_G p T).
Proof.
  unfold nrtl_G, nrtl_gexp. destruct (nrtl_tau ROps p T) as [a b].
  destruct (alpha21 p); cbn [fst snd]; rnum; split; apply exp_pos.
Qed.

Lemma nrtl_gamma_R (p : NRTLParams ROps) (T x : R) :
  nrtl_gamma ROps p T (RC x Molar) =
  (exp (nl1 (fst (nrtl_tau ROps p T)) (snd (nrtl_tau ROps p T)) (fst (nrtl_G p T)) (snd (nrtl_G p T)) x),
   exp (nl2 (fst (nrtl_tau ROps p T)) (snd (nrtl_tau ROps p T)) (fst (nrtl_G p T)) (snd (nrtl_G p T)) x)).
Proof.
  unfold nrtl_gamma, nrtl_G. destruct (nrtl_tau ROps p T) as [a b] eqn:Et.
  destruct (nrtl_gexp ROps p T) as [g0 g1] eqn:Eg. cbn [fst snd first second cp].
  unfold nl1, nl2. rnum. reflexivity.
Qed.

Lemma nrtl_gibbs_duhem (p : NRTLParams ROps) (T x : R) : 0 < x < 1 ->
  x * Derive (fun y => ln (fst (nrtl_gamma ROps p T (RC y Molar)))) x
  + (1 - x) * Derive (fun y => ln (snd (nrtl_gamma ROps p T (RC y Molar)))) x = 0.
Proof.
  intros Hx. destruct (nrtl_G_pos p T) as [H0 H1].
  rewrite (Derive_ext _ (nl1 (fst (nrtl_tau ROps p T)) (snd (nrtl_tau ROps p T)) (fst (nrtl_G p T)) (snd (nrtl_G p T))))
    by (intros y; rewrite nrtl_gamma_R; cbn [fst]; apply ln_exp).
  rewrite (Derive_ext (fun y => ln (snd _)) (nl2 (fst (nrtl_tau ROps p T)) (snd (nrtl_tau ROps p T)) (fst (nrtl_G p T)) (snd (nrtl_G p T))))
    by (intros y; rewrite nrtl_gamma_R; cbn [snd]; apply ln_exp).
  apply nrtl_GD; assumption.
Qed.

Lemma nrtl_pure_limits (p : NRTLParams ROps) (T : R) :
  fst (nrtl_gamma ROps p T (RC 1 Molar)) = 1 /\ snd (nrtl_gamma ROps p T (RC 0 Molar)) = 1
  /\ continuous (fun y => fst (nrtl_gamma ROps p T (RC y Molar))) 1
  /\ continuous (fun y => snd (nrtl_gamma ROps p T (RC y Molar))) 0.
Proof.
  destruct (nrtl_G_pos p T) as [H0 H1].
  repeat split.
  - rewrite nrtl_gamma_R; cbn [fst]. rewrite nl1_pure. apply exp_0.
  - rewrite nrtl_gamma_R; cbn [snd]. rewrite nl2_pure. apply exp_0.
  - apply continuous_ext with (f := fun y => exp (nl1 (fst (nrtl_tau ROps p T)) (snd (nrtl_tau ROps p T)) (fst (nrtl_G p T)) (snd (nrtl_G p T)) y)).
    + intros y. rewrite nrtl_gamma_R. reflexivity.
    + apply continuous_comp; [apply nl1_continuous_at_1; assumption|].
      apply (ex_derive_continuous (K:=R_AbsRing) (V:=R_NormedModule)). auto_derive. exact I.
  - apply continuous_ext with (f := fun y => exp (nl2 (fst (nrtl_tau ROps p T)) (snd (nrtl_tau ROps p T)) (fst (nrtl_G p T)) (snd (nrtl_G p T)) y)).
    + intros y. rewrite nrtl_gamma_R. reflexivity.
    + apply continuous_comp; [apply nl2_continuous_at_0; assumption|].
      apply (ex_derive_continuous (K:=R_AbsRing) (V:=R_NormedModule)). auto_derive. exact I.
Qed.

(* Raoult's law when the interaction parameters vanish *)
Lemma nrtl_raoult (p : NRTLParams ROps) (T x : R) :
  g12 p = 0 -> g21 p = 0 -> a12 p = 0 -> a21 p = 0 ->
  nrtl_gamma ROps p T (RC x Molar) = (1, 1).
Proof.
  intros Hg12 Hg21 Ha12 Ha21. rewrite nrtl_gamma_R.
  assert (Et : nrtl_tau ROps p T = (0, 0)).
  { unfold nrtl_tau. rewrite Hg12, Hg21, Ha12, Ha21. rnum. f_equal; unfold Rdiv; ring. }
  rewrite Et. cbn [fst snd]. unfold nl1, nl2.
  f_equal; (rewrite <- exp_0; f_equal; unfold Rdiv; ring).
Qed.

(* ================= UNIQUAC ================= *)
Section UQ.
  Variables (r1 r2 q1 q2 qi1 qi2 z t12 t21 : R).
  Definition ul (r q : R) := z / 2 * (r - q) - (r - 1).
  Definition ulng1 (x1 : R) : R :=
    let x2 := 1 - x1 in
    let phis := x1 * r1 + x2 * r2 in let phi1 := x1 * r1 / phis in let phi2 := x2 * r2 / phis in
    let ths := x1 * q1 + x2 * q2 in let th1 := x1 * q1 / ths in let th2 := x2 * q2 / ths in
    let tis := x1 * qi1 + x2 * qi2 in let ti1 := x1 * qi1 / tis in let ti2 := x2 * qi2 / tis in
    ln (phi1 / x1) + z / 2 * q1 * ln (th1 / phi1) + phi2 * (ul r1 q1 - r1 / r2 * ul r2 q2)
    - qi1 * ln (ti1 + ti2 * t21) + ti2 * qi1 * (t21 / (ti1 + ti2 * t21) - t12 / (ti2 + ti1 * t12)).
  Definition ubracket (spec : bool) (ti1 ti2 : R) : R :=
    if spec then t12 / (ti2 + ti1 * t12) - t21 / (ti1 + ti2 * t21)
    else t12 / (ti2 + ti1 * t21) - t12 / (ti1 + ti2 * t12).
  Definition ulng2 (spec : bool) (x1 : R) : R :=
    let x2 := 1 - x1 in
    let phis := x1 * r1 + x2 * r2 in let phi1 := x1 * r1 / phis in let phi2 := x2 * r2 / phis in
    let ths := x1 * q1 + x2 * q2 in let th1 := x1 * q1 / ths in let th2 := x2 * q2 / ths in
    let tis := x1 * qi1 + x2 * qi2 in let ti1 := x1 * qi1 / tis in let ti2 := x2 * qi2 / tis in
    ln (phi2 / x2) + z / 2 * q2 * ln (th2 / phi2) + phi1 * (ul r2 q2 - r2 / r1 * ul r1 q1)
    - qi2 * ln (ti2 + ti1 * t12) + ti1 * qi2 * ubracket spec ti1 ti2.

  Hypothesis Hr1 : 0 < r1. Hypothesis Hr2 : 0 < r2.
  Hypothesis Hq1 : 0 < q1. Hypothesis Hq2 : 0 < q2.
  Hypothesis Hqi1 : 0 < qi1. Hypothesis Hqi2 : 0 < qi2.
  Hypothesis Ht12 : 0 < t12. Hypothesis Ht21 : 0 < t21.

  (* Gibbs-Duhem holds for the mirror-image second coefficient *)
  Lemma uniquac_GD_spec x1 : 0 < x1 < 1 ->
    x1 * Derive ulng1 x1 + (1 - x1) * Derive (ulng2 true) x1 = 0.
  Proof.
    intros Hx.
    evar (l1 : R). assert (H1 : is_derive ulng1 x1 l1).
    { unfold ulng1, ul. auto_derive; [pos | unfold l1; reflexivity]. }
    evar (l2 : R). assert (H2 : is_derive (ulng2 true) x1 l2).
    { unfold ulng2, ubracket, ul. auto_derive; [pos | unfold l2; reflexivity]. }
    rewrite (is_derive_unique _ _ _ H1), (is_derive_unique _ _ _ H2).
    unfold l1, l2. field. pos.
  Qed.

  (* exact characterisation of the defect (finding F1): as-is = spec + Delta *)
  Definition udelta (x1 : R) : R :=
    let x2 := 1 - x1 in
    let tis := x1 * qi1 + x2 * qi2 in let ti1 := x1 * qi1 / tis in let ti2 := x2 * qi2 / tis in
    ti1 * qi2 * (t12 / (ti2 + ti1 * t21) - t12 / (ti1 + ti2 * t12)
                 - t12 / (ti2 + ti1 * t12) + t21 / (ti1 + ti2 * t21)).
  Lemma uniquac_delta x1 : ulng2 false x1 = ulng2 true x1 + udelta x1.
  Proof. unfold ulng2, ubracket, udelta. cbv zeta. ring. Qed.

  Lemma ulng1_pure : ulng1 1 = 0.
  Proof.
    unfold ulng1, ul. cbv zeta. replace (1 - 1) with 0 by ring.
    replace (1 * r1 + 0 * r2) with r1 by ring. replace (1 * q1 + 0 * q2) with q1 by ring.
    replace (1 * qi1 + 0 * qi2) with qi1 by ring.
    replace (1 * r1 / r1) with 1 by (field; lra). replace (1 * q1 / q1) with 1 by (field; lra).
    replace (1 * qi1 / qi1) with 1 by (field; lra).
    replace (0 * r2 / r1) with 0 by (field; lra). replace (0 * qi2 / qi1) with 0 by (field; lra).
    replace (1 / 1) with 1 by field. replace (1 + 0 * t21) with 1 by ring.
    rewrite ln_1. ring.
  Qed.
  Lemma ulng2_pure spec : ulng2 spec 0 = 0.
  Proof.
    unfold ulng2, ul. cbv zeta. replace (1 - 0) with 1 by ring.
    replace (0 * r1 + 1 * r2) with r2 by ring. replace (0 * q1 + 1 * q2) with q2 by ring.
    replace (0 * qi1 + 1 * qi2) with qi2 by ring.
    replace (1 * r2 / r2) with 1 by (field; lra). replace (1 * q2 / q2) with 1 by (field; lra).
    replace (1 * qi2 / qi2) with 1 by (field; lra).
    replace (0 * r1 / r2) with 0 by (field; lra). replace (0 * qi1 / qi2) with 0 by (field; lra).
    replace (1 / 1) with 1 by field. replace (1 + 0 * t12) with 1 by ring.
    rewrite ln_1. ring.
  Qed.
  Lemma ulng1_continuous_at_1 : continuous ulng1 1.
  Proof. apply (ex_derive_continuous (K:=R_AbsRing) (V:=R_NormedModule)). unfold ulng1, ul. auto_derive.
    replace (1 + - (1)) with 0 by ring. unfold Rdiv. rewrite ?Rmult_0_l, ?Rplus_0_r, ?Rplus_0_l, ?Rmult_1_l, ?Rmult_0_l, ?Rplus_0_r, ?Rplus_0_l. pos. Qed.
  Lemma ulng2_continuous_at_0 spec : continuous (ulng2 spec) 0.
  Proof. apply (ex_derive_continuous (K:=R_AbsRing) (V:=R_NormedModule)). unfold ulng2, ubracket, ul.
    destruct spec; auto_derive; replace (1 + - 0) with 1 by ring; unfold Rdiv; rewrite ?Rmult_0_l, ?Rplus_0_l, ?Rplus_0_r, ?Rmult_1_l, ?Rmult_0_l, ?Rplus_0_l, ?Rplus_0_r; pos. Qed.
End UQ.

(* ---- link between the model's UNIQUAC function and ulng1 / ulng2 ---- *)
Definition uq_t12 (u : UQParams ROps) (T : R) : R := exp (- (ualpha12 u + ubeta12 u / T) / T).
Definition uq_t21 (u : UQParams ROps) (T : R) : R := exp (- (ualpha21 u + ubeta21 u / T) / T).

Lemma uniquac_gamma_R spec (u : UQParams ROps) (k1 k2 : UQConst ROps) (T x : R) :
  uniquac_gamma_gen ROps spec u k1 k2 T x (1 - x) =
  (exp (ulng1 (uq_r k1) (uq_r k2) (uq_q k1) (uq_q k2) (uq_qi k1) (uq_qi k2) (uz u) (uq_t12 u T) (uq_t21 u T) x),
   exp (ulng2 (uq_r k1) (uq_r k2) (uq_q k1) (uq_q k2) (uq_qi k1) (uq_qi k2) (uz u) (uq_t12 u T) (uq_t21 u T) spec x)).
Proof.
  unfold uniquac_gamma_gen, ulng1, ulng2, ubracket, ul, uq_t12, uq_t21. rnum.
  destruct spec; reflexivity.
Qed.

Section UQModel.
  Variables (u : UQParams ROps) (k1 k2 : UQConst ROps) (T : R).
  Hypothesis Hr1 : 0 < uq_r k1. Hypothesis Hr2 : 0 < uq_r k2.
  Hypothesis Hq1 : 0 < uq_q k1. Hypothesis Hq2 : 0 < uq_q k2.
  Hypothesis Hqi1 : 0 < uq_qi k1. Hypothesis Hqi2 : 0 < uq_qi k2.

  Lemma uniquac_spec_gibbs_duhem x : 0 < x < 1 ->
    x * Derive (fun y => ln (fst (uniquac_gamma_gen ROps true u k1 k2 T y (1 - y)))) x
    + (1 - x) * Derive (fun y => ln (snd (uniquac_gamma_gen ROps true u k1 k2 T y (1 - y)))) x = 0.
  Proof.
    intros Hx.
    rewrite (Derive_ext _ (ulng1 (uq_r k1) (uq_r k2) (uq_q k1) (uq_q k2) (uq_qi k1) (uq_qi k2) (uz u) (uq_t12 u T) (uq_t21 u T)))
      by (intros y; rewrite uniquac_gamma_R; cbn [fst]; apply ln_exp).
    rewrite (Derive_ext (fun y => ln (snd _)) (ulng2 (uq_r k1) (uq_r k2) (uq_q k1) (uq_q k2) (uq_qi k1) (uq_qi k2) (uz u) (uq_t12 u T) (uq_t21 u T) true))
      by (intros y; rewrite uniquac_gamma_R; cbn [snd]; apply ln_exp).
    apply uniquac_GD_spec; try assumption; apply exp_pos.
  Qed.

  Lemma uniquac_asis_vs_spec x :
    snd (uniquac_gamma_gen ROps false u k1 k2 T x (1 - x)) =
    snd (uniquac_gamma_gen ROps true u k1 k2 T x (1 - x))
    * exp (udelta (uq_qi k1) (uq_qi k2) (uq_t12 u T) (uq_t21 u T) x)
    /\ fst (uniquac_gamma_gen ROps false u k1 k2 T x (1 - x)) = fst (uniquac_gamma_gen ROps true u k1 k2 T x (1 - x)).
  Proof.
    rewrite !uniquac_gamma_R. cbn [fst snd]. split; [|reflexivity].
    rewrite <- exp_plus. f_equal. apply uniquac_delta.
  Qed.

  Lemma uniquac_pure_limits spec :
    fst (uniquac_gamma_gen ROps spec u k1 k2 T 1 (1 - 1)) = 1
    /\ snd (uniquac_gamma_gen ROps spec u k1 k2 T 0 (1 - 0)) = 1
    /\ continuous (fun y => fst (uniquac_gamma_gen ROps spec u k1 k2 T y (1 - y))) 1
    /\ continuous (fun y => snd (uniquac_gamma_gen ROps spec u k1 k2 T y (1 - y))) 0.
  Proof.
    assert (P12 : 0 < uq_t12 u T) by apply exp_pos. assert (P21 : 0 < uq_t21 u T) by apply exp_pos.
    repeat split.
    - rewrite uniquac_gamma_R; cbn [fst]. rewrite ulng1_pure by assumption. apply exp_0.
    - rewrite uniquac_gamma_R; cbn [snd]. rewrite ulng2_pure by assumption. apply exp_0.
    - apply continuous_ext with (f := fun y => exp (ulng1 (uq_r k1) (uq_r k2) (uq_q k1) (uq_q k2) (uq_qi k1) (uq_qi k2) (uz u) (uq_t12 u T) (uq_t21 u T) y)).
      + intros y. rewrite uniquac_gamma_R. reflexivity.
      + apply continuous_comp; [apply ulng1_continuous_at_1; assumption|].
        apply (ex_derive_continuous (K:=R_AbsRing) (V:=R_NormedModule)). auto_derive. exact I.
    - apply continuous_ext with (f := fun y => exp (ulng2 (uq_r k1) (uq_r k2) (uq_q k1) (uq_q k2) (uq_qi k1) (uq_qi k2) (uz u) (uq_t12 u T) (uq_t21 u T) spec y)).
      + intros y. rewrite uniquac_gamma_R. reflexivity.
      + apply continuous_comp; [apply ulng2_continuous_at_0; assumption|].
        apply (ex_derive_continuous (K:=R_AbsRing) (V:=R_NormedModule)). auto_derive. exact I.
  Qed.
End UQModel.

(* ---- partial pressures ---- *)
Section PP.
  Variable m : Mixture ROps.
  Hypothesis HM1 : 0 < mw (c1 m).
  Hypothesis HM2 : 0 < mw (c2 m).

  Lemma pp_formula spec T x ct g P1 P2 :
    activity_gen ROps spec T m (RC x Molar) ct = Ok g ->
    vapor_pressure ROps (c1 m) T = Ok P1 -> vapor_pressure ROps (c2 m) T = Ok P2 ->
    partial_pressures_gen ROps spec T m (RC x Molar) ct = Ok (P1 * fst g * x, P2 * snd g * (1 - x)).
  Proof.
    intros Hg H1 H2. unfold partial_pressures_gen. cbn [to_molar ctype bind].
    rewrite Hg. cbn [bind]. rewrite H1, H2. reflexivity.
  Qed.

  Lemma pp_basis spec T w ct : 0 <= w <= 1 ->
    partial_pressures_gen ROps spec T m (RC w Weight) ct
    = partial_pressures_gen ROps spec T m (RC (fmolar (mw (c1 m)) (mw (c2 m)) w) Molar) ct.
  Proof.
    intros Hw. unfold partial_pressures_gen.
    rewrite (to_molar_weight_R m HM1 HM2 w Hw). reflexivity.
  Qed.

  Lemma activity_basis spec T w ct : 0 <= w <= 1 ->
    activity_gen ROps spec T m (RC w Weight) ct
    = activity_gen ROps spec T m (RC (fmolar (mw (c1 m)) (mw (c2 m)) w) Molar) ct.
  Proof.
    intros Hw. unfold activity_gen.
    rewrite (to_molar_weight_R m HM1 HM2 w Hw). reflexivity.
  Qed.
End PP.

