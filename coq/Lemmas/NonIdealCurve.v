(* Lemmas about the non-ideal diffusion curve (C05, C07, C19). *)
From Coq Require Import Reals Lra ZArith Bool Arith Lia List.
From PV Require Import Num PyBase Model.Component Model.Mixture Model.Permeance Model.Solver Model.Process Model.Curve Model.NonIdealCurve
  Lemmas.Composition Lemmas.Permeance Lemmas.Process Lemmas.Basis Lemmas.Fit.
Import ListNotations.
Local Open Scope R_scope.

(* C19: both permeate conditions => the first point already raises *)
Lemma nic_loop_rejects (slv : SolveArgs ROps -> res (R * R)) f1 f2 FR1 FR2 T delta prec Tp pp ct k x P :
  (forall a, sa_Tp a = Tp -> sa_pp a = pp -> exists e, slv a = Err e) ->
  exists e, nic_loop ROps slv f1 f2 FR1 FR2 T delta prec Tp pp ct (S k) x P = Err e.
Proof.
  intros H. cbn [nic_loop]. destruct (mk_comp ROps _ Weight); cbn [bind]; [|eexists; reflexivity].
  match goal with |- context [slv ?a] => destruct (H a eq_refl eq_refl) as [e ->] end. cbn [bind]. eexists; reflexivity.
Qed.

Lemma non_ideal_curve_rejects PP (m : Mixture ROps) slv ea single raw1 raw2 T x0 delta n Tp pp ip prec ct :
  (forall a, sa_Tp a = Tp -> sa_pp a = pp -> exists e, slv a = Err e) ->
  exists e, non_ideal_curve ROps PP m slv ea single raw1 raw2 T x0 delta n Tp pp ip prec ct = Err e.
Proof.
  intros H. unfold non_ideal_curve.
  destruct (nonideal_fits ROps single false T ea m raw1 raw2) as [fits|]; cbn [bind]; [|eexists; reflexivity].
  destruct (to_weight ROps x0 m) as [x0w|]; cbn [bind]; [|eexists; reflexivity].
  destruct (nonideal_initial ROps m (fst fits) (snd fits) x0w T ip) as [init|]; cbn [bind]; [|eexists; reflexivity].
  destruct (nic_loop_rejects slv (fst fits) (snd fits) (fst (snd init)) (snd (snd init)) T delta prec Tp pp ct n x0w (fst init) H) as [e ->].
  cbn [bind]. eexists; reflexivity.
Qed.

(* C07: the basis of the initial feed enters only through to_weight *)
Lemma non_ideal_curve_basis PP (m : Mixture ROps) slv ea single raw1 raw2 T w delta n Tp pp ip prec ct :
  0 < mw (c1 m) -> 0 < mw (c2 m) -> 0 <= w <= 1 ->
  non_ideal_curve ROps PP m slv ea single raw1 raw2 T (as_molar m w) delta n Tp pp ip prec ct
  = non_ideal_curve ROps PP m slv ea single raw1 raw2 T (as_weight w) delta n Tp pp ip prec ct.
Proof.
  intros H1 H2 Hw. unfold non_ideal_curve. rewrite (to_weight_as_molar m H1 H2 w Hw), to_weight_as_weight. reflexivity.
Qed.

(* C05: every point after the first uses fit(next composition, T) * constant factor (clamped at 0) *)
Lemma nic_loop_permeances (slv : SolveArgs ROps -> res (R * R)) (f1 f2 : PervFn ROps) (FR1 FR2 T delta prec : R) Tp pp ct k x P pts :
  nic_loop ROps slv f1 f2 FR1 FR2 T delta prec Tp pp ct k x P = Ok pts ->
  forall i pt pt', nth_error pts i = Some pt -> nth_error pts (S i) = Some pt' ->
    cp (fst (fst pt')) = cp (fst (fst pt)) + delta /\
    pval (fst (snd pt')) = Rmax 0 (pf_call ROps f1 (cp (fst (fst pt'))) T * FR1) /\
    pval (snd (snd pt')) = Rmax 0 (pf_call ROps f2 (cp (fst (fst pt'))) T * FR2).
Proof.
  revert x P pts. induction k as [|k IH]; intros x P pts; cbn [nic_loop].
  - intros H; injection H as <-. intros [|i] ? ? Hn; discriminate.
  - destruct (mk_comp ROps _ Weight) as [x'|] eqn:EX; [|discriminate]. cbn [bind].
    destruct (slv _) as [J|]; [|discriminate]. cbn [bind]. rewrite !mk_permeance_m_R. cbn [bind].
    destruct (nic_loop ROps slv f1 f2 FR1 FR2 T delta prec Tp pp ct k x' _) as [rest|] eqn:ER; [|discriminate]. cbn [bind].
    intros H; injection H as <-. intros [|i] pt pt' Hn Hn'.
    + cbn in Hn. injection Hn as <-. cbn in Hn'.
      destruct k as [|k']; [cbn in ER; injection ER as <-; discriminate|].
      cbn [nic_loop] in ER.
      destruct (mk_comp ROps (add ROps (first ROps x') delta) Weight) as [x''|] eqn:EX2; [|discriminate]. cbn [bind] in ER.
      destruct (slv _) as [J'|]; [|discriminate]. cbn [bind] in ER. rewrite !mk_permeance_m_R in ER. cbn [bind] in ER.
      destruct (nic_loop ROps slv f1 f2 FR1 FR2 T delta prec Tp pp ct k' x'' _) as [rest'|]; [|discriminate]. cbn [bind] in ER.
      injection ER as <-. cbn in Hn'. injection Hn' as <-. cbn [fst snd].
      apply mk_comp_R_inv in EX. destruct EX as [_ ->]. unfold first, mk_permeance, pf_call. cbn [cp pval]. rnum.
      repeat split; try reflexivity; unfold Rleb, Rmax; match goal with |- context [Rle_dec 0 ?v] => destruct (Rle_dec 0 v); try reflexivity; lra end.
    + cbn in Hn, Hn'. exact (IH _ _ _ ER i pt pt' Hn Hn').
Qed.
