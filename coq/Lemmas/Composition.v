(* Proofs about Composition / to_molar / to_weight over the reals (property C15). *)
From Coq Require Import Reals Lra Lia ZArith Bool Psatz.
From PV Require Import Num PyBase Model.Component Model.Mixture.
Local Open Scope R_scope.

Notation RComposition := (Composition ROps).
Notation RMixture := (Mixture ROps).
Notation RC p t := (Build_Composition ROps p t).

Lemma mk_comp_R_ok p t : 0 <= p <= 1 -> mk_comp ROps p t = Ok (RC (p) t).
Proof.
  intros [H0 H1]. unfold mk_comp. rnum.
  rewrite (proj2 (Rleb_true 0 p) H0), (proj2 (Rleb_true p 1) H1). reflexivity.
Qed.

Lemma mk_comp_R_err p t : p < 0 \/ 1 < p -> mk_comp ROps p t = Err ValueError.
Proof.
  intros H. unfold mk_comp. rnum.
  destruct H as [H|H].
  - rewrite (proj2 (Rleb_false 0 p) H). reflexivity.
  - rewrite (proj2 (Rleb_false p 1) H). rewrite andb_false_r. reflexivity.
Qed.

Lemma mk_comp_R_iff p t : (exists c, mk_comp ROps p t = Ok c) <-> 0 <= p <= 1.
Proof.
  split.
  - intros [c Hc]. destruct (Rle_dec 0 p) as [H0|H0]; destruct (Rle_dec p 1) as [H1|H1]; try lra;
      rewrite mk_comp_R_err in Hc by lra; discriminate.
  - intros H. eexists. apply mk_comp_R_ok; exact H.
Qed.

(* the two rational maps *)
Definition fmolar (M1 M2 x : R) : R := (x / M1) / (x / M1 + (1 - x) / M2).
Definition fweight (M1 M2 x : R) : R := (M1 * x) / (M1 * x + M2 * (1 - x)).

Lemma fmolar_alt M1 M2 x : 0 < M1 -> 0 < M2 -> 0 <= x <= 1 ->
  fmolar M1 M2 x = (M2 * x) / (M2 * x + M1 * (1 - x)).
Proof.
  intros. unfold fmolar.
  assert (M2 * x + M1 * (1 - x) > 0) by nra.
  field. repeat split; try lra; nra.
Qed.

Lemma fmolar_range M1 M2 x : 0 < M1 -> 0 < M2 -> 0 <= x <= 1 -> 0 <= fmolar M1 M2 x <= 1.
Proof.
  intros HM1 HM2 Hx. rewrite fmolar_alt by assumption.
  assert (D : M2 * x + M1 * (1 - x) > 0) by nra.
  split.
  - apply Rmult_le_pos; [nra | left; apply Rinv_0_lt_compat; exact D].
  - apply Rmult_le_reg_r with (M2 * x + M1 * (1 - x)); [exact D|].
    unfold Rdiv. rewrite Rmult_assoc, Rinv_l by lra. nra.
Qed.

Lemma fweight_range M1 M2 x : 0 < M1 -> 0 < M2 -> 0 <= x <= 1 -> 0 <= fweight M1 M2 x <= 1.
Proof.
  intros HM1 HM2 Hx. unfold fweight.
  assert (D : M1 * x + M2 * (1 - x) > 0) by nra.
  split.
  - apply Rmult_le_pos; [nra | left; apply Rinv_0_lt_compat; exact D].
  - apply Rmult_le_reg_r with (M1 * x + M2 * (1 - x)); [exact D|].
    unfold Rdiv. rewrite Rmult_assoc, Rinv_l by lra. nra.
Qed.

Section WithMixture.
  Variable m : RMixture.
  Let M1 := mw (c1 m).
  Let M2 := mw (c2 m).
  Hypothesis HM1 : 0 < M1.
  Hypothesis HM2 : 0 < M2.

  Lemma to_molar_weight_R x : 0 <= x <= 1 ->
    to_molar ROps (RC (x) Weight) m = Ok (RC (fmolar M1 M2 x) Molar).
  Proof.
    intros Hx. unfold to_molar. cbn [ctype cp].
    rnum. fold M1 M2.
    change (x / M1 / (x / M1 + (1 - x) / M2)) with (fmolar M1 M2 x).
    apply mk_comp_R_ok. apply fmolar_range; assumption.
  Qed.

  Lemma to_weight_molar_R x : 0 <= x <= 1 ->
    to_weight ROps (RC (x) Molar) m = Ok (RC (fweight M1 M2 x) Weight).
  Proof.
    intros Hx. unfold to_weight. cbn [ctype cp].
    rnum. fold M1 M2.
    change (M1 * x / (M1 * x + M2 * (1 - x))) with (fweight M1 M2 x).
    apply mk_comp_R_ok. apply fweight_range; assumption.
  Qed.

  Lemma fweight_fmolar x : 0 <= x <= 1 -> fweight M1 M2 (fmolar M1 M2 x) = x.
  Proof.
    intros Hx. rewrite fmolar_alt by assumption. unfold fweight.
    assert (D : M2 * x + M1 * (1 - x) > 0) by nra.
    assert (MM : M1 * M2 > 0) by nra.
    field. split; nra.
  Qed.

  Lemma fmolar_fweight x : 0 <= x <= 1 -> fmolar M1 M2 (fweight M1 M2 x) = x.
  Proof.
    intros Hx.
    rewrite fmolar_alt; [| assumption | assumption | apply fweight_range; assumption].
    unfold fweight.
    assert (D : M1 * x + M2 * (1 - x) > 0) by nra.
    assert (MM : M1 * M2 > 0) by nra.
    field. split; nra.
  Qed.

  (* C15: round trips through the real constructors/validators *)
  Lemma roundtrip_weight x : 0 <= x <= 1 ->
    (c <- to_molar ROps (RC (x) Weight) m ;; to_weight ROps c m)
    = Ok (RC (x) Weight).
  Proof.
    intros Hx. rewrite to_molar_weight_R by assumption. cbn [bind].
    rewrite to_weight_molar_R by (apply fmolar_range; assumption).
    rewrite fweight_fmolar by assumption. reflexivity.
  Qed.

  Lemma roundtrip_molar x : 0 <= x <= 1 ->
    (c <- to_weight ROps (RC (x) Molar) m ;; to_molar ROps c m)
    = Ok (RC (x) Molar).
  Proof.
    intros Hx. rewrite to_weight_molar_R by assumption. cbn [bind].
    rewrite to_molar_weight_R by (apply fweight_range; assumption).
    rewrite fmolar_fweight by assumption. reflexivity.
  Qed.

  Lemma to_molar_idem (c : RComposition) : ctype c = Molar -> to_molar ROps c m = Ok c.
  Proof. intros H. unfold to_molar. rewrite H. reflexivity. Qed.
  Lemma to_weight_idem (c : RComposition) : ctype c = Weight -> to_weight ROps c m = Ok c.
  Proof. intros H. unfold to_weight. rewrite H. reflexivity. Qed.

  Lemma fmolar_0 : fmolar M1 M2 0 = 0.
  Proof. unfold fmolar. field. split; lra. Qed.
  Lemma fmolar_1 : fmolar M1 M2 1 = 1.
  Proof. unfold fmolar. field. split; lra. Qed.
  Lemma fweight_0 : fweight M1 M2 0 = 0.
  Proof. unfold fweight. field. lra. Qed.
  Lemma fweight_1 : fweight M1 M2 1 = 1.
  Proof. unfold fweight. field. lra. Qed.

  Lemma fmolar_increasing x y : 0 <= x -> x < y -> y <= 1 -> fmolar M1 M2 x < fmolar M1 M2 y.
  Proof.
    intros H0 Hxy H1. rewrite !fmolar_alt by (try assumption; lra).
    assert (Dx : M2 * x + M1 * (1 - x) > 0) by nra.
    assert (Dy : M2 * y + M1 * (1 - y) > 0) by nra.
    apply Rmult_lt_reg_r with (M2 * x + M1 * (1 - x)); [exact Dx|].
    apply Rmult_lt_reg_r with (M2 * y + M1 * (1 - y)); [exact Dy|].
    replace (M2 * x / (M2 * x + M1 * (1 - x)) * (M2 * x + M1 * (1 - x)) * (M2 * y + M1 * (1 - y)))
      with (M2 * x * (M2 * y + M1 * (1 - y))) by (field; lra).
    replace (M2 * y / (M2 * y + M1 * (1 - y)) * (M2 * x + M1 * (1 - x)) * (M2 * y + M1 * (1 - y)))
      with (M2 * y * (M2 * x + M1 * (1 - x))) by (field; lra).
    assert (MM : M1 * M2 > 0) by nra.
    assert (MD : M1 * M2 * (y - x) > 0) by (apply Rmult_gt_0_compat; lra).
    lra.
  Qed.

  Lemma fweight_increasing x y : 0 <= x -> x < y -> y <= 1 -> fweight M1 M2 x < fweight M1 M2 y.
  Proof.
    intros H0 Hxy H1. unfold fweight.
    assert (Dx : M1 * x + M2 * (1 - x) > 0) by nra.
    assert (Dy : M1 * y + M2 * (1 - y) > 0) by nra.
    apply Rmult_lt_reg_r with (M1 * x + M2 * (1 - x)); [exact Dx|].
    apply Rmult_lt_reg_r with (M1 * y + M2 * (1 - y)); [exact Dy|].
    replace (M1 * x / (M1 * x + M2 * (1 - x)) * (M1 * x + M2 * (1 - x)) * (M1 * y + M2 * (1 - y)))
      with (M1 * x * (M1 * y + M2 * (1 - y))) by (field; lra).
    replace (M1 * y / (M1 * y + M2 * (1 - y)) * (M1 * x + M2 * (1 - x)) * (M1 * y + M2 * (1 - y)))
      with (M1 * y * (M1 * x + M2 * (1 - x))) by (field; lra).
    assert (MM : M1 * M2 > 0) by nra.
    assert (MD : M1 * M2 * (y - x) > 0) by (apply Rmult_gt_0_compat; lra).
    lra.
  Qed.

  (* mole ratio = mass ratio * M2 / M1 *)
  Lemma fmolar_ratio x : 0 < x < 1 ->
    fmolar M1 M2 x / (1 - fmolar M1 M2 x) = (x / (1 - x)) * (M2 / M1).
  Proof.
    intros Hx. rewrite fmolar_alt by (try assumption; lra).
    assert (D : M2 * x + M1 * (1 - x) > 0) by nra.
    field. repeat split; try lra.
    replace (M2 * x + M1 * (1 - x) - M2 * x) with (M1 * (1 - x)) by ring. nra.
  Qed.

  Lemma first_second_sum (c : RComposition) : first ROps c + second ROps c = 1.
  Proof. unfold first, second. rnum. ring. Qed.
End WithMixture.

Lemma endpoints M1 M2 : 0 < M1 -> 0 < M2 ->
  fmolar M1 M2 0 = 0 /\ fmolar M1 M2 1 = 1 /\ fweight M1 M2 0 = 0 /\ fweight M1 M2 1 = 1.
Proof. intros; unfold fmolar, fweight; repeat split; field; try split; lra. Qed.
