(* Proofs about the membrane Arrhenius model (property C12). *)
From Coq Require Import Reals Lra ZArith Bool Arith Psatz Lia List.
From PV Require Import Num PyBase Model.Component Model.Mixture Model.Permeance Model.Membrane
  Lemmas.RTac Lemmas.Permeance Lemmas.Thermo Lemmas.Process.
Import ListNotations.
Local Open Scope R_scope.

Notation RExp := (Experiment ROps).

(* Python's sum over a list = the ordinary sum *)
Fixpoint rsum (l : list R) : R := match l with [] => 0 | x :: t => x + rsum t end.
Lemma psum_from_R acc l : psum_from ROps acc l = acc + rsum l.
Proof. revert acc. induction l as [|x t IH]; intros acc; cbn [psum_from rsum]; [rnum; ring|]. rewrite IH. rnum. ring. Qed.
Lemma psum_R l : psum ROps l = rsum l.
Proof. unfold psum. rewrite psum_from_R. unfold zero. rnum. ring. Qed.

(* ---- least squares on an exact line ---- *)
Lemma rsum_line_y a b xs : rsum (map (fun x => a + b * x) xs) = INR (length xs) * a + b * rsum xs.
Proof.
  induction xs as [|x t IH]; [cbn; ring|]. cbn [map rsum length]. rewrite IH, S_INR. ring.
Qed.
Lemma rsum_line_xy a b xs :
  rsum (map (fun p => fst p * snd p) (combine xs (map (fun x => a + b * x) xs))) = a * rsum xs + b * rsum (map (fun x => x * x) xs).
Proof.
  induction xs as [|x t IH]; [cbn; ring|]. cbn [map combine rsum fst snd]. rewrite IH. ring.
Qed.

Lemma ols_slope_line a b xs :
  INR (length xs) * rsum (map (fun x => x * x) xs) - rsum xs * rsum xs <> 0 ->
  ols_slope ROps xs (map (fun x => a + b * x) xs) = b.
Proof.
  intros Hd. unfold ols_slope. rewrite !psum_R. rewrite INR_ilit.
  replace (map (fun p => mul ROps (fst p) (snd p)) (combine xs (map (fun x => a + b * x) xs)))
    with (map (fun p => fst p * snd p) (combine xs (map (fun x => a + b * x) xs))) by reflexivity.
  replace (map (fun x => mul ROps x x) xs) with (map (fun x => x * x) xs) by reflexivity.
  rewrite rsum_line_y, rsum_line_xy. rnum. field. exact Hd.
Qed.

(* ---- Arrhenius ---- *)
Lemma arrhenius_R v ea T Te : arrhenius ROps v ea T Te = v * exp (- ea / Rg * (1 / T - 1 / Te)).
Proof. unfold arrhenius. rewrite Rgas_R. reflexivity. Qed.

Lemma arrhenius_nonneg v ea T Te : 0 <= v -> 0 <= arrhenius ROps v ea T Te.
Proof. intros H. rewrite arrhenius_R. apply Rmult_le_pos; [exact H | left; apply exp_pos]. Qed.

(* on an exact Arrhenius line the extrapolated permeance does not depend on the reference experiment *)
Lemma arrhenius_reference_independent Pr ea T Tr Tj : T <> 0 -> Tr <> 0 -> Tj <> 0 ->
  arrhenius ROps (arrhenius ROps Pr ea Tj Tr) ea T Tj = arrhenius ROps Pr ea T Tr.
Proof.
  intros HT HTr HTj. rewrite !arrhenius_R. rewrite Rmult_assoc, <- exp_plus. do 2 f_equal.
  unfold Rg. field. repeat split; try assumption.
Qed.

Lemma arrhenius_same v ea T : T <> 0 -> arrhenius ROps v ea T T = v.
Proof.
  intros HT. rewrite arrhenius_R. replace (- ea / Rg * (1 / T - 1 / T)) with 0 by (unfold Rg; field; exact HT).
  rewrite exp_0. rnum. ring.
Qed.

(* ---- what get_permeance returns, by branch ---- *)
Section GetPermeance.
  Variables (exps : option (list RExp)) (T : R) (c : Component ROps) (ip : option (Permeance ROps)).
  Variables (l : list RExp) (idx : nat) (e : RExp) (given : Permeance ROps).
  Hypothesis Hl : penetrant ROps exps c = Ok l.
  Hypothesis Hidx : argmin ROps (map (fun e => nabs ROps (sub ROps (ex_T e) T)) l) = Ok idx.
  Hypothesis He : nth_error l idx = Some e.
  Hypothesis Hg : convert ROps (ex_P e) KG (Some c) = Ok given.

  Lemma get_permeance_at_experiment : ex_T e = T -> get_permeance ROps exps T c ip = Ok given.
  Proof.
    intros HT. unfold get_permeance. rewrite Hl. cbn [bind]. rewrite Hidx. cbn [bind]. rewrite He, Hg. cbn [bind].
    rnum. rewrite (proj2 (Reqb_true (ex_T e) T) HT). destruct (ex_Ea e); reflexivity.
  Qed.

  Lemma get_permeance_stated ea : ex_T e <> T -> ex_Ea e = Some ea -> 0 <= pval given ->
    (forall p, ip = Some p -> 0 <= pval p) ->
    get_permeance ROps exps T c ip =
      Ok (Build_Permeance ROps (arrhenius ROps (match ip with Some p => pval p | None => pval given end) ea T (ex_T e)) KG).
  Proof.
    intros HT Hea Hpos Hip. unfold get_permeance. rewrite Hl. cbn [bind]. rewrite Hidx. cbn [bind]. rewrite He, Hg. cbn [bind].
    rewrite Hea. rnum. rewrite (proj2 (Reqb_false (ex_T e) T) HT).
    destruct ip as [p|]; rewrite mk_permeance_m_R, mk_permeance_id; try reflexivity; apply arrhenius_nonneg; auto.
  Qed.

  Lemma get_permeance_regressed ea : ex_T e <> T -> ex_Ea e = None -> 0 <= pval given ->
    activation_energy ROps exps c = Ok ea ->
    get_permeance ROps exps T c ip = Ok (Build_Permeance ROps (arrhenius ROps (pval given) ea T (ex_T e)) KG).
  Proof.
    intros HT Hea Hpos HE. unfold get_permeance. rewrite Hl. cbn [bind]. rewrite Hidx. cbn [bind]. rewrite He, Hg. cbn [bind].
    rewrite Hea. rnum. rewrite (proj2 (Reqb_false (ex_T e) T) HT). rewrite HE. cbn [bind].
    rewrite mk_permeance_m_R, mk_permeance_id; [reflexivity | apply arrhenius_nonneg; exact Hpos].
  Qed.
End GetPermeance.

(* the index returned by argmin is a valid position with a minimal key, the first such *)
Lemma argmin_from_spec best kbest i ks :
  let r := argmin_from ROps best kbest i ks in
  (r = best \/ (i <= r < i + length ks)%nat).
Proof.
  revert best kbest i. induction ks as [|k t IH]; intros best kbest i; cbn [argmin_from length].
  - left; reflexivity.
  - destruct (ltb ROps k kbest).
    + destruct (IH i k (S i)) as [H|H]; [right; rewrite H; lia | right; lia].
    + destruct (IH best kbest (S i)) as [H|H]; [left; exact H | right; lia].
Qed.

(* activation energy: stated for a single experiment, regressed (OLS of ln P against 1/T, times -R) otherwise *)
Lemma activation_energy_single exps (c : Component ROps) e ea :
  penetrant ROps exps c = Ok [e] -> ex_Ea e = Some ea -> activation_energy ROps exps c = Ok ea.
Proof. intros H He. unfold activation_energy. rewrite H. cbn [bind]. rewrite He. reflexivity. Qed.

Lemma activation_energy_too_few exps (c : Component ROps) e :
  penetrant ROps exps c = Ok [e] -> ex_Ea e = None -> activation_energy ROps exps c = Err ValueError.
Proof. intros H He. unfold activation_energy. rewrite H. cbn [bind]. rewrite He. reflexivity. Qed.

Lemma activation_energy_regressed exps (c : Component ROps) e0 e1 rest :
  penetrant ROps exps c = Ok (e0 :: e1 :: rest) ->
  activation_energy ROps exps c =
    Ok (- (ols_slope ROps (map (fun e : RExp => 1 / ex_T e) (e0 :: e1 :: rest)) (map (fun e : RExp => ln (pval (ex_P e))) (e0 :: e1 :: rest)) * Rg)).
Proof. intros H. unfold activation_energy. rewrite H. cbn [bind]. rewrite Rgas_R. reflexivity. Qed.

(* experiments exactly on an Arrhenius line: the regression recovers Ea *)
Lemma activation_energy_on_line exps (c : Component ROps) e0 e1 rest a Ea :
  penetrant ROps exps c = Ok (e0 :: e1 :: rest) ->
  (forall e, In e (e0 :: e1 :: rest) -> ln (pval (ex_P e)) = a + (- Ea / Rg) * (1 / ex_T e)) ->
  let xs := map (fun e : RExp => 1 / ex_T e) (e0 :: e1 :: rest) in
  INR (length xs) * rsum (map (fun x => x * x) xs) - rsum xs * rsum xs <> 0 ->
  activation_energy ROps exps c = Ok Ea.
Proof.
  intros H Hline xs Hd. rewrite (activation_energy_regressed _ _ _ _ _ H). f_equal.
  replace (map (fun e : RExp => ln (pval (ex_P e))) (e0 :: e1 :: rest)) with (map (fun x => a + (- Ea / Rg) * x) xs).
  - fold xs. rewrite (ols_slope_line a (- Ea / Rg) xs Hd). unfold Rg; field; try (apply Rgt_not_eq; apply pow_lt; lra).
  - unfold xs. rewrite map_map. apply map_ext_in. intros e He. symmetry. apply Hline. exact He.
Qed.

(* molar ideal selectivity = mass-based selectivity * M2 / M1 *)
Lemma selectivity_molar_vs_weight exps T (ca cb : Component ROps) pa pb :
  0 < mw ca -> 0 < mw cb ->
  get_permeance ROps exps T ca None = Ok pa -> get_permeance ROps exps T cb None = Ok pb ->
  punits pa = KG -> punits pb = KG -> 0 <= pval pa -> 0 <= pval pb -> pval pb <> 0 ->
  exists sw sm, ideal_selectivity ROps exps T ca cb false = Ok sw /\ ideal_selectivity ROps exps T ca cb true = Ok sm /\
    sm = sw * (mw cb / mw ca).
Proof.
  intros Ha Hb Hpa Hpb Ua Ub Pa Pb Nz. unfold ideal_selectivity. rewrite Hpa, Hpb. cbn [bind].
  destruct pa as [va ua], pb as [vb ub]. cbn [punits pval] in *. subst ua ub.
  rewrite (convert_ok ca va KG SI Ha Pa I I), (convert_ok cb vb KG SI Hb Pb I I). cbn [bind pval].
  eexists _, _. split; [reflexivity|]. split; [reflexivity|].
  unfold cval. cbn [fac]. rnum. field. repeat split; try lra.
Qed.

Lemma pure_flux_modes exps T (c : Component ROps) p v :
  get_permeance ROps exps T c None = Ok p -> vapor_pressure ROps c T = Ok v ->
  pure_component_flux ROps exps T c None None = Ok (pval p * v)
  /\ (forall tp vp, vapor_pressure ROps c tp = Ok vp -> pure_component_flux ROps exps T c (Some tp) None = Ok (pval p * (v - vp)))
  /\ (forall pr, pure_component_flux ROps exps T c None (Some pr) = Ok (pval p * (v - pr)))
  /\ (forall tp pr, pure_component_flux ROps exps T c (Some tp) (Some pr) = Err ValueError).
Proof.
  intros Hp Hv. unfold pure_component_flux. rewrite Hp, Hv. cbn [bind]. repeat split.
  - intros tp vp Hvp. rewrite Hvp. reflexivity.
Qed.
