"""Random process-model runs against the real implementation (shared by the C01/C03/C08/C11/C18 oracles)."""
import math
import pyvaporation as pv
import pyvaporation.pervaporation.pervaporation as PVM
from pyvaporation.conditions import Conditions, TemperatureProgram
from pyvaporation.diffusion_curve import DiffusionCurve, DiffusionCurveSet
from pyvaporation.optimizer import PervaporationFunction
import gens
import pvtools

KINDS = ['ideal_iso', 'ideal_noniso', 'nonideal_iso', 'nonideal_noniso']


def fake_find_best_fit(data, include_zero=False, component_index=0, n=None, m=None):
    """harness-side stand-in for the optimiser (deterministic, composition dependent) used by the oracles of
    properties that do not concern the fits themselves"""
    ps = [d.p for d in data]
    base = sum(ps) / len(ps)
    if m == 0:
        return PervaporationFunction(n=1, m=0, alpha=base * math.exp(1500.0 / data[0].t), a=[0.4 - 0.6 * component_index], b=[1500.0])
    return PervaporationFunction(n=1, m=1, alpha=base * math.exp(1500.0 / data[0].t), a=[0.4 - 0.6 * component_index], b=[1500.0, 90.0])


def curve_set(m, rng, ncurves, basis='weight', same_T=False):
    curves = []
    temps = [313.15, 333.15, 353.15][:ncurves] if ncurves > 1 else [rng.choice([313.15, 333.15])]
    if same_T:                              # several curves measured at one temperature (still a multi-curve set)
        temps = [temps[0]] * len(temps)
    for ci, T in enumerate(temps):
        xs = [0.1, 0.3, 0.5, 0.7, 0.9]
        comps = [pv.Composition(p=x, type='weight') for x in xs]
        if basis == 'molar':
            comps = [c.to_molar(m) for c in comps]
        elif basis == 'mixed':          # every point carries its own basis (weight, molar, weight, ...)
            comps = [c if k % 2 == 0 else c.to_molar(m) for k, c in enumerate(comps)]
        sc = 1.0 + (0.07 * ci if same_T else 0.0)
        perms = [(pv.Permeance(sc * 0.02 * math.exp(0.8 * x) * math.exp(-2000 * (1 / T - 1 / 333.15))),
                  pv.Permeance(0.0004 * math.exp(-0.5 * x) * math.exp(-4000 * (1 / T - 1 / 333.15)))) for x in xs]
        curves.append(DiffusionCurve(mixture=m, membrane_name='oracle_membrane', feed_temperature=T,
                                     feed_compositions=comps, permeances=perms))
    return DiffusionCurveSet(name='oracle_set', diffusion_curves=curves)


def random_config(rng, kinds=KINDS, coarse=False):
    m = rng.choice(gens.builtin_mixtures()) if rng.random() < 0.7 else gens.random_mixture(rng)
    kind = rng.choice(kinds)
    T0 = rng.uniform(293, 363)
    mode = rng.choice(['vac', 'temp', 'press'])
    Tp = rng.uniform(150, T0 - 20) if mode == 'temp' else None
    pp = rng.uniform(0, 2.0) if mode == 'press' else None
    prog = None
    if kind.endswith('noniso') and rng.random() < 0.4:
        t = rng.choice(['polynomial', 'exponential', 'logarithmic'])
        # the programme need not start at the stated initial temperature (step 0 uses the stated one)
        Ts = T0 if rng.random() < 0.5 else T0 + rng.uniform(-15, 15)
        if t == 'polynomial':
            prog = TemperatureProgram(coefficients=[Ts, rng.uniform(-3, 3), rng.uniform(-0.2, 0.2)], type=t)
        elif t == 'exponential':
            prog = TemperatureProgram(coefficients=[Ts, rng.uniform(-0.01, 0.01)], type=t)
        else:
            prog = TemperatureProgram(coefficients=[Ts / math.log(50.0), 50.0, rng.uniform(0, 2.0)], type=t)
    x0 = rng.uniform(0.05, 0.95)
    if prog is None:
        T0 = gens.maybe_int(rng, T0, 0.1)
    Tp, pp = gens.maybe_int(rng, Tp, 0.1), gens.maybe_int(rng, pp, 0.2)
    basis = rng.choice(['weight', 'weight', 'molar'])
    A = gens.loguniform(rng, 1e-3, 5.0)
    m0 = gens.loguniform(rng, 0.1, 100.0)
    n = rng.choice([1, 2, 3, 5, 8, 13, 30])
    if m0 >= 1 and A >= 0.5:
        A, m0 = gens.maybe_int(rng, A, 0.2), gens.maybe_int(rng, m0, 0.2)
    P1, P2 = gens.loguniform(rng, 1e-3, 0.2), gens.loguniform(rng, 1e-5, 0.02)
    ct = rng.choice(['NRTL', 'UNIQUAC']) if m.uniquac_params is not None else 'NRTL'
    # step length: remove roughly `frac` of the feed over the whole run (fine) or per step (coarse)
    flux_guess = P1 * 20.0 + P2 * 20.0
    frac = gens.loguniform(rng, 0.1, 10.0) if coarse else (rng.uniform(0.01, 0.5) / n if rng.random() < 0.8 else gens.loguniform(rng, 1e-9, 1e-3))
    dt = frac * m0 / (flux_guess * A)
    Texp = T0 if rng.random() < 0.5 else T0 + rng.uniform(-20, 20)
    units = rng.choice(['kg/(m2*h*kPa)', 'kg/(m2*h*kPa)', 'SI', 'GPU'])
    # a measured temperature series (not Arrhenius-consistent); half of the time the run starts just next to the midpoint
    # between two experiments, so that a drifting feed temperature changes which experiment is the nearest one
    extra = []
    if rng.random() < 0.35:
        for _ in range(rng.choice([1, 1, 2])):
            extra.append((rng.choice([-1, 1]) * rng.uniform(2, 25), math.exp(rng.uniform(-0.7, 0.7)), math.exp(rng.uniform(-0.7, 0.7))))
        if rng.random() < 0.5:
            Texp = T0 - extra[0][0] / 2 + rng.choice([-1, 1]) * gens.loguniform(rng, 0.02, 1.5)
    ip = None
    if kind.startswith('nonideal') and rng.random() < 0.5:
        ipu = rng.choice(['kg/(m2*h*kPa)', 'SI', 'GPU'])
        ip = (pv.Permeance(P1).convert(ipu, m.first_component), pv.Permeance(P2).convert(ipu, m.second_component))
    ncurves = rng.choice([1, 1, 2, 3]) if kind.startswith('nonideal') else 0
    return dict(m=m, kind=kind, T0=T0, Tp=Tp, pp=pp, prog=prog, x0=x0, basis=basis, A=A, m0=m0, n=n, dt=dt,
                P1=P1, P2=P2, ct=ct, prec=5e-5, Texp=Texp, units=units, ip=ip, ncurves=ncurves, mode=mode, sameT=(ncurves > 1 and rng.random() < 0.3),
                Ea1=rng.uniform(-20000, 60000), Ea2=rng.uniform(-20000, 60000), extra=extra, cbasis=rng.choice(['weight', 'molar', 'mixed']))


def build(cfg, rng=None):
    m = cfg['m']
    P1, P2 = cfg['P1'], cfg['P2']
    if cfg['units'] == 'SI':
        P1 = pv.Permeance(P1).convert('SI', m.first_component).value
        P2 = pv.Permeance(P2).convert('SI', m.second_component).value
    elif cfg['units'] == 'GPU':
        P1 = pv.Permeance(P1).convert('GPU', m.first_component).value
        P2 = pv.Permeance(P2).convert('GPU', m.second_component).value
    mem = pvtools.simple_membrane(m, P1, P2, T=cfg['Texp'], Ea1=cfg['Ea1'], Ea2=cfg['Ea2'], units=gens.fresh_str(cfg['units']), extra=cfg.get('extra', ()))
    cd = Conditions(membrane_area=cfg['A'], initial_feed_temperature=cfg['T0'], initial_feed_amount=cfg['m0'],
                    initial_feed_composition=pv.Composition(p=cfg['x0'], type=gens.fresh_str(cfg['basis'])),      # equal, not identical, to the library's constant
                    permeate_temperature=cfg['Tp'], permeate_pressure=cfg['pp'], temperature_program=cfg['prog'])
    return mem, cd


def run(cfg, pvo=None, fake_fit=True, A=None, m0=None, dt=None):
    import random
    mem, cd = build(cfg)
    if A is not None:
        cd.membrane_area = A
    if m0 is not None:
        cd.initial_feed_amount = m0
    dt = cfg['dt'] if dt is None else dt
    pvo = pvo or pv.Pervaporation(mem, cfg['m'])
    k = cfg['kind']
    if k == 'ideal_iso':
        return pvo.ideal_isothermal_process(number_of_steps=cfg['n'], delta_hours=dt, conditions=cd,
                                            precision=cfg['prec'], calculation_type=cfg['ct']), pvo, cd
    if k == 'ideal_noniso':
        return pvo.ideal_non_isothermal_process(conditions=cd, number_of_steps=cfg['n'], delta_hours=dt,
                                                precision=cfg['prec'], calculation_type=cfg['ct']), pvo, cd
    cs = curve_set(cfg['m'], random.Random(1), cfg['ncurves'], cfg['cbasis'], cfg.get('sameT', False))
    old = PVM.find_best_fit
    if fake_fit:
        PVM.find_best_fit = fake_find_best_fit
    try:
        f = pvo.non_ideal_isothermal_process if k == 'nonideal_iso' else pvo.non_ideal_non_isothermal_process
        return f(conditions=cd, diffusion_curve_set=cs, number_of_steps=cfg['n'], delta_hours=dt, precision=cfg['prec'],
                 calculation_type=cfg['ct'], initial_permeances=cfg['ip']), pvo, cd
    finally:
        PVM.find_best_fit = old


def describe(cfg):
    d = {k: v for k, v in cfg.items() if k not in ('m', 'prog', 'ip')}
    d['mixture'] = gens.describe_mixture(cfg['m'])
    d['prog'] = None if cfg['prog'] is None else [cfg['prog'].type, list(cfg['prog'].coefficients)]
    d['ip'] = None if cfg['ip'] is None else [cfg['ip'][0].value, cfg['ip'][1].value]
    return d


ACCEPTABLE = (ValueError, ZeroDivisionError, OverflowError, FloatingPointError)
