"""C17 — saved curves, functions, conditions and process models load back unchanged."""
import hashlib
import os
import random
import shutil
import tempfile
from pathlib import Path
import pyvaporation as pv
import pyvaporation.process.process as PMOD
from pyvaporation.conditions import Conditions
from pyvaporation.diffusion_curve import DiffusionCurve, DiffusionCurveSet
from pyvaporation.optimizer import PervaporationFunction
from pyvaporation.process import ProcessModel
from common import rel_close
import gens
import corr_persist

FAMILIES = []
BRIDGES = []
PROPS_V = 'Props/C17.v'
EXTRA_TARGETS = ['Model/PersistCheck.vo', 'Model/PersistCurveCheck.vo', 'Model/NumCheck.vo']
BUDGET = {'quick': 60, 'thorough': 1200}
ORACLE_RULE = ('generated process models (1..6 rows, units kg/SI/GPU, molar or mass feed compositions, values 1e-9..1e3, None-valued optional fields, both storage modes), '
               'diffusion curves (3 permeate modes, molar/mass), permeance functions (binary and JSON), conditions (JSON), and sequences of 2..5 saves under one membrane '
               'directory with the directory name forced to collide (harness-side replacement of datetime in process.py); non-trivial = all')
ASSUMPTIONS = ['pandas / json / joblib / the OS store and return what they are given (oracle); text parsing of floats within 1e-9 relative']
LEVEL_TEXT = ('Coq theorems: every CSV line written for a reported row loads back as that row, the whole table loads back with the same rows / scalar permeate condition / '
              'length; a constructed diffusion curve (any length >= 1, either composition basis) is written as one line per point and loads back (through from_frame AND the '
              'DiffusionCurve constructor) with the same temperature, permeate condition, fluxes, permeances in kg units and mass-fraction compositions, a mass-fraction curve '
              'is a fixed point, a file with holes in both the flux and the permeance columns is rejected; a curve-set file is grouped by numeric curve identifier (DiffusionCurveSet.load): curves written under ascending identifiers load back as that list, the loaded set depends only on the own lines of each identifier in file order (any interleaving of the lines), a single-identifier file is a one-curve set; the JSON forms of PervaporationFunction and Conditions load back '
              'field for field (the temperature programme is not stored), an out-of-range stored composition is rejected; for every prior directory listing and every hash '
              'value a save either raises FileExistsError or creates a directory that did not exist and keeps all others. Tie (correspondence): the model is EXECUTED inside '
              'Coq (vm_compute, binary64 via PrimFloat) on generated process models, curves (built from fluxes / permeances in kg, SI, GPU / both; files with blanked columns; multi-curve set files with shuffled lines and unordered identifiers), '
              'functions and conditions and compared with the bytes the real save wrote (exact, cell by cell / key by key) and with what the real load returned (1e-9), '
              'incl. unit and mole->mass conversion on load and re-computation of permeances from fluxes when the permeance columns are missing.')
LEVEL_NOTE = ('partial: pandas/joblib/json/OS behaviour is an oracle (assumed to store and return what it is given); the binary joblib form has no model (identity by '
              'assumption, compared field for field on every run); curve identifiers are modelled as numbers and one mixture per file')
TECHNIQUE = 'Coq proof (column-map round trip, abstract file system) + correspondence: model executed by vm_compute vs real save/load'
DESIGN_REF = 'DESIGN.md section 6 C17'


def correspondence(tier, seed):
    return corr_persist.run(seed, 30 if tier == 'quick' else 400)


def tree_digest(path):
    out = {}
    for base, _, files in os.walk(path):
        for f in files:
            p = os.path.join(base, f)
            out[os.path.relpath(p, path)] = hashlib.sha1(open(p, 'rb').read()).hexdigest()
    return out


class FakeNow:
    value = 0

    @classmethod
    def now(cls):
        return cls.value


def check_process(rng, tmp):
    pm, m, units = corr_persist.random_model(rng, tmp)
    safe = rng.random() < 0.5
    pm.save(tmp, is_safe=safe)
    d = os.listdir(os.path.join(tmp, 'results'))
    lp = ProcessModel.load(os.path.join(tmp, 'results', d[0]), is_safe=safe)
    n = len(pm.time)
    if not all(len(s) == n for s in (lp.time, lp.feed_mass, lp.feed_temperature, lp.feed_compositions, lp.permeate_composition,
                                     lp.partial_fluxes, lp.permeances, lp.feed_evaporation_heat, lp.permeate_condensation_heat)):
        return False, 'series lengths changed'
    if lp.mixture.name != m.name:
        return False, 'mixture %s loaded as %s' % (m.name, lp.mixture.name)
    for k in range(n):
        pairs = [(pm.time[k], lp.time[k]), (pm.feed_mass[k], lp.feed_mass[k]), (pm.feed_temperature[k], lp.feed_temperature[k]),
                 (pm.partial_fluxes[k][0], lp.partial_fluxes[k][0]), (pm.partial_fluxes[k][1], lp.partial_fluxes[k][1]),
                 (pm.feed_evaporation_heat[k], lp.feed_evaporation_heat[k]),
                 (pm.feed_compositions[k].to_weight(m).p, lp.feed_compositions[k].p), (pm.permeate_composition[k].p, lp.permeate_composition[k].p),
                 (pm.permeances[k][0].convert('kg/(m2*h*kPa)', m.first_component).value, lp.permeances[k][0].value),
                 (pm.permeances[k][1].convert('kg/(m2*h*kPa)', m.second_component).value, lp.permeances[k][1].value)]
        for a, b in pairs:
            if not rel_close(float(a), float(b), 1e-9, 1e-300):
                return False, 'row %d: %r saved, %r loaded' % (k, a, b)
        qa, qb = pm.permeate_condensation_heat[k], lp.permeate_condensation_heat[k]
        if (qa is None) != (qb is None or qb != qb) or (qa is not None and not rel_close(qa, float(qb), 1e-9)):
            return False, 'row %d: condensation heat %r -> %r' % (k, qa, qb)
        if lp.feed_compositions[k].type != 'weight' or lp.permeances[k][0].units != 'kg/(m2*h*kPa)':
            return False, 'row %d: loaded composition type / units' % k
    tp = pm.permeate_temperature[0]
    if (tp is None) != (lp.permeate_temperature is None) or (tp is not None and not rel_close(tp, lp.permeate_temperature, 1e-9)):
        return False, 'permeate temperature %r -> %r' % (tp, lp.permeate_temperature)
    pp = pm.permeate_pressure[0]
    if (pp is None) != (lp.permeate_pressure is None) or (pp is not None and not rel_close(pp, lp.permeate_pressure, 1e-9)):
        return False, 'permeate pressure %r -> %r' % (pp, lp.permeate_pressure)
    for i in range(2):
        a, b = pm.permeance_fits[i], lp.permeance_fits[i]
        if not (a.n == b.n and a.m == b.m and rel_close(a.alpha, b.alpha, 1e-9) and len(a.a) == len(b.a) and len(a.b) == len(b.b)
                and all(rel_close(x, y, 1e-9, 1e-300) for x, y in zip(a.a, b.a)) and all(rel_close(x, y, 1e-9, 1e-300) for x, y in zip(a.b, b.b))):
            return False, 'permeance function %d changed' % i
    ic, lc = pm.initial_conditions, lp.initial_conditions
    if not (rel_close(ic.membrane_area, lc.membrane_area, 1e-9) and rel_close(ic.initial_feed_amount, lc.initial_feed_amount, 1e-9)
            and rel_close(ic.initial_feed_composition.p, lc.initial_feed_composition.p, 1e-9) and ic.initial_feed_composition.type == lc.initial_feed_composition.type
            and ic.permeate_temperature == lc.permeate_temperature and ic.permeate_pressure == lc.permeate_pressure):
        return False, 'initial conditions changed'
    return True, ''


def check_collisions(rng, tmp):
    old = PMOD.datetime
    PMOD.datetime = FakeNow
    try:
        FakeNow.value = rng.randrange(1000, 9999)
        seen = {}
        for i in range(rng.randint(3, 5)):
            pm, m, units = corr_persist.random_model(rng, tmp)
            before = tree_digest(os.path.join(tmp, 'results')) if os.path.exists(os.path.join(tmp, 'results')) else {}
            if rng.random() < 0.25:
                FakeNow.value = rng.randrange(1000, 9999)
            try:
                pm.save(tmp, is_safe=rng.random() < 0.5)
                raised = False
            except FileExistsError:
                raised = True
            after = tree_digest(os.path.join(tmp, 'results'))
            for k, v in before.items():
                if after.get(k) != v:
                    return False, 'save #%d %s altered the previously saved file %s' % (i, 'raised but' if raised else '', k)
            if raised and after != before:
                return False, 'save #%d raised FileExistsError but wrote files' % i
            newdirs = {k.split(os.sep)[0] for k in after} - {k.split(os.sep)[0] for k in before}
            if not raised and len(newdirs) != 1:
                return False, 'save #%d wrote into %d new directories (expected exactly one fresh directory)' % (i, len(newdirs))
        return True, ''
    finally:
        PMOD.datetime = old


def check_curve(rng, tmp):
    m = rng.choice(gens.builtin_mixtures())
    n = rng.randint(1, 5)
    ctype = rng.choice(['weight', 'molar'])
    mode = rng.choice(['vac', 'temp', 'press'])
    tp = rng.uniform(150, 300) if mode == 'temp' else None
    pp = rng.choice([0.0, rng.uniform(0, 3)]) if mode == 'press' else None
    mixed = rng.random() < 0.4        # every point carries its own basis
    comps = [pv.Composition(p=rng.uniform(0.05, 0.95), type=(rng.choice(['weight', 'molar']) if mixed else ctype)) for _ in range(n)]
    c = DiffusionCurve(mixture=m, membrane_name='mm', feed_temperature=rng.uniform(290, 360), feed_compositions=comps,
                       partial_fluxes=[(gens.loguniform(rng, 1e-3, 5), gens.loguniform(rng, 1e-6, 1)) for _ in range(n)],
                       permeances=[(pv.Permeance(gens.loguniform(rng, 1e-9, 1)), pv.Permeance(gens.loguniform(rng, 1e-9, 1))) for _ in range(n)],
                       permeate_temperature=tp, permeate_pressure=pp, comments='c')
    path = Path(tmp) / 'curve.csv'
    c.save(path)
    lc = DiffusionCurveSet.load(path).diffusion_curves[0]
    if len(lc) != n or lc.mixture.name != m.name:
        return False, 'curve length/mixture changed'
    for k in range(n):
        pairs = [(c.feed_compositions[k].to_weight(m).p, lc.feed_compositions[k].p), (c.partial_fluxes[k][0], lc.partial_fluxes[k][0]),
                 (c.partial_fluxes[k][1], lc.partial_fluxes[k][1]), (c.permeances[k][0].value, lc.permeances[k][0].value),
                 (c.permeances[k][1].value, lc.permeances[k][1].value)]
        for a, b in pairs:
            if not rel_close(float(a), float(b), 1e-9, 1e-300):
                return False, 'curve point %d: %r saved, %r loaded' % (k, a, b)
        if lc.feed_compositions[k].type != 'weight' or lc.permeances[k][0].units != 'kg/(m2*h*kPa)':
            return False, 'curve point %d: type/units' % k
    if not rel_close(c.feed_temperature, lc.feed_temperature, 1e-9):
        return False, 'curve feed temperature'
    for a, b in ((tp, lc.permeate_temperature), (pp, lc.permeate_pressure)):
        if (a is None) != (b is None) or (a is not None and not rel_close(a, float(b), 1e-9)):
            return False, 'curve permeate condition %r -> %r' % (a, b)
    return True, ''


def check_function(rng, tmp):
    n, mm = rng.randint(0, 3), rng.randint(0, 2)
    f = PervaporationFunction(n=n, m=mm, alpha=gens.loguniform(rng, 1e-9, 1e3), a=[rng.uniform(-3, 3) for _ in range(n)], b=[rng.uniform(-3000, 3000) for _ in range(mm + 1)])
    out = []
    f.save(Path(tmp) / 'f.bin')
    out.append(PervaporationFunction.load(Path(tmp) / 'f.bin'))
    f.safe_save(Path(tmp) / 'f.json')
    out.append(PervaporationFunction.safe_load(Path(tmp) / 'f.json'))
    for g in out:
        if not (g.n == n and g.m == mm and rel_close(g.alpha, f.alpha, 1e-9) and list(g.a) == list(f.a) and list(g.b) == list(f.b)):
            return False, 'function (n=%d, m=%d) changed on reload' % (n, mm)
    cd = Conditions(membrane_area=gens.loguniform(rng, 1e-3, 10), initial_feed_temperature=rng.uniform(280, 370), initial_feed_amount=gens.loguniform(rng, 1e-2, 100),
                    initial_feed_composition=pv.Composition(p=rng.uniform(0, 1), type=rng.choice(['weight', 'molar'])),
                    permeate_temperature=rng.choice([None, rng.uniform(150, 300)]), permeate_pressure=rng.choice([None, 0.0, rng.uniform(0, 5)]))
    cd.safe_save(Path(tmp) / 'c.json')
    lc = Conditions.safe_load(Path(tmp) / 'c.json')
    if not (lc.membrane_area == cd.membrane_area and lc.initial_feed_temperature == cd.initial_feed_temperature and lc.initial_feed_amount == cd.initial_feed_amount
            and lc.initial_feed_composition.p == cd.initial_feed_composition.p and lc.initial_feed_composition.type == cd.initial_feed_composition.type
            and lc.permeate_temperature == cd.permeate_temperature and lc.permeate_pressure == cd.permeate_pressure):
        return False, 'conditions changed on reload: saved %r, loaded %r' % (cd, lc)
    return True, ''


CHECKS = {'process': check_process, 'collisions': check_collisions, 'curve': check_curve, 'function': check_function}


def oracle(rng, tier):
    while True:
        kind = rng.choice(['process', 'process', 'collisions', 'curve', 'function'])
        sub = rng.getrandbits(32)          # every item is reproducible from (kind, subseed): see replay()
        tmp = tempfile.mkdtemp(prefix='verif_c17_')
        try:
            ok, detail = CHECKS[kind](random.Random(sub), tmp)
        except Exception as e:
            ok, detail = False, 'raised %s: %s' % (type(e).__name__, e)
        finally:
            shutil.rmtree(tmp, ignore_errors=True)
        yield {'kind': kind, 'case': {'kind': kind, 'subseed': sub}, 'ok': ok, 'detail': detail}


def replay(rep):
    c = (rep.get('failure') or {}).get('case') or {}
    if 'subseed' not in c:
        return True, 're-run bin/check C17 with VERIF_SEED=%s' % rep.get('seed')
    tmp = tempfile.mkdtemp(prefix='verif_c17_')
    try:
        return CHECKS[c['kind']](random.Random(c['subseed']), tmp)
    except Exception as e:
        return False, 'raised %s: %s' % (type(e).__name__, e)
    finally:
        shutil.rmtree(tmp, ignore_errors=True)
