"""C16 — curve fitting is pure, deterministic and returns the best candidate it tried."""
import copy
import math
import pyvaporation as pv
from pyvaporation.optimizer import Measurements, PervaporationFunction, find_best_fit, fit
from pyvaporation.optimizer.optimizer import Measurement
from common import rel_close
import gens
import pvtools

FAMILIES = ['fit']
BRIDGES = ['br_pfcall_', 'br_pfmul', 'br_from_array_', 'br_bestfit_', 'br_fit_', 'br_vle_']
EXTRA_TARGETS = ['Model/NumCheck.vo']
PROPS_V = 'Props/C16.v'
BUDGET = {'quick': 14, 'thorough': 200}
ORACLE_RULE = ('measurement sets of 3..12 points at 1..3 temperatures with magnitudes 1e-8..1, orders n,m in 0..2, with/without zero points, both components; '
               'each case: snapshot of the caller\'s data before/after fit and find_best_fit, a repeated call on the same object (bit-identical coefficients), '
               'and the best-fit loss compared with every single fit of the grid; evaluation formula and scalar multiplication on random functions; non-trivial = all')
ASSUMPTIONS = ['scipy.optimize.minimize is a deterministic function of its arguments (oracle; sampled by repeat-call equality)',
               'the optimisers\' internals are not modelled (partial)']
LEVEL_TEXT = ('Coq theorems: the best-fit search (strict-improvement scan over the (n,m) grid) returns one of the tried candidates whose squared error on the supplied data '
              'is <= that of every single fit with orders within the requested maxima (any candidate function, any data); same for the VLE best-of; evaluation formula '
              'alpha exp(sum a_i x^(i+1) - sum b_i x^i / T); multiplication by a constant; the minimiser sees the caller\'s points followed by zero points only when '
              'requested. Tie: bridges of __call__, __mul__, from_array, of find_best_fit with fit abstract (request grid, data identity and a before/after snapshot of the '
              'caller\'s list checked; every loss comparison must be consumed by the model), of fit with minimize/objective abstract (data seen by the optimiser, purity), of fit_vle.')
LEVEL_NOTE = 'partial: determinism and quality of scipy\'s optimisers are assumed (oracle) and only sampled; pure-Python aliasing is observed by snapshots in the tracer and the oracle'
TECHNIQUE = 'Coq proof (list induction over candidates) + symbolic-trace bridge lemmas with the optimiser as a cut point + argument snapshots'
DESIGN_REF = 'DESIGN.md section 6 C16'


def random_data(rng):
    nt = rng.choice([1, 2, 3])
    temps = [313.15, 333.15, 353.15][:nt]
    k = rng.choice([3, 5, 8, 12])
    scale = gens.loguniform(rng, 1e-8, 1.0)
    a, b = rng.uniform(-1, 1), rng.uniform(500, 3000)
    pts = []
    for i in range(k):
        x = rng.uniform(0.02, 0.98)
        t = temps[i % nt]
        pts.append(Measurement(x=x, t=t, p=scale * math.exp(a * x + 0.3 * x * x - b / t) * math.exp(b / 333.15) * (1 + rng.uniform(-0.02, 0.02))))
    return Measurements(data=pts), scale


def snap(ms):
    return [(d.x, d.t, d.p) for d in ms.data], len(ms.data), id(ms.data)


def coeffs(f):
    return (f.n, f.m, float(f.alpha), [float(v) for v in f.a], [float(v) for v in f.b])


def sq(f, data):
    return sum((f(d.x, d.t) - d.p) ** 2 for d in data)


def oracle(rng, tier):
    while True:
        r = rng.random()
        if r < 0.25:
            n, m = rng.choice([0, 1, 2]), rng.choice([0, 1])
            f = PervaporationFunction(n=n, m=m, alpha=gens.loguniform(rng, 1e-6, 10), a=[rng.uniform(-2, 2) for _ in range(n)],
                                      b=[rng.uniform(-2000, 3000) for _ in range(m + 1)])
            x, t, c = rng.uniform(0, 1), rng.uniform(280, 380), gens.loguniform(rng, 1e-3, 1e3)
            e = f.alpha * math.exp(sum(f.a[i] * x ** (i + 1) for i in range(n)) - sum(f.b[i] * x ** i for i in range(m + 1)) / t)
            ok = rel_close(f(x, t), e, 1e-12) and rel_close((f * c)(x, t), c * f(x, t), 1e-12)
            before = coeffs(f)
            g = f * c
            ok = ok and coeffs(f) == before
            yield {'kind': 'evaluation', 'case': {'coeffs': before, 'x': x, 't': t, 'c': c}, 'ok': ok, 'detail': 'evaluation / multiplication law'}
            continue
        data, scale = random_data(rng)
        real = pvtools.real_curve_sets()
        if real and rng.random() < 0.25:
            # measured multi-temperature data: the optimiser's own failure path (evaluation budget exhausted) is reached here
            name, cset = rng.choice(real)
            data = (Measurements.from_diffusion_curves_second if rng.random() < 0.5 else Measurements.from_diffusion_curves_first)(cset)
            scale = 'measured:' + name
        iz = rng.random() < 0.5
        idx = rng.choice([0, 1])
        case = {'points': snap(data)[0], 'include_zero': iz, 'component_index': idx, 'scale': scale}
        before = snap(data)
        ok, detail = True, ''
        if r < 0.6:
            n, m = rng.choice([0, 1, 2]), rng.choice([0, 1])
            f1 = fit(data, n=n, m=m, include_zero=iz, component_index=idx)
            if snap(data) != before:
                ok, detail = False, 'fit changed the measurements it was given: %d -> %d points' % (before[1], len(data.data))
            f2 = fit(data, n=n, m=m, include_zero=iz, component_index=idx)
            if ok and coeffs(f1) != coeffs(f2):
                ok, detail = False, 'repeated fit on the same object differs: %r vs %r' % (coeffs(f1), coeffs(f2))
            f3 = fit(Measurements(data=[Measurement(*p) for p in before[0]]), n=n, m=m, include_zero=iz, component_index=idx)
            if ok and coeffs(f1) != coeffs(f3):
                ok, detail = False, 'fit on equal fresh data differs'
            case.update({'n': n, 'm': m})
            yield {'kind': 'fit:%s' % ('zero' if iz else 'plain'), 'case': case, 'ok': ok, 'detail': detail}
        else:
            n, m = rng.choice([0, 1]), rng.choice([0, 1])
            best = find_best_fit(data, include_zero=iz, component_index=idx, n=n, m=m)
            if snap(data) != before:
                ok, detail = False, 'find_best_fit changed the measurements it was given: %d -> %d points' % (before[1], len(data.data))
            lb = sq(best, data.data)
            for i in range(n + 1):
                for j in range(m + 1):
                    fij = fit(Measurements(data=[Measurement(*p) for p in before[0]]), n=i, m=j, include_zero=iz, component_index=idx)
                    lij = sq(fij, [Measurement(*p) for p in before[0]])
                    if ok and lb > lij * (1 + 1e-9) + 1e-300:
                        ok, detail = False, 'best-fit loss %r > loss %r of the single fit n=%d m=%d' % (lb, lij, i, j)
            best2 = find_best_fit(data, include_zero=iz, component_index=idx, n=n, m=m)
            if ok and coeffs(best) != coeffs(best2):
                ok, detail = False, 'repeated best-fit search on the same object differs'
            case.update({'n': n, 'm': m})
            yield {'kind': 'best_fit:%s' % ('zero' if iz else 'plain'), 'case': case, 'ok': ok, 'detail': detail}


def correspondence(tier, seed):
    import corr_numeric
    budget = {'fit': 30}
    if tier == 'thorough':
        budget = {k: v * 12 for k, v in budget.items()}
    return corr_numeric.run(seed, budget, nmax=30 if tier == 'quick' else 200, tag='C16')


def replay(rep):
    return True, 're-run bin/check C16 with VERIF_SEED=%s' % rep.get('seed')
