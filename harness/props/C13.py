"""C13 — latent and cooling heats consistent with vapour pressure and heat capacity."""
import math
import pyvaporation as pv
from pyvaporation.utils import R
from common import rel_close
import gens

FAMILIES = ['component']
BRIDGES = ['br_vp_', 'br_hvap_', 'br_cp', 'br_cool']
PROPS_V = 'Props/C13.v'
EXTRA_TARGETS = ['Model/NumCheck.vo']
BUDGET = {'quick': 1200, 'thorough': 30000}
ORACLE_RULE = ('built-in components and random Antoine/Frost constant sets x T in 200..500 K (Antoine: at least 15 K from the pole) ; '
               'random cubic Cp polynomials incl. exact-zero coefficients x random temperature triples; '
               'central differences / Simpson quadrature (exact for cubics) against the public methods')
ASSUMPTIONS = ['binary64 abstracted to reals; finite-difference tolerance 2e-6 relative in the oracle']
LEVEL_TEXT = ('Coq/Coquelicot theorems for every constant set and temperature (Antoine off its pole): 1000 H = R T^2 dlnPsat/dT for both '
              'equation forms; cooling heat is the Riemann integral of the cubic Cp, additive, antisymmetric, zero on an empty interval, '
              'derivative w.r.t. the upper limit = Cp. Tie: bridge lemmas from symbolic traces of the four Component methods (both forms + unknown form).')
LEVEL_NOTE = 'binary64 abstracted to reals; tracer + Coq kernel trusted; Reals axioms + classic (Coquelicot)'
TECHNIQUE = 'Coq proof with Coquelicot (auto_derive, is_RInt_derive) + symbolic-trace bridge lemmas'
DESIGN_REF = 'DESIGN.md section 6 C13'


def simpson(f, a, b):
    return (b - a) / 6 * (f(a) + 4 * f((a + b) / 2) + f(b))


def check_component(c, rng):
    vp = c.vapour_pressure_constants
    for _ in range(3):
        T = rng.uniform(200, 500)
        if vp.type == 'antoine' and abs(T + vp.c) < 15:
            continue
        h = 1e-3
        try:
            d = (math.log(c.get_vapor_pressure(T + h)) - math.log(c.get_vapor_pressure(T - h))) / (2 * h)
        except (ValueError, OverflowError):
            continue
        lhs = 1000 * c.get_vaporisation_heat(T)
        rhs = R * T * T * d
        if not rel_close(lhs, rhs, 2e-6, 1e-6):
            return False, 'Clausius-Clapeyron at T=%r: 1000H=%r, R T^2 dlnP/dT=%r' % (T, lhs, rhs), {'T': T}
    t0, t1, t2 = rng.uniform(200, 500), rng.uniform(200, 500), rng.uniform(200, 500)
    q = c.get_cooling_heat
    scale = abs(q(500.0, 200.0)) + 1.0
    if not rel_close(q(t0, t1), simpson(c.get_specific_heat, t1, t0), 1e-9, 1e-9 * scale):
        return False, 'cooling heat %r != integral of Cp %r on [%r,%r]' % (q(t0, t1), simpson(c.get_specific_heat, t1, t0), t1, t0), {'t0': t0, 't1': t1}
    if abs(q(t0, t1) + q(t1, t2) - q(t0, t2)) > 1e-9 * scale:
        return False, 'not additive', {'t0': t0, 't1': t1, 't2': t2}
    if abs(q(t0, t1) + q(t1, t0)) > 1e-9 * scale:
        return False, 'not antisymmetric', {'t0': t0, 't1': t1}
    if q(t0, t0) != 0:
        return False, 'non-zero on empty interval', {'t0': t0}
    h = 1e-2
    dq = (q(t0 + h, t1) - q(t0 - h, t1)) / (2 * h)
    if not rel_close(dq, c.get_specific_heat(t0), 1e-5, 1e-6 * scale):
        return False, 'd(cooling)/dt0 = %r but Cp = %r' % (dq, c.get_specific_heat(t0)), {'t0': t0, 't1': t1}
    # narrow intervals (the property holds for EVERY pair of temperatures, not only process-scale differences)
    d1, d2 = 10 ** rng.uniform(-6, 0), 10 ** rng.uniform(-6, 0)
    a, b, cc = t0, t0 + d1, t0 + d1 + d2
    tolr = 1e-11 * scale
    if abs(q(b, a) + q(cc, b) - q(cc, a)) > tolr:
        return False, 'not additive on narrow adjacent intervals: Q(%r,%r)+Q(%r,%r) = %r, Q(%r,%r) = %r' % (b, a, cc, b, q(b, a) + q(cc, b), cc, a, q(cc, a)), {'t0': a, 't1': b, 't2': cc}
    mid = simpson(c.get_specific_heat, a, b)      # exact for the cubic Cp polynomial
    if abs(q(b, a) - mid) > 1e-9 * abs(mid) + tolr:
        return False, 'cooling heat over the narrow interval [%r, %r] is %r, the integral of Cp is %r' % (a, b, q(b, a), mid), {'t0': a, 't1': b}
    if abs(q(b, a) + q(a, b)) > tolr:
        return False, 'not antisymmetric on a narrow interval', {'t0': a, 't1': b}
    return True, '', {}


def comp_desc(c):
    v, h = c.vapour_pressure_constants, c.heat_capacity_constants
    return {'vp': [v.type, v.a, v.b, v.c], 'cp': [h.a, h.b, h.c, h.d]}


def oracle(rng, tier):
    comps = gens.builtin_components()
    while True:
        c = rng.choice(comps) if rng.random() < 0.3 else gens.random_component(rng, any_c=True)
        ok, detail, extra = check_component(c, rng)
        case = comp_desc(c)
        case.update(extra)
        yield {'kind': c.vapour_pressure_constants.type, 'case': case, 'ok': ok, 'detail': detail}


def correspondence(tier, seed):
    import corr_numeric
    budget = {'component': 60}
    if tier == 'thorough':
        budget = {k: v * 12 for k, v in budget.items()}
    return corr_numeric.run(seed, budget, nmax=30 if tier == 'quick' else 200, tag='C13')


def replay(rep):
    import random
    from pyvaporation.utils import HeatCapacityConstants, VaporPressureConstants
    c = rep['failure']['case']
    comp = pv.Component(name='replay', molecular_weight=1.0,
                        vapour_pressure_constants=VaporPressureConstants(a=c['vp'][1], b=c['vp'][2], c=c['vp'][3], type=c['vp'][0]),
                        heat_capacity_constants=HeatCapacityConstants(*c['cp']))
    for s in range(50):
        ok, detail, _ = check_component(comp, random.Random(s))
        if not ok:
            return False, detail
    return True, 'no failure on 50 random temperature sets'
