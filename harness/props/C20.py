"""C20 — modelling calls are pure: no hidden state, arguments untouched, repeatable."""
import copy
import math
import random
import numpy
import pyvaporation as pv
from pyvaporation.conditions import Conditions
from pyvaporation.optimizer import Measurements, find_best_fit, fit
from common import rel_close
import gens
import pvtools
import procoracle as po

FAMILIES = ['process', 'solver', 'curve', 'fit', 'mixture', 'component', 'membrane', 'nicurve']
BRIDGES = ['br_']
PROPS_V = 'Props/C20.v'
EXTRA_TARGETS = ['Model/NumCheck.vo']
BUDGET = {'quick': 90, 'thorough': 900}
ORACLE_RULE = ('random call sequences of length 2..12 over the modelling entry points (flux solver, helpers, ideal/non-ideal curves, 4 process kinds, fit, best-fit search) '
               'sharing ONE membrane, mixture, curve set (mass or mole fraction curves), conditions and measurement object; after every call a deep snapshot of all shared '
               'objects is compared with the previous one, and the numeric result is compared bit-for-bit with the same call made first on deep copies taken before the '
               'sequence; built-in Mixtures/Components are hashed before and after; one evaluation = one call of a sequence; non-trivial = not the first call of its sequence')
ASSUMPTIONS = ['hidden interpreter state outside the modelled sharing mechanisms can only be caught by the sampled histories (partial)']
LEVEL_TEXT = ('Every modelling entry point is a Gallina function of its arguments, and ALL bridge lemmas of all families are re-established on every run, including the tracer\'s '
              'history pass (each case traced a second time later in the same interpreter with fresh leaves behind the same object names must yield the same expression) and '
              'deep before/after snapshots of every argument object. The only non-functional mechanism of the code (coefficient arrays shared by a fitted function and its scaled '
              'copy, written in place by b[0] = Ea/R) is modelled with an explicit heap: Coq theorems show that a call writes only arrays it allocated itself, that any sequence of '
              'calls leaves all pre-existing arrays unchanged, and that results do not depend on the prior heap.')
LEVEL_NOTE = 'partial: state hidden outside the modelled mechanisms is only sampled (random histories); determinism of scipy assumed'
TECHNIQUE = 'Coq proof (heap footprint / history independence) + all symbolic-trace bridges with history pass and argument snapshots + random call histories'
DESIGN_REF = 'DESIGN.md section 6 C20'


def snap(o, depth=0):
    if depth > 10:
        return 'deep'
    if hasattr(o, '__attrs_attrs__'):
        return (type(o).__name__,) + tuple((a.name, snap(getattr(o, a.name), depth + 1)) for a in o.__attrs_attrs__)
    if isinstance(o, dict):
        return ('dict',) + tuple((str(k), snap(v, depth + 1)) for k, v in sorted(o.items(), key=lambda kv: str(kv[0])))
    if isinstance(o, (list, tuple)):
        return (type(o).__name__,) + tuple(snap(x, depth + 1) for x in o)
    if isinstance(o, numpy.ndarray):
        return ('ndarray',) + tuple(float(x) for x in o.flat)
    if isinstance(o, (numpy.floating, numpy.integer)):
        return o.item()
    if isinstance(o, float) and o != o:
        return 'nan'
    if isinstance(o, (int, float, str, bool)) or o is None:
        return o
    return repr(type(o))


def numbers(r):
    out = []

    def walk(x, d=0):
        if d > 8:
            return
        if isinstance(x, (float, int, numpy.floating, numpy.integer)) and not isinstance(x, bool):
            out.append(float(x))
        elif isinstance(x, (list, tuple)):
            for e in x:
                walk(e, d + 1)
        elif isinstance(x, numpy.ndarray):
            for e in x.flat:
                walk(e, d + 1)
        elif hasattr(x, '__attrs_attrs__'):
            for a in x.__attrs_attrs__:
                if a.name in ('comments', 'mixture', 'initial_conditions', 'membrane_path'):
                    continue
                walk(getattr(x, a.name), d + 1)
    walk(r)
    return out


def make_world(rng):
    m = rng.choice(gens.builtin_mixtures()[:3] + [pv.Mixtures.H2O_EtOH])
    mem = pvtools.simple_membrane(m, 0.05, 0.002, T=333.15)
    cs = po.curve_set(m, random.Random(1), 1, rng.choice(['weight', 'molar']))
    cs.diffusion_curves[0].feed_compositions = cs.diffusion_curves[0].feed_compositions[:3]
    cs.diffusion_curves[0].partial_fluxes = cs.diffusion_curves[0].partial_fluxes[:3]
    cs.diffusion_curves[0].permeances = cs.diffusion_curves[0].permeances[:3]
    mem.diffusion_curve_sets = [cs]
    x = pv.Composition(p=rng.uniform(0.1, 0.6), type=rng.choice(['weight', 'molar']))
    cd = Conditions(membrane_area=0.05, initial_feed_temperature=rng.choice([333.15, 343.15]), initial_feed_amount=10.0, initial_feed_composition=x,
                    permeate_temperature=rng.choice([None, 280.0]))
    comps = [pv.Composition(p=0.2, type='molar'), pv.Composition(p=0.5, type='weight')]
    data = Measurements.from_diffusion_curves_first(cs)
    real = pvtools.real_curve_sets()
    hard = Measurements.from_diffusion_curves_first(rng.choice(real)[1]) if real else data
    return {'m': m, 'mem': mem, 'cs': cs, 'x': x, 'cd': cd, 'comps': comps, 'data': data, 'hard': hard}


CALLS = {
    'flux_solver': lambda w, p: p.calculate_partial_fluxes(w['cd'].initial_feed_temperature, w['x'], 5e-5, w['cd'].permeate_temperature, None),
    'permeate_composition': lambda w, p: p.calculate_permeate_composition(340.0, w['x'], 5e-5, None, 1.0, 'UNIQUAC'),
    'ideal_curve': lambda w, p: p.ideal_diffusion_curve(333.15, w['comps'], w['cd'].permeate_temperature, None),
    'non_ideal_curve': lambda w, p: p.non_ideal_diffusion_curve(w['cs'], 343.15, w['x'], 0.03, 3, None, None, None, 5e-5, 'NRTL', None, None, None, None, True),
    'ideal_isothermal': lambda w, p: p.ideal_isothermal_process(3, 0.2, w['cd']),
    'ideal_non_isothermal': lambda w, p: p.ideal_non_isothermal_process(w['cd'], 3, 0.2),
    'non_ideal_isothermal': lambda w, p: p.non_ideal_isothermal_process(w['cd'], w['cs'], 3, 0.2, include_zero=True),
    'non_ideal_non_isothermal': lambda w, p: p.non_ideal_non_isothermal_process(w['cd'], w['cs'], 3, 0.2),
    'fit_zero': lambda w, p: fit(w['data'], n=1, m=0, include_zero=True, component_index=0),
    # measured multi-temperature data and higher orders: the optimiser's own failure path (evaluation budget exhausted)
    'fit_hard': lambda w, p: fit(w['hard'], n=2, m=1, include_zero=False, component_index=0),
    'best_fit': lambda w, p: find_best_fit(w['data'], include_zero=True, component_index=0, n=1, m=0),
    'curve_metrics': lambda w, p: (w['cs'].diffusion_curves[0].get_separation_factor, w['cs'].diffusion_curves[0].get_selectivity, w['cs'].diffusion_curves[0].get_permeances),
}


def global_knobs():
    import attr, sys, decimal
    return (tuple(sorted(numpy.geterr().items())), attr.validators.get_disabled(), sys.getrecursionlimit(),
            tuple(sorted((k, repr(v)) for k, v in numpy.get_printoptions().items())), decimal.getcontext().prec)


KNOBS0 = global_knobs()      # baseline at import, before any modelling call


def builtins_hash():
    return hash(repr([snap(x) for x in gens.builtin_mixtures()] + [snap(x) for x in gens.builtin_components()]))


def restore_knobs():
    import attr
    numpy.seterr(**dict(KNOBS0[0]))
    attr.validators.set_disabled(KNOBS0[1])


def oracle(rng, tier):
    restore_knobs()          # earlier phases of this process may already have run a state-changing call
    while True:
        w = make_world(rng)
        p = pv.Pervaporation(w['mem'], w['m'])
        pristine = copy.deepcopy(w)
        pool = sorted(CALLS)
        rng.shuffle(pool)
        k = rng.randint(2, 12)
        names = (pool + [rng.choice(sorted(CALLS)) for _ in range(12)])[:k]   # without replacement first: every entry point appears often
        h0 = builtins_hash()
        prev = snap(w)
        knobs = KNOBS0
        for i, name in enumerate(names):
            ok, detail = True, ''
            try:
                r = CALLS[name](w, p)
                fw = copy.deepcopy(pristine)
                fp = pv.Pervaporation(fw['mem'], fw['m'])
                r0 = CALLS[name](fw, fp)
                a, b = numbers(r), numbers(r0)
                if len(a) != len(b) or any(not (x == y or (x != x and y != y)) for x, y in zip(a, b)):
                    bad = [k for k, (x, y) in enumerate(zip(a, b)) if not (x == y or (x != x and y != y))]
                    ok, detail = False, 'call #%d (%s) after %r differs from the same call on a fresh copy in %d value(s), e.g. %r vs %r' % (
                        i, name, names[:i], len(bad) or abs(len(a) - len(b)), a[bad[0]] if bad else None, b[bad[0]] if bad else None)
            except po.ACCEPTABLE:
                r = None
            cur = snap(w)
            if ok and cur != prev:
                changed = [k for k in w if snap(w[k]) != snap(pristine[k])]
                ok, detail = False, 'call #%d (%s) modified shared argument object(s) %r' % (i, name, changed)
            prev = cur
            if ok and global_knobs() != knobs:
                now = global_knobs()
                ok, detail = False, 'call #%d (%s) changed interpreter-wide state: %r' % (i, name, [(a, b) for a, b in zip(knobs, now) if a != b])
                restore_knobs()
            if ok and builtins_hash() != h0:
                ok, detail = False, 'call #%d (%s) modified a built-in component or mixture' % (i, name)
            yield {'kind': name, 'case': {'sequence': names[:i + 1], 'mixture': w['m'].name, 'curve_basis': pristine['cs'].diffusion_curves[0].feed_compositions[0].type,
                                          'feed': [pristine['x'].p, pristine['x'].type]}, 'ok': ok, 'detail': detail, 'nontrivial': i > 0}
            if not ok:
                break


def correspondence(tier, seed):
    import corr_numeric
    budget = {'process': 10, 'solver': 10, 'thermo': 10, 'curve': 5, 'membrane': 5, 'curvemetrics': 5, 'nicurve': 5, 'fit': 5}
    if tier == 'thorough':
        budget = {k: v * 12 for k, v in budget.items()}
    return corr_numeric.run(seed, budget, nmax=30 if tier == 'quick' else 200, tag='C20')


def replay(rep):
    return True, 're-run bin/check C20 with VERIF_SEED=%s' % rep.get('seed')
