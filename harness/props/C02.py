"""C02 — returned fluxes obey the solution-diffusion law at a self-consistent permeate."""
import math
import pyvaporation as pv
from pyvaporation.mixtures.mixture import get_partial_pressures
from common import rel_close
import gens
import pvtools

FAMILIES = ['solver', 'mixture']
BRIDGES = ['br_flux_', 'br_solve_', 'br_solver_cap', 'br_pp_']
PROPS_V = 'Props/C02.v'
EXTRA_TARGETS = ['Model/NumCheck.vo']
BUDGET = {'quick': 500, 'thorough': 12000}
ORACLE_RULE = ('built-in + synthetic mixtures x {NRTL, UNIQUAC} x {vacuum, permeate temperature 120 K..T (30% within 30 K of T), permeate '
               'pressure 0..100 kPa, pressure exactly 0} x permeances 1e-6..1 x feed fraction in (0,1) (either basis) x T 273..400 K x precision '
               '1e-8..1e-3; every case runs on ONE shared Pervaporation object and is repeated on a fresh one (history independence); '
               'non-trivial = the call returned fluxes (did not raise)')
ASSUMPTIONS = ['binary64 abstracted to reals', 'local contraction factor measured by finite differences of the public driving-force function']
LEVEL_TEXT = ('Coq theorems for all mixtures, inputs, precisions and iteration caps: driving-force law J = P (p_feed - p_perm) for both activity '
              'models and all modes; the returned fluxes are the law at an iterate y = G(y_prev) with max|y - y_prev| < precision (or at the start '
              'value when precision > 1), self-consistency under a non-expansive map, exact vacuum / zero-pressure case, pressure identity, '
              'k-scaling with identical iterates. Tie: flat bridges of the driving-force function (4 modes x 3 model strings x 3 basis combinations, '
              'positional call), bridges of the solver loop for 0-4 iterations with the driving force and partial pressures abstract (argument '
              'binding checked), unstubbed one-iteration bridges, observed iteration cap.')
LEVEL_NOTE = ('binary64 abstracted to reals; the permeate-temperature solver path is bridged compositionally (loop + driving force separately); '
              'tracer + Coq kernel trusted')
TECHNIQUE = 'Coq proof (induction on the iteration fuel, field) + symbolic-trace bridge lemmas with stubs at cut points'
DESIGN_REF = 'DESIGN.md section 6 C02'

SHARED = {}


def call(pvo, s, P1=None, P2=None):
    comp = pv.Composition(p=s['x'], type=s['basis'])
    return pvo.calculate_partial_fluxes(
        feed_temperature=s['T'], composition=comp, precision=s['prec'], permeate_temperature=s['Tp'],
        permeate_pressure=s['pp'], first_component_permeance=pv.Permeance(value=s['P1'] if P1 is None else P1),
        second_component_permeance=pv.Permeance(value=s['P2'] if P2 is None else P2), calculation_type=s['ct'])


def check_state(s, rng):
    m = s['m']
    key = id(m)
    if key not in SHARED:
        SHARED.clear()
        SHARED[key] = pvtools.Counting(pvtools.simple_membrane(m, 0.05, 0.0005), m)
    pvo = SHARED[key]
    pvo.__dict__['n_evals'] = 0
    try:
        J = call(pvo, s)
    except pvtools.EvalBudgetExceeded as e:
        return 'nontermination', False, str(e)
    except (ValueError, ZeroDivisionError, OverflowError):
        return 'raised', True, ''
    if not pvtools.finite(J[0], J[1]):
        return 'nonfinite', True, ''
    last = pvo.__dict__['last_kw']
    y_last = last['permeate_composition']
    comp = pv.Composition(p=s['x'], type=s['basis'])
    pf = get_partial_pressures(s['T'], m, comp, s['ct'])
    # fresh-object repeat: bit-identical
    fresh = pvtools.Counting(pvtools.simple_membrane(m, 0.05, 0.0005), m)
    J2 = call(fresh, s)
    if not (J2[0] == J[0] and J2[1] == J[1]):
        return 'history', False, 'shared object returned %r, fresh object %r' % (J, J2)
    P1, P2 = s['P1'], s['P2']
    scale = abs(P1 * pf[0]) + abs(P2 * pf[1])
    if s['mode'] in ('vac', 'press0'):
        if not (rel_close(J[0], P1 * pf[0], 1e-12, 1e-300) and rel_close(J[1], P2 * pf[1], 1e-12, 1e-300)):
            return 'vacuum_law', False, 'J=%r but P*pf=%r' % (J, (P1 * pf[0], P2 * pf[1]))
    elif s['mode'] == 'temp':
        ppr = get_partial_pressures(s['Tp'], m, y_last, s['ct'])
        e = (P1 * (pf[0] - ppr[0]), P2 * (pf[1] - ppr[1]))
        if not (abs(J[0] - e[0]) <= 1e-10 * scale and abs(J[1] - e[1]) <= 1e-10 * scale):
            return 'temp_law', False, 'J=%r but law at the last iterate gives %r' % (J, e)
    else:
        lhs = J[0] / P1 + J[1] / P2
        rhs = pf[0] + pf[1] - s['pp']
        if abs(lhs - rhs) > 1e-9 * (abs(pf[0]) + abs(pf[1]) + s['pp']):
            return 'pressure_identity', False, 'J1/P1+J2/P2=%r but pf1+pf2-p=%r' % (lhs, rhs)
    # self-consistency when locally contractive
    yJ = J[0] / (J[0] + J[1])
    L = 0.0 if s['mode'] in ('vac', 'press0') else math.inf
    n_evals = pvo.__dict__['n_evals']
    if s['mode'] in ('temp', 'press') and 0 < y_last.p < 1:
        def G(y):
            kw = dict(last)
            kw['permeate_composition'] = pv.Composition(p=y, type='weight')
            f = pv.pervaporation.Pervaporation.get_partial_fluxes_from_permeate_composition(pvo, **kw)
            return f[0] / (f[0] + f[1])
        h = min(1e-6, y_last.p / 2, (1 - y_last.p) / 2)
        try:
            L = abs(G(y_last.p + h) - G(y_last.p - h)) / (2 * h)
        except Exception:
            L = math.inf
        if L < 0.9 and abs(yJ - y_last.p) >= s['prec'] * 1.001 + 1e-15:
            return 'self_consistency', False, 'contraction factor %.3g but |y(J)-y_used| = %r >= precision %r' % (L, abs(yJ - y_last.p), s['prec'])
    # scaling.  Over the reals the scaled run has the same iterates (theorem); in binary64 they agree up to rounding, which a
    # contraction keeps at rounding level but an expansive map amplifies, and a flipped exit test changes the result by
    # O(precision): compared only where rounding cannot explain a difference (contraction factor < 0.9, same number of
    # driving-force evaluations)
    k = gens.loguniform(rng, 1e-3, 1e3)
    if 1e-6 <= k * P1 <= 1e3 and 1e-6 <= k * P2 <= 1e3 and L < 0.9:
        try:
            pvo.__dict__['n_evals'] = 0
            Jk = call(pvo, s, P1=k * P1, P2=k * P2)
            if pvo.__dict__['n_evals'] != n_evals:
                return s['mode'] + ':scaling_exit_test_flipped', True, ''
            if not (rel_close(Jk[0], k * J[0], 1e-9, 1e-12 * scale * k) and rel_close(Jk[1], k * J[1], 1e-9, 1e-12 * scale * k)):
                return 'scaling', False, 'k=%r: J(kP)=%r, k J(P)=%r' % (k, Jk, (k * J[0], k * J[1]))
        except (ValueError, ZeroDivisionError):
            return 'scaling', False, 'scaled call raised although the unscaled one returned'
    return s['mode'], True, ''


def oracle(rng, tier):
    prev = None
    while True:
        if prev is not None and rng.random() < 0.35:
            # twin of the previous state on the same object: other basis, same number (cache-adversarial)
            s = dict(prev)
            s['basis'] = 'molar' if prev['basis'] == 'weight' else 'weight'
        else:
            s = pvtools.random_feed_state(rng)
            if prev is not None and rng.random() < 0.5:
                s['m'] = prev['m']
        prev = s
        kind, ok, detail = check_state(s, rng)
        yield {'kind': kind, 'case': pvtools.describe_state(s), 'ok': ok, 'detail': detail, 'nontrivial': kind not in ('raised', 'nonfinite')}


def correspondence(tier, seed):
    import corr_numeric
    budget = {'solver': 40, 'thermo': 10}
    if tier == 'thorough':
        budget = {k: v * 12 for k, v in budget.items()}
    return corr_numeric.run(seed, budget, nmax=30 if tier == 'quick' else 200, tag='C02')


def replay(rep):
    import random
    return True, 'replay of C02 cases needs the mixture object; re-run bin/check C02 with the recorded seed %s' % rep.get('seed')
