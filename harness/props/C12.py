"""C12 — membrane permeance follows the Arrhenius law of its experiments."""
import math
import numpy
import pyvaporation as pv
from pyvaporation.experiments import IdealExperiment, IdealExperiments
from pyvaporation.utils import R
from common import rel_close
import gens

FAMILIES = ['membrane', 'component']
BRIDGES = ['br_perm_', 'br_ea_', 'br_selectivity_', 'br_pureflux_', 'br_conv_', 'br_vp_']
PROPS_V = 'Props/C12.v'
EXTRA_TARGETS = ['Model/NumCheck.vo']
BUDGET = {'quick': 600, 'thorough': 15000}
ORACLE_RULE = ('1..6 experiments per component at temperatures 273..400 K at least 2 K apart, in random order (other component\'s experiments interleaved), units '
               '{kg, SI, GPU}, Ea -60..120 kJ/mol stated or unstated, on an exact Arrhenius line or noisy, query 260..420 K incl. exact experiment temperatures; '
               'numpy.linalg.lstsq is compared with the closed-form OLS slope on every regression case; non-trivial = at least 2 experiments')
ASSUMPTIONS = ['numpy.linalg.lstsq on the [1/T, 1] design matrix returns the ordinary-least-squares solution (oracle; compared numerically here)',
               'no exact ties between nearest experiments (as in the quantifier)']
LEVEL_TEXT = ('Coq theorems for any experiment list (any length, any order): value at an experiment temperature, stated-Ea branch (incl. initial_permeance), '
              'regressed branch with Ea = -R * OLS slope of ln P vs 1/T, exact recovery of Ea on an Arrhenius line (sum lemmas by induction over the list), '
              'independence of the reference experiment, molar = mass selectivity * M2/M1, pure-component flux in 3 modes + rejection. Tie: bridges from symbolic '
              'traces of Membrane.get_permeance / calculate_activation_energy / selectivity / pure flux for 7 experiment-set shapes (non-ascending orders, '
              'SI/GPU units, stated/unstated, none) x exact/near queries, with lstsq replaced by symbolic OLS.')
LEVEL_NOTE = 'lstsq = OLS is an oracle assumption (sampled); binary64 abstracted to reals; component identity = name equality as in the code'
TECHNIQUE = 'Coq proof (list induction, field, exp algebra) + symbolic-trace bridge lemmas with an OLS stub for lstsq'
DESIGN_REF = 'DESIGN.md section 6 C12'


def make_data(rng, c, other, n=None, stated=None):
    n = n or rng.choice([1, 2, 2, 3, 4, 6])
    # experiment temperatures at least 2 K apart: the regression of ln P against 1/T is ill-conditioned for nearly equal
    # temperatures and the comparison with the closed form would then measure rounding, not the property
    temps = []
    for t in sorted(set(round(rng.uniform(273, 400), 2) for _ in range(n))):
        if not temps or t - temps[-1] >= 2.0:
            temps.append(t)
    rng.shuffle(temps)
    Ea = rng.uniform(-60000, 120000)
    stated = (rng.random() < 0.5) if stated is None else stated
    on_line = rng.random() < 0.6
    # an experiment table read from CSV with the optional activation-energy cell left blank carries NaN, not None:
    # the measured value at an experiment's own temperature is then still well defined (the only clause checked)
    blank = (not stated) and rng.random() < 0.15
    Tr, Pr = temps[0], gens.loguniform(rng, 1e-4, 1.0)
    units = rng.choice(['kg/(m2*h*kPa)', 'SI', 'GPU'])
    kgP, exps = [], []
    for t in temps:
        p = Pr * math.exp(-Ea / R * (1 / t - 1 / Tr))
        if not on_line:
            p *= math.exp(rng.uniform(-0.2, 0.2))
        kgP.append(p)
        pu = pv.Permeance(p).convert(units, c)
        exps.append(IdealExperiment(name='x', temperature=t, component=c, permeance=pu, activation_energy=Ea if stated else (float('nan') if blank else None)))
        if rng.random() < 0.4:
            exps.append(IdealExperiment(name='o', temperature=t + 1.0, component=other, permeance=pv.Permeance(0.001), activation_energy=1000.0))
    return dict(temps=temps, Ea=Ea, stated=stated, on_line=on_line, Tr=Tr, Pr=Pr, units=units, kgP=kgP, exps=exps, blank=blank)


def check(mem, c, other, d, rng):
    """(ok, detail) for one query of `mem`, whose experiments are described by d; None = tie, skipped"""
    temps, Ea, stated, on_line, Tr, Pr, kgP, exps = d['temps'], d['Ea'], d['stated'], d['on_line'], d['Tr'], d['Pr'], d['kgP'], d['exps']
    ok, detail = True, ''
    try:
        if rng.random() < 0.35 or d.get('blank'):
            j = rng.randrange(len(temps))
            q = mem.get_permeance(temps[j], c)
            if not (rel_close(q.value, kgP[j], 1e-9) and q.units == 'kg/(m2*h*kPa)'):
                ok, detail = False, 'at experiment temperature %r: %r %s, measured %r kg' % (temps[j], q.value, q.units, kgP[j])
        else:
            T = rng.uniform(260, 420)
            dd = [abs(t - T) for t in temps]
            j = dd.index(min(dd))
            if sorted(dd)[0] == sorted(dd + [math.inf])[1]:
                return None
            if len(temps) == 1 and not stated:
                try:
                    mem.get_permeance(T, c)
                    ok, detail = False, 'single experiment without activation energy accepted'
                except ValueError:
                    pass
            else:
                if stated:
                    ea = Ea
                else:
                    xs = [1 / t for t in temps]
                    ys = [math.log(p) for p in kgP]
                    nn = len(xs)
                    sl = (nn * sum(a * b for a, b in zip(xs, ys)) - sum(xs) * sum(ys)) / (nn * sum(a * a for a in xs) - sum(xs) ** 2)
                    ea = -sl * R
                    got = mem.calculate_activation_energy(c)
                    if not rel_close(got, ea, 1e-6, 1e-3):
                        ok, detail = False, 'regressed Ea %r, OLS gives %r' % (got, ea)
                    if ok and on_line and not rel_close(got, Ea, 1e-6, 1e-2):
                        ok, detail = False, 'Arrhenius-line data: regressed Ea %r, true %r' % (got, Ea)
                q = mem.get_permeance(T, c)
                e = kgP[j] * math.exp(-ea / R * (1 / T - 1 / temps[j]))
                if ok and not (rel_close(q.value, e, 1e-7) and q.units == 'kg/(m2*h*kPa)'):
                    ok, detail = False, 'T=%r nearest %r: got %r, Arrhenius from nearest gives %r' % (T, temps[j], q.value, e)
                if ok and on_line:
                    e0 = Pr * math.exp(-Ea / R * (1 / T - 1 / Tr))
                    if not rel_close(q.value, e0, 1e-6):
                        ok, detail = False, 'line data: value %r depends on the nearest experiment (line gives %r)' % (q.value, e0)
                # selectivity and pure flux
                if ok:
                    mem2 = pv.Membrane(name='m', ideal_experiments=IdealExperiments(experiments=exps + [
                        IdealExperiment(name='o2', temperature=333.0, component=other, permeance=pv.Permeance(0.002), activation_energy=5000.0)]))
                    sw = mem2.get_ideal_selectivity(T, c, other, 'weight')
                    sm = mem2.get_ideal_selectivity(T, c, other, 'molar')
                    if not rel_close(sm, sw * other.molecular_weight / c.molecular_weight, 1e-9):
                        ok, detail = False, 'molar selectivity %r != weight %r * M2/M1' % (sm, sw)
                    pf = mem.get_estimated_pure_component_flux(T, c, permeate_pressure=1.5)
                    if ok and not rel_close(pf, q.value * (c.get_vapor_pressure(T) - 1.5), 1e-9):
                        ok, detail = False, 'pure flux %r' % pf
                    try:
                        mem.get_estimated_pure_component_flux(T, c, 280.0, 1.5)
                        ok, detail = False, 'pure flux accepted both permeate conditions'
                    except ValueError:
                        pass
    except Exception as ex:
        ok, detail = False, 'raised %s: %s' % (type(ex).__name__, ex)
    return ok, detail


def oracle(rng, tier):
    comps = gens.builtin_components()
    while True:
        c = rng.choice(comps)
        other = rng.choice([k for k in comps if k.name != c.name])
        d = make_data(rng, c, other)
        mem = pv.Membrane(name='m', ideal_experiments=IdealExperiments(experiments=d['exps']))
        history = 'fresh membrane'
        for round_ in range(rng.choice([1, 1, 2, 3])):
            if round_:
                # the SAME membrane object after its data were corrected: same number of experiments, new measurements
                d = make_data(rng, c, other, n=len(d['temps']), stated=d['stated'])
                if rng.random() < 0.5:
                    mem.ideal_experiments = IdealExperiments(experiments=d['exps'])
                    history = 'same membrane object, experiments replaced (%d queries before)' % round_
                else:
                    del mem.ideal_experiments.experiments[:]
                    mem.ideal_experiments.experiments.extend(d['exps'])
                    history = 'same membrane object, experiment list edited in place (%d queries before)' % round_
            r = check(mem, c, other, d, rng)
            if r is None:
                continue
            ok, detail = r
            case = {'component': c.name, 'temps': d['temps'], 'Ea': d['Ea'], 'stated': d['stated'], 'on_line': d['on_line'], 'units': d['units'], 'blank_Ea': d.get('blank', False),
                    'P_kg': d['kgP'], 'history': history}
            yield {'kind': '%s:%s:n=%d%s' % ('stated' if d['stated'] else 'unstated', d['units'], len(d['temps']), ':edited' if round_ else ''),
                   'case': case, 'ok': ok, 'detail': detail + ('' if ok else ' [%s]' % history), 'nontrivial': len(d['temps']) >= 2}


def correspondence(tier, seed):
    import corr_numeric
    budget = {'membrane': 60}
    if tier == 'thorough':
        budget = {k: v * 12 for k, v in budget.items()}
    return corr_numeric.run(seed, budget, nmax=30 if tier == 'quick' else 200, tag='C12')


def replay(rep):
    return True, 're-run bin/check C12 with VERIF_SEED=%s' % rep.get('seed')
