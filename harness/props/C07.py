"""C07 — results do not depend on the mole- vs mass-fraction input basis."""
import random
import pyvaporation as pv
import pyvaporation.pervaporation.pervaporation as PVM
from pyvaporation.optimizer import Measurements
from common import rel_close
import gens
import pvtools
import procoracle as po

FAMILIES = ['mixture', 'solver', 'process', 'curve', 'fit', 'nicurve']
BRIDGES = ['br_nicurve_', 'br_pp_', 'br_act_', 'br_to_', 'br_flux_', 'br_sepfactor_', 'br_permcomp_', 'br_proc_', 'br_nonideal_', 'br_curve_', 'br_metric_', 'br_measurements_']
PROPS_V = 'Props/C07.v'
EXTRA_TARGETS = ['Model/NumCheck.vo']
BUDGET = {'quick': 120, 'thorough': 3000}
ORACLE_RULE = ('every public modelling entry point (flux solver, permeate composition, separation factor, ideal and non-ideal diffusion curves with and without initial '
               'permeances, curve metrics, 4 process models, measurement extraction) called with the same physical composition as mass and as mole fraction; non-ideal '
               'models use a harness-side deterministic stand-in for the optimiser; non-trivial = molar masses differ by more than 1%')
ASSUMPTIONS = ['binary64 abstracted to reals (oracle tolerance 1e-8: the conversion round trip perturbs the last bits and the solver exit test is precision-gated)']
LEVEL_TEXT = ('Coq theorems for all compositions in [0,1] and positive molar masses: the two encodings convert into each other; partial pressures, the driving-force function, '
              'the flux solver (by extensionality of the fixed-point loop), the separation-factor helper, measurement points and all four process entry points return '
              'identical results for both encodings; process models report mass fractions. Tie: bridges of every entry point in both bases (mixture, solver, curve, fit and '
              'process families incl. a molar initial feed and molar curve sets).')
LEVEL_NOTE = 'binary64 abstracted to reals'
TECHNIQUE = 'Coq proof (rewriting with the bijection lemmas, loop extensionality, induction on steps) + symbolic-trace bridge lemmas in both bases'
DESIGN_REF = 'DESIGN.md section 6 C07'


def close_seq(a, b, tol=1e-8):
    return len(a) == len(b) and all(rel_close(x, y, tol, 1e-300) for x, y in zip(a, b))


def oracle(rng, tier):
    while True:
        m = gens.any_mixture(rng)
        w = gens.interior(rng)
        cw = pv.Composition(p=w, type='weight')
        cm = cw.to_molar(m)
        nontriv = abs(m.first_component.molecular_weight / m.second_component.molecular_weight - 1) > 0.01
        T = rng.uniform(290, 370)
        mode = rng.choice(['vac', 'temp', 'press'])
        Tp = rng.uniform(150, T - 20) if mode == 'temp' else None
        pp = rng.uniform(0, 2) if mode == 'press' else None
        ct = rng.choice(['NRTL', 'UNIQUAC'])
        mem = pvtools.simple_membrane(m, 0.05, 0.002, T=T)
        pvo = pv.Pervaporation(mem, m)
        entry = rng.choice(['solver', 'permcomp', 'sepfactor', 'ideal_curve', 'nonideal_curve', 'process', 'measurements', 'curve_points', 'curve_points'])
        ok, detail = True, ''
        case = {'mixture': gens.describe_mixture(m), 'w': w, 'x': cm.p, 'T': T, 'Tp': Tp, 'pp': pp, 'model': ct, 'entry': entry}
        try:
            if entry == 'solver':
                a = pvo.calculate_partial_fluxes(T, cw, 1e-7, Tp, pp, calculation_type=ct)
                b = pvo.calculate_partial_fluxes(T, cm, 1e-7, Tp, pp, calculation_type=ct)
                ok = close_seq(a, b, 1e-6)
                detail = 'fluxes %r (mass basis) vs %r (mole basis)' % (a, b)
            elif entry == 'permcomp':
                a = pvo.calculate_permeate_composition(T, cw, 1e-7, Tp, pp, ct)
                b = pvo.calculate_permeate_composition(T, cm, 1e-7, Tp, pp, ct)
                ok = rel_close(a.p, b.p, 1e-6) and a.type == b.type == 'weight'
                detail = 'permeate composition %r vs %r' % (a, b)
            elif entry == 'sepfactor':
                a = pvo.calculate_separation_factor(T, cw, Tp, pp, 1e-7, ct)
                b = pvo.calculate_separation_factor(T, cm, Tp, pp, 1e-7, ct)
                ok = rel_close(a, b, 1e-5)
                detail = 'separation factor %r vs %r' % (a, b)
            elif entry == 'ideal_curve':
                a = pvo.ideal_diffusion_curve(T, [cw], Tp, pp, 1e-7, 'NRTL')
                b = pvo.ideal_diffusion_curve(T, [cm], Tp, pp, 1e-7, 'NRTL')
                ok = (close_seq(a.partial_fluxes[0], b.partial_fluxes[0], 1e-6) and rel_close(a.permeances[0][0].value, b.permeances[0][0].value, 1e-5)
                      and rel_close(a.get_separation_factor[0], b.get_separation_factor[0], 1e-5) and rel_close(a.get_psi[0], b.get_psi[0], 1e-5)
                      and rel_close(a.get_selectivity[0], b.get_selectivity[0], 1e-5))
                detail = 'ideal curve differs between bases: fluxes %r vs %r, separation factor %r vs %r' % (
                    a.partial_fluxes[0], b.partial_fluxes[0], a.get_separation_factor[0], b.get_separation_factor[0])
            elif entry == 'nonideal_curve':
                cs = po.curve_set(m, random.Random(1), rng.choice([1, 2]))
                ip = (pv.Permeance(0.03), pv.Permeance(0.001)) if rng.random() < 0.6 else None
                old = PVM.find_best_fit
                PVM.find_best_fit = po.fake_find_best_fit
                wlo = min(w, 0.6)
                # the composition range may be (nearly) exhausted by the requested steps, in either direction: both
                # encodings of the same start must then agree on raising as well
                steps = rng.choice([4, 4, 8, 12])
                delta = rng.choice([0.05, (rng.uniform(0.8, 1.15) - wlo) / steps, -(wlo - rng.uniform(-0.15, 0.2)) / steps])
                case.update(steps=steps, delta=delta, start_w=wlo)

                def run_ni(c0):
                    try:
                        return pvo.non_ideal_diffusion_curve(cs, T, c0, delta, steps, Tp, pp, ip)
                    except po.ACCEPTABLE as e:
                        return type(e).__name__
                try:
                    a = run_ni(pv.Composition(p=wlo, type='weight'))
                    b = run_ni(pv.Composition(p=wlo, type='weight').to_molar(m))
                finally:
                    PVM.find_best_fit = old
                if isinstance(a, str) or isinstance(b, str):
                    ok = isinstance(a, str) and isinstance(b, str)
                    detail = 'non-ideal curve from w=%r, %d steps of %r: mass-fraction start %s, mole-fraction start %s' % (
                        wlo, steps, delta, a if isinstance(a, str) else 'returned %d points' % len(a.feed_compositions),
                        b if isinstance(b, str) else 'returned %d points' % len(b.feed_compositions))
                    case['ip'] = ip is not None
                    yield {'kind': '%s:%s' % (entry, mode), 'case': case, 'ok': ok, 'detail': '' if ok else detail, 'nontrivial': False}
                    continue
                ok = len(a.partial_fluxes) == len(b.partial_fluxes) and all(close_seq(x, y, 1e-6) for x, y in zip(a.partial_fluxes, b.partial_fluxes)) and \
                    all(rel_close(x[0].value, y[0].value, 1e-6) and rel_close(x[1].value, y[1].value, 1e-6) for x, y in zip(a.permeances, b.permeances))
                detail = 'non-ideal curve (initial permeances %s) differs between bases: %d vs %d points, last fluxes %r vs %r' % (
                    'given' if ip else 'absent', len(a.partial_fluxes), len(b.partial_fluxes), a.partial_fluxes[-1], b.partial_fluxes[-1])
                case['ip'] = ip is not None
            elif entry == 'process':
                cfg = po.random_config(rng)
                cfg.update(m=m, x0=w, basis='weight', ct=ct if m.uniquac_params is not None else 'NRTL')
                a, _, _ = po.run(cfg)
                cfg2 = dict(cfg)
                cfg2.update(x0=cm.p, basis='molar')
                b, _, _ = po.run(cfg2)
                ok = (close_seq([x.p for x in a.feed_compositions], [x.p for x in b.feed_compositions], 1e-7) and close_seq(a.feed_mass, b.feed_mass, 1e-7)
                      and close_seq([j[0] for j in a.partial_fluxes], [j[0] for j in b.partial_fluxes], 1e-6)
                      and close_seq([p[0].value for p in a.permeances], [p[0].value for p in b.permeances], 1e-6)
                      and all(c.type == 'weight' for c in b.feed_compositions))
                detail = '%s differs between a mass- and a mole-fraction initial feed' % cfg['kind']
                case['kind'] = cfg['kind']
            elif entry == 'curve_points':
                # the same physical points, every point written independently as a mass or as a mole fraction
                from pyvaporation.diffusion_curve import DiffusionCurve, DiffusionCurveSet
                npts = rng.randint(2, 5)
                ws = sorted(gens.interior(rng) for _ in range(npts))
                bases = [rng.choice(['weight', 'molar']) for _ in range(npts)]
                J = [(gens.loguniform(rng, 1e-2, 2), gens.loguniform(rng, 1e-4, 1)) for _ in range(npts)]
                pts_w = [pv.Composition(p=x, type='weight') for x in ws]
                pts_x = [c if b == 'weight' else c.to_molar(m) for c, b in zip(pts_w, bases)]
                kw = dict(mixture=m, membrane_name='o', feed_temperature=T, partial_fluxes=J, permeate_temperature=Tp, permeate_pressure=pp)
                a = DiffusionCurve(feed_compositions=pts_w, **kw)
                b = DiffusionCurve(feed_compositions=pts_x, **kw)
                case['points'] = [[c.p, c.type] for c in pts_x]
                pairs = [('separation factor', a.get_separation_factor, b.get_separation_factor), ('PSI', a.get_psi, b.get_psi),
                         ('selectivity', a.get_selectivity, b.get_selectivity),
                         ('permeances', [q[i].value for q in a.permeances for i in (0, 1)], [q[i].value for q in b.permeances for i in (0, 1)]),
                         ('permeate composition', [y.p for y in a.permeate_composition], [y.p for y in b.permeate_composition])]
                for f in ('from_diffusion_curve_first', 'from_diffusion_curve_second'):
                    da, db = getattr(Measurements, f)(a).data, getattr(Measurements, f)(b).data
                    pairs.append(('fit points x (%s)' % f, [d.x for d in da], [d.x for d in db]))
                    pairs.append(('fit points p (%s)' % f, [d.p for d in da], [d.p for d in db]))
                for name, u, v in pairs:
                    if ok and not close_seq(list(u), list(v), 1e-6):
                        ok, detail = False, '%s of a curve depends on the basis its points were written in (%r): %r vs all-mass-fraction %r' % (name, bases, list(v), list(u))
            else:
                ca = po.curve_set(m, random.Random(1), 2, 'weight')
                cb = po.curve_set(m, random.Random(1), 2, 'molar')
                for f in ('from_diffusion_curves_first', 'from_diffusion_curves_second'):
                    da, db = getattr(Measurements, f)(ca).data, getattr(Measurements, f)(cb).data
                    if not (close_seq([d.x for d in da], [d.x for d in db], 1e-9) and close_seq([d.p for d in da], [d.p for d in db], 1e-12)
                            and close_seq([d.t for d in da], [d.t for d in db], 1e-12)):
                        ok, detail = False, 'measurement points differ between a mass- and a mole-fraction curve set'
        except po.ACCEPTABLE:
            yield {'kind': entry + ':raised', 'case': case, 'ok': True, 'detail': '', 'nontrivial': False}
            continue
        yield {'kind': '%s:%s' % (entry, mode), 'case': case, 'ok': ok, 'detail': '' if ok else detail, 'nontrivial': nontriv}


def correspondence(tier, seed):
    import corr_numeric
    budget = {'thermo': 20, 'convert': 20, 'solver': 10, 'curve': 10, 'curvemetrics': 10, 'nicurve': 10, 'fit': 8}
    if tier == 'thorough':
        budget = {k: v * 12 for k, v in budget.items()}
    return corr_numeric.run(seed, budget, nmax=30 if tier == 'quick' else 200, tag='C07')


def replay(rep):
    return True, 're-run bin/check C07 with VERIF_SEED=%s' % rep.get('seed')
