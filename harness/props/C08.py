"""C08 — all entry points answer the same question identically (incl. the activity model)."""
import pyvaporation as pv
from common import rel_close
import gens
import pvtools
import procoracle as po

FAMILIES = ['solver', 'process', 'curve', 'membrane']
BRIDGES = ['br_flux_', 'br_permcomp_', 'br_sepfactor_', 'br_idealcurve_', 'br_proc_', 'br_nonideal_', 'br_metric_', 'br_pm_', 'br_perm_', 'br_solve_it1_membrane']
PROPS_V = 'Props/C08.v'
EXTRA_TARGETS = ['Model/NumCheck.vo']
BUDGET = {'quick': 120, 'thorough': 3000}
ORACLE_RULE = ('random membranes (experiments in kg, SI or GPU; feed temperature equal to or off the experiment temperature) x mixtures x {NRTL, UNIQUAC} x 3 '
               'permeate modes x feed states: standalone flux calculation vs permeate-composition helper vs separation-factor helper vs one-point ideal curve vs '
               'step 0 and every later step of every process kind; non-trivial = UNIQUAC or non-kg units or a non-vacuum mode')
ASSUMPTIONS = ['binary64 abstracted to reals (the same deterministic solver is reached by every entry point: tolerance 1e-10 relative)']
LEVEL_TEXT = ('In the model every entry point reaches the flux calculation through one function applied to one argument record; Coq theorems: helpers = composition / '
              'separation factor of that call (mass-fraction basis), every process step\'s fluxes = that call at the reported state with the reported permeances and the '
              'run\'s permeate condition, precision and activity model, y = J1/(J1+J2). The content of the property is carried by the bridge lemmas: the tracer binds the '
              'arguments of every call of calculate_partial_fluxes made by the helpers, ideal_diffusion_curve and the four process loops with inspect.signature and '
              'reifies what arrived in each parameter (a string in a Permeance slot fails closed), so the selected activity model, permeances and permeate condition '
              'are proved to be the ones the caller supplied.')
LEVEL_NOTE = 'binary64 abstracted to reals; argument binding observed by the tracer (trusted); membrane unit handling bridged in the membrane family'
TECHNIQUE = 'symbolic-trace bridge lemmas with bound-argument reification + Coq proof by induction on steps'
DESIGN_REF = 'DESIGN.md section 6 C08'


def oracle(rng, tier):
    while True:
        cfg = po.random_config(rng, kinds=['ideal_iso', 'ideal_noniso'])
        cfg['n'] = rng.choice([1, 2, 4])
        m = cfg['m']
        mem, cd = po.build(cfg)
        pvo = pv.Pervaporation(mem, m)
        x = pv.Composition(p=cfg['x0'], type=cfg['basis'])
        T, Tp, pp, ct, prec = cfg['T0'], cfg['Tp'], cfg['pp'], cfg['ct'], cfg['prec']
        ok, detail = True, ''
        try:
            cnt = pvtools.Counting(mem, m)
            std = cnt.calculate_partial_fluxes(T, x, prec, Tp, pp, calculation_type=ct)
            if Tp is not None:
                # the selected model must be used on BOTH sides of the membrane
                from pyvaporation.mixtures.mixture import get_partial_pressures
                last = cnt.__dict__['last_kw']
                pf = get_partial_pressures(T, m, x, ct)
                pq = get_partial_pressures(Tp, m, last['permeate_composition'], ct)
                e = (last['first_component_permeance'].value * (pf[0] - pq[0]), last['second_component_permeance'].value * (pf[1] - pq[1]))
                if not (rel_close(std[0], e[0], 1e-9, 1e-12) and rel_close(std[1], e[1], 1e-9, 1e-12)):
                    ok, detail = False, 'fluxes %r differ from permeance x (feed - permeate partial pressure) with the %s model on both sides: %r' % (std, ct, e)
            yc = pvo.calculate_permeate_composition(T, x, prec, Tp, pp, ct)
            ystd = std[0] / (std[0] + std[1])
            if not rel_close(yc.p, ystd, 1e-10):
                ok, detail = False, 'permeate-composition helper %r, standalone fluxes give %r (%s)' % (yc.p, ystd, ct)
            sf = pvo.calculate_separation_factor(T, x, Tp, pp, prec, ct)
            xw = x.to_weight(m).p
            e = ((1 - xw) / xw) / ((1 - ystd) / ystd)
            if ok and not rel_close(sf, e, 1e-9):
                ok, detail = False, 'separation-factor helper %r, (x2/x1)/(y2/y1) in mass fractions from the standalone fluxes %r' % (sf, e)
            curve = pvo.ideal_diffusion_curve(T, [x], Tp, pp, prec, ct)
            cj = curve.partial_fluxes[0]
            if ok and not (rel_close(cj[0], std[0], 1e-10) and rel_close(cj[1], std[1], 1e-10)):
                ok, detail = False, 'one-point ideal curve fluxes %r, standalone %r (%s)' % (cj, std, ct)
            if ok and not rel_close(curve.permeate_composition[0].p, ystd, 1e-10):
                ok, detail = False, 'curve permeate composition differs'
            pm, _, _ = po.run(cfg, pvo=pvo)
            for k in range(cfg['n']):
                Pk = pm.permeances[k]
                one = pvo.calculate_partial_fluxes(pm.feed_temperature[k], pm.feed_compositions[k], prec, Tp, pp, Pk[0].convert('kg/(m2*h*kPa)', m.first_component),
                                                   Pk[1].convert('kg/(m2*h*kPa)', m.second_component), ct)
                J = pm.partial_fluxes[k]
                if ok and not (rel_close(J[0], one[0], 1e-10) and rel_close(J[1], one[1], 1e-10)):
                    ok, detail = False, '%s step %d fluxes %r, standalone calculation at the reported state %r' % (cfg['kind'], k, J, one)
                # ideal models resolve the permeances from the membrane: the standalone calculation that does the same at the
                # reported temperature (nearest experiment of a measured series included) must give the same fluxes
                two = pvo.calculate_partial_fluxes(pm.feed_temperature[k], pm.feed_compositions[k], prec, Tp, pp, calculation_type=ct)
                if ok and not (rel_close(J[0], two[0], 1e-9) and rel_close(J[1], two[1], 1e-9)):
                    ok, detail = False, '%s step %d (T=%r) fluxes %r, standalone calculation with the membrane\'s own permeances at that temperature %r' % (
                        cfg['kind'], k, pm.feed_temperature[k], J, two)
                if ok and not rel_close(pm.permeate_composition[k].p, J[0] / (J[0] + J[1]), 1e-12):
                    ok, detail = False, 'step %d permeate composition' % k
                if ok and k == 0 and not (rel_close(J[0], std[0], 1e-10) and rel_close(J[1], std[1], 1e-10)):
                    ok, detail = False, '%s step 0 fluxes %r, standalone (membrane permeances) %r' % (cfg['kind'], J, std)
            sfs = pm.get_separation_factor
            for k in range(cfg['n']):
                yk, xk = pm.permeate_composition[k].p, pm.feed_compositions[k].p
                if ok and not rel_close(sfs[k], (yk / (1 - yk)) / (xk / (1 - xk)), 1e-10):
                    ok, detail = False, 'process separation factor at step %d' % k
        except po.ACCEPTABLE:
            yield {'kind': 'raised', 'case': po.describe(cfg), 'ok': True, 'detail': '', 'nontrivial': False}
            continue
        yield {'kind': '%s:%s:%s:%s' % (cfg['kind'], cfg['mode'], ct, cfg['units']), 'case': po.describe(cfg), 'ok': ok, 'detail': detail,
               'nontrivial': ct == 'UNIQUAC' or cfg['units'] != 'kg/(m2*h*kPa)' or cfg['mode'] != 'vac'}


def correspondence(tier, seed):
    import corr_numeric
    budget = {'process': 16, 'solver': 16, 'membrane': 10, 'curvemetrics': 8}
    if tier == 'thorough':
        budget = {k: v * 12 for k, v in budget.items()}
    return corr_numeric.run(seed, budget, nmax=30 if tier == 'quick' else 200, tag='C08')


def replay(rep):
    return True, 're-run bin/check C08 with VERIF_SEED=%s' % rep.get('seed')
