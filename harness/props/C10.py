"""C10 — the flux calculation always terminates."""
import time
import pyvaporation as pv
import gens
import pvtools

FAMILIES = ['solver']
BRIDGES = ['br_solve_', 'br_solver_cap']
PROPS_V = 'Props/C10.v'
EXTRA_TARGETS = ['Model/NumCheck.vo']
BUDGET = {'quick': 400, 'thorough': 20000}
CAP = 10001
ORACLE_RULE = ('the stored non-convergent witnesses (attracting 2-cycles / 4-cycles) first, then random feed states with 50% of the permeate '
               'temperatures within 0.01..10 K of the feed temperature (near-equilibrium stream); driving-force evaluations counted by a harness-side '
               'subclass; non-trivial = more than 3 evaluations')
ASSUMPTIONS = ['real-number iteration; float-only cycles (inf/-0.0 after overflow) are covered by the counted runs only']
LEVEL_TEXT = ('Coq: the solver loop is a structurally recursive function of an explicit iteration fuel; theorem: at most `fuel` driving-force evaluations '
              'for every map, input and precision, the cap is 10000, a returned value always satisfies the exit test (never a silent fuel exhaustion), the '
              'calculation is total (returns or raises). Tie: solver-loop bridges for 0-4 iterations (every data-dependent test of the loop must be '
              'consumed by the model), and the cap observed by running the real loop against a never-converging stub.')
LEVEL_NOTE = 'partial: the theorem is about the real-number iteration and the loop bookkeeping; the termination of numpy/libm calls is assumed'
TECHNIQUE = 'Coq proof (structural recursion on fuel, induction) + symbolic-trace bridge of the loop + observed cap'
DESIGN_REF = 'DESIGN.md section 6 C10'

WITNESSES = [
    dict(mix='MeOH_Toluene', ct='NRTL', T=320.54, Tp=317.29, x=0.505, P1=3.35e-4, P2=1.75e-5, prec=1.2e-7),
    dict(mix='H2O_iPOH', ct='NRTL', T=304.16, Tp=299.38, x=0.833, P1=0.05, P2=0.0723, prec=5e-5),
]


def run(m, ct, T, Tp, pp, x, basis, P1, P2, prec):
    pvo = pvtools.Counting(pvtools.simple_membrane(m, 0.05, 0.0005), m)
    pvo.__dict__['n_evals'] = 0
    t0 = time.time()
    out = 'returned'
    try:
        pvo.calculate_partial_fluxes(T, pv.Composition(p=x, type=basis), prec, Tp, pp, pv.Permeance(P1), pv.Permeance(P2), ct)
    except pvtools.EvalBudgetExceeded:
        out = 'STILL ITERATING after %d evaluations (stopped by the harness)' % pvo.__dict__['n_evals']
    except Exception as e:
        out = type(e).__name__
    return pvo.__dict__['n_evals'], out, time.time() - t0


def oracle(rng, tier):
    for w in WITNESSES:
        n, out, dt = run(getattr(pv.Mixtures, w['mix']), w['ct'], w['T'], w['Tp'], None, w['x'], 'weight', w['P1'], w['P2'], w['prec'])
        yield {'kind': 'witness', 'case': w, 'ok': n <= CAP, 'detail': '%d evaluations, outcome %s' % (n, out), 'nontrivial': n > 3}
    while True:
        s = pvtools.random_feed_state(rng)
        if rng.random() < 0.5:
            s['mode'], s['pp'] = 'temp', None
            s['Tp'] = s['T'] - gens.loguniform(rng, 0.01, 10)
        n, out, dt = run(s['m'], s['ct'], s['T'], s['Tp'], s['pp'], s['x'], s['basis'], s['P1'], s['P2'], s['prec'])
        yield {'kind': 'near_equilibrium' if s['mode'] == 'temp' else s['mode'], 'case': pvtools.describe_state(s), 'ok': n <= CAP,
               'detail': '%d evaluations, outcome %s' % (n, out), 'nontrivial': n > 3}


def correspondence(tier, seed):
    import corr_numeric
    budget = {'solver': 40}
    if tier == 'thorough':
        budget = {k: v * 12 for k, v in budget.items()}
    return corr_numeric.run(seed, budget, nmax=30 if tier == 'quick' else 200, tag='C10')


def replay(rep):
    c = rep['failure']['case']
    if 'mix' in c:
        n, out, dt = run(getattr(pv.Mixtures, c['mix']), c['ct'], c['T'], c['Tp'], None, c['x'], 'weight', c['P1'], c['P2'], c['prec'])
        return n <= CAP, '%d evaluations (%s)' % (n, out)
    return True, 're-run bin/check C10 with the recorded seed'
