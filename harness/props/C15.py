"""C15 — mole/mass conversion is a consistent bijection."""
import pyvaporation as pv
from common import rel_close
import gens

FAMILIES = ['mixture']
BRIDGES = ['br_mk_comp_', 'br_to_molar_', 'br_to_weight_']
PROPS_V = 'Props/C15.v'
EXTRA_TARGETS = ['Model/NumCheck.vo']
BUDGET = {'quick': 1500, 'thorough': 40000}
ORACLE_RULE = ('random fractions in [0,1] (70% interior, 20% within 1e-12..1e-3 of an end, 10% exactly an end) x built-in '
               'and synthetic molar masses (ratio up to 1e3); a case is non-trivial when the two molar masses differ')
ASSUMPTIONS = ['IEEE rounding abstracted: the round trip is exact over the reals; the oracle allows 1e-9 relative + 1e-15 absolute']


def oracle(rng, tier):
    mixes = gens.builtin_mixtures()
    pool = []          # composition objects are re-used across mixtures: conversion must not depend on an object's past
    while True:
        if rng.random() < 0.4:
            m = rng.choice(mixes)
        else:
            m = gens.random_mixture(rng)
            if rng.random() < 0.3:
                m.first_component.molecular_weight = gens.loguniform(rng, 1, 30)
                m.second_component.molecular_weight = m.first_component.molecular_weight * gens.loguniform(rng, 1e-3, 1e3)
        if pool and rng.random() < 0.5:
            x, w_shared, mo_shared = rng.choice(pool)
            shared = True
        else:
            x = gens.fraction(rng)
            try:
                w_shared, mo_shared = pv.Composition(p=x, type='weight'), pv.Composition(p=x, type='molar')
            except ValueError:
                yield {'kind': 'roundtrip', 'case': {'x': x}, 'ok': False, 'detail': 'a value in [0,1] was rejected'}
                continue
            pool.append((x, w_shared, mo_shared))
            del pool[:-20]
            shared = False
        case = {'M1': m.first_component.molecular_weight, 'M2': m.second_component.molecular_weight, 'x': x, 'object_converted_before': shared}
        nontriv = case['M1'] != case['M2']
        ok, detail = True, ''
        try:
            w = w_shared
            mol = w.to_molar(m)
            back = mol.to_weight(m)
            if not (mol.type == 'molar' and back.type == 'weight'):
                ok, detail = False, 'wrong type tags %s %s' % (mol.type, back.type)
            elif not rel_close(back.p, x, 1e-9, 1e-15):
                ok, detail = False, 'weight->molar->weight %r -> %r -> %r' % (x, mol.p, back.p)
            mo = mo_shared
            ww = mo.to_weight(m)
            back2 = ww.to_molar(m)
            if ok and not rel_close(back2.p, x, 1e-9, 1e-15):
                ok, detail = False, 'molar->weight->molar %r -> %r -> %r' % (x, ww.p, back2.p)
            if ok and not rel_close(mol.first + mol.second, 1.0, 1e-12):
                ok, detail = False, 'first+second != 1'
            if ok and x in (0.0, 1.0) and not (mol.p == x and ww.p == x):
                ok, detail = False, 'end point not fixed: %r %r' % (mol.p, ww.p)
            if ok and 1e-3 < x < 1 - 1e-3:
                lhs = mol.first / mol.second
                rhs = (x / (1 - x)) * case['M2'] / case['M1']
                if not rel_close(lhs, rhs, 1e-9):
                    ok, detail = False, 'mole ratio %r != mass ratio*M2/M1 %r' % (lhs, rhs)
            # monotone
            y = gens.fraction(rng)
            if ok and abs(y - x) > 1e-9:
                a, b = sorted([x, y])
                fa = pv.Composition(p=a, type='weight').to_molar(m).p
                fb = pv.Composition(p=b, type='weight').to_molar(m).p
                ga = pv.Composition(p=a, type='molar').to_weight(m).p
                gb = pv.Composition(p=b, type='molar').to_weight(m).p
                if not (fa < fb and ga < gb):
                    ok, detail = False, 'not strictly increasing between %r and %r' % (a, b)
            # rejection outside [0,1]
            bad = rng.choice([-gens.loguniform(rng, 1e-12, 10), 1 + gens.loguniform(rng, 1e-12, 10)])
            try:
                pv.Composition(p=bad, type=rng.choice(['weight', 'molar']))
                if ok:
                    ok, detail = False, 'Composition(p=%r) accepted' % bad
            except ValueError:
                pass
        except Exception as e:  # conversion must not raise on [0,1]
            ok, detail = False, 'raised %s: %s' % (type(e).__name__, e)
        yield {'kind': 'builtin' if m.name in gens.BUILTIN_MIXTURES else 'synthetic', 'case': case, 'ok': ok,
               'detail': detail, 'nontrivial': nontriv}


def correspondence(tier, seed):
    import corr_numeric
    budget = {'convert': 60}
    if tier == 'thorough':
        budget = {k: v * 12 for k, v in budget.items()}
    return corr_numeric.run(seed, budget, nmax=30 if tier == 'quick' else 200, tag='C15')


def replay(rep):
    f = rep['failure']
    c = f['case']
    m = gens.random_mixture(__import__('random').Random(0))
    m.first_component.molecular_weight = c['M1']
    m.second_component.molecular_weight = c['M2']
    x = c['x']
    w = pv.Composition(p=x, type='weight').to_molar(m).to_weight(m)
    mo = pv.Composition(p=x, type='molar').to_weight(m).to_molar(m)
    ok = rel_close(w.p, x, 1e-9, 1e-15) and rel_close(mo.p, x, 1e-9, 1e-15)
    return ok, 'round trip of %r gives %r / %r' % (x, w.p, mo.p)

LEVEL_TEXT = ('Coq theorems over the reals for all fractions in [0,1] and all positive molar masses (round trips, fixed end points, '
              'strict monotonicity, ratio law, validator accepts exactly [0,1]); the model is tied to mixture.py on every run by '
              'bridge lemmas generated from symbolic traces of the real Composition methods (all 4 type combinations, 5 validator paths).')
LEVEL_NOTE = ('binary64 rounding abstracted to real arithmetic; tracer + Coq kernel trusted; composition type strings other than '
              '"molar"/"weight" are outside the model')
TECHNIQUE = 'Coq proof (field/nra over R) + symbolic-trace bridge lemmas by conversion'
DESIGN_REF = 'DESIGN.md section 6 C15'
