"""C03 — heat balance: evaporation heat, self-cooling and temperature programme are exact."""
import math
import pyvaporation as pv
from common import rel_close
import procoracle as po

FAMILIES = ['process', 'component']
BRIDGES = ['br_proc_', 'br_nonideal_', 'br_hvap_', 'br_cp', 'br_cool']
LINT = True          # loop-shape lint of the four step loops (tracer/looplint.py)
PROPS_V = 'Props/C03.v'
EXTRA_TARGETS = ['Model/NumCheck.vo']
BUDGET = {'quick': 150, 'thorough': 4000}
ORACLE_RULE = ('random runs of the 4 process kinds x permeate modes x mixtures x {self-cooling, polynomial/exponential/logarithmic programme}; heats and '
               'temperatures recomputed from the public Component methods; isothermal/non-isothermal twins compared at step 0')
ASSUMPTIONS = ['binary64 abstracted to reals (oracle tolerance 1e-9 relative)']
LEVEL_TEXT = ('Coq theorems for every step of every run of the shared loop: Q[i] = sum over both components of (vaporisation_heat_c(T[i]) / M_c * 1000) * J_c A dt; '
              'condensation heat reported iff a permeate temperature is given and equal to the modelled formula; next temperature = T - Q/(m * mass-weighted cp) '
              '(self-cooling), programme(dt*i + dt) (programme), constant (isothermal); isothermal and non-isothermal steps from the same state agree on '
              'fluxes and heats. Tie: loop bridges (n = 1,2,(3)) incl. the three programme kinds and coefficient lists of length 0-3, and flat bridges of the Component heat methods.')
LEVEL_NOTE = 'binary64 abstracted to reals; tracer + kernel trusted; general n by model induction + bridges n<=3 + sampled runs'
TECHNIQUE = 'Coq proof (induction on steps) + symbolic-trace bridge lemmas'
DESIGN_REF = 'DESIGN.md section 6 C03'


def latent(c, T):
    return c.get_vaporisation_heat(T) / c.molecular_weight * 1000


def check(pm, cfg, cd):
    m, n, A, dt = cfg['m'], cfg['n'], cfg['A'], cfg['dt']
    c1, c2 = m.first_component, m.second_component
    iso = cfg['kind'].endswith('_iso')
    for k in range(n):
        T = pm.feed_temperature[k]
        J = pm.partial_fluxes[k]
        d1, d2 = J[0] * A * dt, J[1] * A * dt
        Q = latent(c1, T) * d1 + latent(c2, T) * d2
        if not rel_close(pm.feed_evaporation_heat[k], Q, 1e-9, 1e-12):
            return False, 'step %d: evaporation heat %r, formula %r' % (k, pm.feed_evaporation_heat[k], Q)
        qc = pm.permeate_condensation_heat[k]
        if (qc is None) != (cfg['Tp'] is None):
            return False, 'step %d: condensation heat %r with permeate temperature %r' % (k, qc, cfg['Tp'])
        if iso and T != cfg['T0']:
            return False, 'isothermal model changed the temperature at step %d' % k
        if k + 1 < n and not iso:
            Tn = pm.feed_temperature[k + 1]
            if cfg['prog'] is None:
                x = pm.feed_compositions[k].p
                cpm = x * c1.get_specific_heat(T) / c1.molecular_weight + (1 - x) * c2.get_specific_heat(T) / c2.molecular_weight
                e = T - pm.feed_evaporation_heat[k] / (cpm * pm.feed_mass[k])
            else:
                e = cfg['prog'].program(dt * k + dt)
            if not rel_close(Tn, e, 1e-9):
                return False, 'step %d: next temperature %r, expected %r' % (k, Tn, e)
    return True, ''


def oracle(rng, tier):
    while True:
        cfg = po.random_config(rng)
        try:
            pm, pvo, cd = po.run(cfg)
        except po.ACCEPTABLE:
            yield {'kind': cfg['kind'] + ':raised', 'case': po.describe(cfg), 'ok': True, 'detail': '', 'nontrivial': False}
            continue
        ok, detail = check(pm, cfg, cd)
        if ok and not rel_close(pm.feed_temperature[0], cfg['T0'], 1e-15):
            ok, detail = False, 'step 0 reports feed temperature %r, the stated initial feed temperature is %r' % (pm.feed_temperature[0], cfg['T0'])
        if ok:
            # twin of the other thermal kind from the same conditions (a temperature programme does not act before step 1): identical step 0
            twin = dict(cfg)
            twin['kind'] = cfg['kind'].replace('_iso', '_X').replace('_noniso', '_iso').replace('_X', '_noniso')
            try:
                pm2, _, _ = po.run(twin)
                a = (pm.partial_fluxes[0], pm.feed_evaporation_heat[0], pm.permeate_condensation_heat[0])
                b = (pm2.partial_fluxes[0], pm2.feed_evaporation_heat[0], pm2.permeate_condensation_heat[0])
                same = (rel_close(a[0][0], b[0][0], 1e-12) and rel_close(a[0][1], b[0][1], 1e-12) and rel_close(a[1], b[1], 1e-12)
                        and ((a[2] is None and b[2] is None) or (a[2] is not None and b[2] is not None and rel_close(a[2], b[2], 1e-12))))
                if not same:
                    ok, detail = False, 'step 0 of %s and %s differ: %r vs %r' % (cfg['kind'], twin['kind'], a, b)
            except po.ACCEPTABLE:
                pass
        yield {'kind': '%s:%s:%s' % (cfg['kind'], cfg['mode'], 'prog' if cfg['prog'] else 'selfcool'), 'case': po.describe(cfg),
               'ok': ok, 'detail': detail, 'nontrivial': cfg['n'] >= 2}


def correspondence(tier, seed):
    import corr_numeric
    budget = {'process': 24, 'component': 10}
    if tier == 'thorough':
        budget = {k: v * 12 for k, v in budget.items()}
    return corr_numeric.run(seed, budget, nmax=30 if tier == 'quick' else 200, tag='C03')


def replay(rep):
    return True, 're-run bin/check C03 with VERIF_SEED=%s' % rep.get('seed')
