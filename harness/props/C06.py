"""C06 — results do not depend on which component is called first."""
import pyvaporation as pv
from pyvaporation.conditions import Conditions
from pyvaporation.experiments import IdealExperiment, IdealExperiments
from pyvaporation.mixtures.mixture import calculate_activity_coefficients, get_partial_pressures
from common import rel_close
import gens
import pvtools
import procoracle as po

FAMILIES = ['mixture', 'solver', 'process', 'curve']
BRIDGES = ['br_act_', 'br_pp_', 'br_to_', 'br_flux_', 'br_solve_', 'br_proc_', 'br_curve_', 'br_metric_', 'br_pm_', 'br_sepfactor_']
PROPS_V = 'Props/C06.v'
EXTRA_TARGETS = ['Model/NumCheck.vo']
BUDGET = {'quick': 250, 'thorough': 6000}
ORACLE_RULE = ('built-in and synthetic mixtures and their relabelled twins (parameters, composition p -> 1-p, permeances, experiments exchanged) x both activity models x all '
               'permeate modes: activity coefficients, partial pressures, fluxes, one-point ideal curves incl. separation factor / selectivity, ideal isothermal and '
               'non-isothermal processes; stored witness of finding F1 first; non-trivial = all')
ASSUMPTIONS = ['binary64 abstracted to reals (oracle tolerance 1e-8)']
LEVEL_TEXT = ('Coq theorems for all parameter values: NRTL coefficients (one or two alphas) and the corrected UNIQUAC coefficients of the relabelled mixture are the exchanged pair; '
              'activity and partial-pressure functions in either basis commute with the relabelling; the composition of exchanged fluxes is the exchanged composition, the solver '
              'distance is symmetric and the fixed-point loop commutes with the relabelling for mirror-image driving forces; both ideal process loops commute with the relabelling (simulation by induction over the steps: same time, mass, temperature, heats; exchanged compositions, fluxes, permeances); separation factors invert. The formula as written '
              'for UNIQUAC gamma_2 is not symmetric (known finding F1, exact Delta in C04). Tie: the bridges of the paired per-component expressions (mixture, solver, process, curve families).')
LEVEL_NOTE = 'known finding F1 reported for UNIQUAC (the symmetry theorems cover NRTL and the corrected UNIQUAC variant); binary64 abstracted to reals'
TECHNIQUE = 'Coq proof (rewriting 1-(1-x), commutativity, induction on fuel) + symbolic-trace bridge lemmas + relabelled-twin search'
DESIGN_REF = 'DESIGN.md section 6 C06'


def swapped_membrane(m, sm, P1, P2, T, E1, E2, units='kg/(m2*h*kPa)'):
    return pv.Membrane(name='o', ideal_experiments=IdealExperiments(experiments=[
        IdealExperiment(name='a', temperature=T, component=sm.first_component, permeance=pv.Permeance(P2, units), activation_energy=E2),
        IdealExperiment(name='b', temperature=T, component=sm.second_component, permeance=pv.Permeance(P1, units), activation_energy=E1)]))


def oracle(rng, tier):
    m = pv.Mixtures.H2O_EtOH
    sm = gens.swap_mixture(m)
    g = calculate_activity_coefficients(330.0, m, pv.Composition(p=0.5, type='molar'), 'UNIQUAC')
    gs = calculate_activity_coefficients(330.0, sm, pv.Composition(p=0.5, type='molar'), 'UNIQUAC')
    yield {'kind': 'uniquac_swap_asymmetry', 'case': {'witness': 'F1', 'mixture': 'H2O_EtOH', 'T': 330.0, 'x': 0.5},
           'ok': rel_close(g[0], gs[1], 1e-9) and rel_close(g[1], gs[0], 1e-9), 'detail': 'gamma %r, relabelled twin %r' % (g, gs)}
    while True:
        m = gens.any_mixture(rng)
        sm = gens.swap_mixture(m)
        ct = rng.choice(['NRTL', 'UNIQUAC'])
        T = rng.uniform(290, 370)
        x = gens.interior(rng)
        basis = rng.choice(['weight', 'molar'])
        c = pv.Composition(p=x, type=basis)
        if basis == 'weight':
            sc = pv.Composition(p=1 - x, type='weight')
        else:
            sc = pv.Composition(p=1 - x, type='molar')
        what = rng.choice(['activity', 'pp', 'flux', 'curve', 'process'])
        mode = rng.choice(['vac', 'temp', 'press'])
        Tp = rng.uniform(150, T - 20) if mode == 'temp' else None
        pp = rng.uniform(0, 2) if mode == 'press' else None
        case = {'mixture': gens.describe_mixture(m), 'model': ct, 'T': T, 'x': x, 'basis': basis, 'what': what, 'mode': mode}
        kindp = 'uniquac_swap_asymmetry' if ct == 'UNIQUAC' else 'nrtl_' + what
        ok, detail = True, ''
        try:
            if what == 'activity':
                a, b = calculate_activity_coefficients(T, m, c, ct), calculate_activity_coefficients(T, sm, sc, ct)
                ok = rel_close(a[0], b[1], 1e-8) and rel_close(a[1], b[0], 1e-8)
                detail = 'activity %r, twin %r' % (a, b)
            elif what == 'pp':
                a, b = get_partial_pressures(T, m, c, ct), get_partial_pressures(T, sm, sc, ct)
                ok = rel_close(a[0], b[1], 1e-8) and rel_close(a[1], b[0], 1e-8)
                detail = 'partial pressures %r, twin %r' % (a, b)
            else:
                P1, P2 = gens.loguniform(rng, 1e-3, 0.2), gens.loguniform(rng, 1e-4, 0.05)
                E1, E2 = rng.uniform(0, 50000), rng.uniform(0, 50000)
                # the membrane's experiments, and permeances handed to the solver directly, may be stated in any supported unit
                mu = rng.choice(['kg/(m2*h*kPa)', 'kg/(m2*h*kPa)', 'SI', 'GPU'])
                M1, M2 = (pv.Permeance(P1).convert(mu, m.first_component).value, pv.Permeance(P2).convert(mu, m.second_component).value)
                mem = pvtools.simple_membrane(m, M1, M2, T=T, Ea1=E1, Ea2=E2, units=mu)
                smem = swapped_membrane(m, sm, M1, M2, T, E1, E2, units=mu)
                case['membrane_units'] = mu
                pa, pb = pv.Pervaporation(mem, m), pv.Pervaporation(smem, sm)
                if what == 'flux':
                    ua = ub = {}
                    if rng.random() < 0.5:
                        su = rng.choice(['kg/(m2*h*kPa)', 'SI', 'GPU'])
                        case['supplied_units'] = su
                        ua = dict(first_component_permeance=pv.Permeance(P1, su), second_component_permeance=pv.Permeance(P2, su))
                        ub = dict(first_component_permeance=pv.Permeance(P2, su), second_component_permeance=pv.Permeance(P1, su))
                    a = pa.calculate_partial_fluxes(T, c, 1e-7, Tp, pp, calculation_type=ct, **ua)
                    b = pb.calculate_partial_fluxes(T, sc, 1e-7, Tp, pp, calculation_type=ct, **ub)
                    ok = rel_close(a[0], b[1], 1e-6) and rel_close(a[1], b[0], 1e-6)
                    detail = 'fluxes %r, twin %r' % (a, b)
                elif what == 'curve':
                    a = pa.ideal_diffusion_curve(T, [c], Tp, pp, 1e-7, ct)
                    b = pb.ideal_diffusion_curve(T, [sc], Tp, pp, 1e-7, ct)
                    ok = (rel_close(a.partial_fluxes[0][0], b.partial_fluxes[0][1], 1e-6) and rel_close(a.get_separation_factor[0], 1 / b.get_separation_factor[0], 1e-5)
                          and rel_close(a.get_selectivity[0], 1 / b.get_selectivity[0], 1e-5))
                    detail = 'ideal curve: fluxes %r twin %r; separation factor %r twin %r' % (a.partial_fluxes[0], b.partial_fluxes[0], a.get_separation_factor[0], b.get_separation_factor[0])
                    if ct == 'UNIQUAC':
                        kindp = 'uniquac_swap_asymmetry'
                else:
                    kind = rng.choice(['iso', 'noniso'])
                    cdA = Conditions(membrane_area=0.05, initial_feed_temperature=T, initial_feed_amount=10.0, initial_feed_composition=c,
                                     permeate_temperature=Tp, permeate_pressure=pp)
                    cdB = Conditions(membrane_area=0.05, initial_feed_temperature=T, initial_feed_amount=10.0, initial_feed_composition=sc,
                                     permeate_temperature=Tp, permeate_pressure=pp)
                    n, dt = 4, 0.2
                    if kind == 'iso':
                        a, b = pa.ideal_isothermal_process(n, dt, cdA, 1e-7, ct), pb.ideal_isothermal_process(n, dt, cdB, 1e-7, ct)
                    else:
                        a, b = pa.ideal_non_isothermal_process(cdA, n, dt, 1e-7, ct), pb.ideal_non_isothermal_process(cdB, n, dt, 1e-7, ct)
                    for k in range(n):
                        if not (rel_close(a.partial_fluxes[k][0], b.partial_fluxes[k][1], 1e-6) and rel_close(a.feed_mass[k], b.feed_mass[k], 1e-7)
                                and rel_close(a.feed_temperature[k], b.feed_temperature[k], 1e-8) and rel_close(a.feed_evaporation_heat[k], b.feed_evaporation_heat[k], 1e-6)
                                and rel_close(a.feed_compositions[k].p, 1 - b.feed_compositions[k].p, 1e-7, 1e-9)
                                and ((a.permeate_condensation_heat[k] is None) or rel_close(a.permeate_condensation_heat[k], b.permeate_condensation_heat[k], 1e-6))):
                            ok, detail = False, 'ideal %s process step %d differs from its relabelled twin (Q %r vs %r, T %r vs %r)' % (
                                kind, k, a.feed_evaporation_heat[k], b.feed_evaporation_heat[k], a.feed_temperature[k], b.feed_temperature[k])
                            break
                    case['kind'] = kind
        except po.ACCEPTABLE:
            yield {'kind': what + ':raised', 'case': case, 'ok': True, 'detail': '', 'nontrivial': False}
            continue
        yield {'kind': kindp, 'case': case, 'ok': ok, 'detail': '' if ok else detail}


def correspondence(tier, seed):
    import corr_numeric
    budget = {'thermo': 30, 'solver': 15, 'curvemetrics': 10}
    if tier == 'thorough':
        budget = {k: v * 12 for k, v in budget.items()}
    return corr_numeric.run(seed, budget, nmax=30 if tier == 'quick' else 200, tag='C06')


def replay(rep):
    return True, 're-run bin/check C06 with VERIF_SEED=%s' % rep.get('seed')
