"""C14 — permeance unit conversion is an exact, invertible change of units."""
import pyvaporation as pv
from common import rel_close
import gens

FAMILIES = ['component']
BRIDGES = ['br_conv_', 'br_mkperm_', 'br_add_']
PROPS_V = 'Props/C14.v'
EXTRA_TARGETS = ['Model/NumCheck.vo']
BUDGET = {'quick': 1500, 'thorough': 40000}
ORACLE_RULE = ('all 9 ordered unit pairs x built-in components and random molar masses x values 0 and 1e-12..1e6; plus the '
               'malformed stream (no component, unknown unit, negative value); non-trivial = source and target units differ')
ASSUMPTIONS = ['IEEE rounding abstracted (oracle tolerance 1e-9 relative)']
LEVEL_TEXT = ('Coq theorems over the reals for all values >= 0, all molar masses > 0 and all unit pairs: conversion formula, identity, '
              'linearity, path independence, invertibility, the two stated constants, every rejection case, non-negativity after the '
              'constructor clamp. Tie: bridge lemmas generated from symbolic traces of Permeance.convert for all 16 (from,to) pairs incl. an '
              'unknown unit x component given/None, the constructor clamp paths and __add__.')
LEVEL_NOTE = 'binary64 abstracted to reals; tracer + Coq kernel trusted; unit strings are modelled as an enumeration with an Other constructor'
TECHNIQUE = 'Coq proof (case analysis on units + field) + symbolic-trace bridge lemmas'
DESIGN_REF = 'DESIGN.md section 6 C14'

U = ['kg/(m2*h*kPa)', 'SI', 'GPU']


def near_unit(rng):
    """an unsupported unit string one edit away from a supported one (prefix, suffix, case, one character changed):
    look-alikes are what a unit classification by prefix / substring / case-folding would wrongly accept"""
    while True:
        u = rng.choice(U)
        r = rng.random()
        if r < 0.2:
            v = u + rng.choice([' ', 's', '*', '/s', '2'])
        elif r < 0.4:
            v = rng.choice([' ', 'k', 'm']) + u
        elif r < 0.6:
            i = rng.randrange(len(u))
            v = u[:i] + u[i + 1:]
        elif r < 0.8:
            i = rng.randrange(len(u))
            v = u[:i] + rng.choice('hsPakgmGU*/()2') + u[i + 1:]
        else:
            v = rng.choice([u.lower(), u.upper(), u.title(), u[:2], u[:len(u) // 2]])
        if v not in U:
            return v


def oracle(rng, tier):
    comps = gens.builtin_components()
    while True:
        c = rng.choice(comps) if rng.random() < 0.5 else gens.random_component(rng)
        M = c.molecular_weight
        v = 0.0 if rng.random() < 0.1 else gens.loguniform(rng, 1e-12, 1e6)
        a, b, d = rng.choice(U), rng.choice(U), rng.choice(U)
        case = {'M': M, 'v': v, 'a': a, 'b': b, 'c': d}
        ok, detail = True, ''
        try:
            p = pv.Permeance(value=v, units=a)
            pb = p.convert(b, c)
            if p.value != v or p.units != a:
                ok, detail = False, 'source permeance modified'
            if ok and a == b and not (pb.value == v and pb.units == a):
                ok, detail = False, 'identity conversion changed the value'
            k = gens.loguniform(rng, 1e-3, 1e3)
            pk = pv.Permeance(value=k * v, units=a).convert(b, c)
            if ok and not rel_close(pk.value, k * pb.value, 1e-9):
                ok, detail = False, 'not linear: %r vs %r' % (pk.value, k * pb.value)
            pc1 = pb.convert(d, c)
            pc2 = p.convert(d, c)
            if ok and not (rel_close(pc1.value, pc2.value, 1e-9) and pc1.units == d == pc2.units):
                ok, detail = False, 'path dependent: %s->%s->%s gives %r, direct %r' % (a, b, d, pc1.value, pc2.value)
            back = pb.convert(a, c)
            if ok and not (rel_close(back.value, v, 1e-9) and back.units == a):
                ok, detail = False, 'not invertible: %r -> %r -> %r' % (v, pb.value, back.value)
            one_kg = pv.Permeance(value=1.0, units=U[0]).convert('SI', c).value
            if ok and not rel_close(one_kg, 1 / (3600 * M), 1e-12):
                ok, detail = False, '1 kg/(m2 h kPa) = %r SI, expected %r' % (one_kg, 1 / (3600 * M))
            one_gpu = pv.Permeance(value=1.0, units='GPU').convert('SI', rng.choice([c, None])).value
            if ok and not rel_close(one_gpu, 3.35e-10, 1e-12):
                ok, detail = False, '1 GPU = %r SI' % one_gpu
            if ok and pb.value < 0:
                ok, detail = False, 'negative value'
            # malformed stream
            r = rng.random()
            if ok and r < 0.25:
                src = rng.choice(['SI', 'GPU'])
                try:
                    q = pv.Permeance(value=v, units=src).convert(U[0], None)
                    ok, detail = False, 'conversion %s -> kg without component returned %r' % (src, q)
                except (ValueError, KeyError):
                    pass
            elif ok and r < 0.5:
                tgt = rng.choice(['SI', 'GPU'])
                try:
                    q = pv.Permeance(value=v, units=U[0]).convert(tgt, None)
                    ok, detail = False, 'conversion kg -> %s without component returned %r' % (tgt, q)
                except (ValueError, KeyError):
                    pass
            elif ok and r < 0.75:
                unk = rng.choice(['barrer', 'gpu', 'si', 'mol/(m2*s*Pa)', '']) if rng.random() < 0.3 else near_unit(rng)
                other = rng.choice(U)
                for (s, t) in ((unk, other), (other, unk)):
                    try:
                        q = pv.Permeance(value=v, units=s).convert(t, c)
                        ok, detail = False, 'conversion %r -> %r returned %r' % (s, t, q)
                    except (ValueError, KeyError):
                        pass
            elif ok:
                neg = pv.Permeance(value=-gens.loguniform(rng, 1e-12, 1e3), units=a)
                if neg.value < 0 or neg.convert(b, c).value < 0:
                    ok, detail = False, 'negative permeance value kept'
        except Exception as e:
            ok, detail = False, 'raised %s: %s' % (type(e).__name__, e)
        yield {'kind': '%s->%s' % (a, b), 'case': case, 'ok': ok, 'detail': detail, 'nontrivial': a != b}


def correspondence(tier, seed):
    import corr_numeric
    budget = {'convert': 60}
    if tier == 'thorough':
        budget = {k: v * 12 for k, v in budget.items()}
    return corr_numeric.run(seed, budget, nmax=30 if tier == 'quick' else 200, tag='C14')


def replay(rep):
    c = rep['failure']['case']
    comp = gens.random_component(__import__('random').Random(0))
    comp.molecular_weight = c['M']
    p = pv.Permeance(value=c['v'], units=c['a'])
    pb = p.convert(c['b'], comp)
    back = pb.convert(c['a'], comp)
    direct = p.convert(c['c'], comp)
    via = pb.convert(c['c'], comp)
    ok = rel_close(back.value, c['v'], 1e-9) and rel_close(direct.value, via.value, 1e-9)
    return ok, 'v=%r back=%r direct=%r via=%r' % (c['v'], back.value, direct.value, via.value)
