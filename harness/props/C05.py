"""C05 — non-ideal models follow the fitted permeance functions they return."""
import math
import numpy
import pyvaporation as pv
from pyvaporation.optimizer import Measurements, find_best_fit
from pyvaporation.utils import R
from common import rel_close
import gens
import procoracle as po

FAMILIES = ['process', 'fit', 'membrane', 'nicurve']
BRIDGES = ['br_nicurve_', 'br_nonideal_', 'br_pfcall_', 'br_pfmul', 'br_measurements_', 'br_ea_', 'br_from_array_']
LINT = True          # loop-shape lint of the four step loops (tracer/looplint.py)
PROPS_V = 'Props/C05.v'
EXTRA_TARGETS = ['Model/NumCheck.vo']
BUDGET = {'quick': 10, 'thorough': 150}
ORACLE_RULE = ('single- and multi-temperature synthetic curve sets with composition-dependent permeances (mass or mole fraction curves) x with/without initial '
               'permeances x modelling temperature equal to / different from the curve temperature (differences 0, 1e-9..60 K log-uniform) x permeate modes x '
               'isothermal / self-cooling / programme, with the REAL optimiser; non-trivial = all')
ASSUMPTIONS = ['find_best_fit is deterministic (oracle; the check calls it publicly and compares coefficients exactly)']
LEVEL_TEXT = ('Coq theorems for any fitted functions and any run length: the returned fits are the raw best-fit results (multi-curve) or their Arrhenius re-scaling '
              '(single curve: always in the non-isothermal process, iff Tc <> T otherwise) with pf(x,T) = pf_raw(x,Tc) exp(-Ea/R (1/T - 1/Tc)); step 0 uses the converted '
              'initial permeances or the fit itself (factor 1); every later permeance pair = fit(x of step i (isothermal) / i+1, T of step i+1) * constant factor. Tie: '
              'non-ideal process bridges (stubs for the solver, find_best_fit - with its requested n, m, include_zero, component index checked - and the activation '
              'energy; PervaporationFunction.__call__ as a cut point bridged separately), measurement-extraction bridges for mass and mole fraction curve sets.')
LEVEL_NOTE = 'the optimiser is an oracle (its result is an input of the model)'
TECHNIQUE = 'Coq proof (exp algebra, induction on steps) + symbolic-trace bridge lemmas with find_best_fit / __call__ as cut points'
DESIGN_REF = 'DESIGN.md section 6 C05'


def expected_fits(pvo, cfg, cs, iso):
    m = cfg['m']
    m1 = Measurements.from_diffusion_curves_first(cs)
    m2 = Measurements.from_diffusion_curves_second(cs)
    if len(cs.diffusion_curves) == 1:
        f1 = find_best_fit(data=m1, n=None, m=0, include_zero=False, component_index=0)
        f2 = find_best_fit(data=m2, n=None, m=0, include_zero=False, component_index=1)
        Tc = cs.diffusion_curves[0].feed_temperature
        if (not iso) or Tc != cfg['T0']:
            out = []
            for f, c in ((f1, m.first_component), (f2, m.second_component)):
                Ea = pvo.membrane.calculate_activation_energy(c)
                b0 = f.b[0]
                g = f * numpy.exp(-b0 / Tc + Ea / (R * Tc))
                g.b = numpy.array(list(g.b), dtype=float)
                g.b[0] = Ea / R
                out.append((g, f, Ea, Tc))
            return out
        return [(f1, f1, None, Tc), (f2, f2, None, Tc)]
    f1 = find_best_fit(data=m1, n=None, m=None, include_zero=False, component_index=0)
    f2 = find_best_fit(data=m2, n=None, m=None, include_zero=False, component_index=1)
    return [(f1, f1, None, None), (f2, f2, None, None)]


def same_fn(a, b):
    return a.n == b.n and a.m == b.m and rel_close(a.alpha, b.alpha, 1e-12) and len(a.a) == len(b.a) and len(a.b) == len(b.b) \
        and all(rel_close(x, y, 1e-12, 1e-300) for x, y in zip(a.a, b.a)) and all(rel_close(x, y, 1e-12, 1e-300) for x, y in zip(a.b, b.b))


def oracle(rng, tier):
    import random
    while True:
        cfg = po.random_config(rng, kinds=['nonideal_iso', 'nonideal_noniso'])
        cfg['n'] = rng.choice([2, 3, 5])
        cfg['m'] = pv.Mixtures.H2O_EtOH if rng.random() < 0.7 else rng.choice(gens.builtin_mixtures())
        cfg['ct'] = 'NRTL'
        cfg['ncurves'] = rng.choice([1, 1, 2])
        cfg['sameT'] = cfg['ncurves'] > 1 and rng.random() < 0.5
        if cfg['ncurves'] == 1:
            Tc = po.curve_set(cfg['m'], random.Random(1), 1).diffusion_curves[0].feed_temperature
            cfg['T0'] = Tc + rng.choice([0.0, gens.loguniform(rng, 1e-9, 60.0), -gens.loguniform(rng, 1e-9, 30.0)])
            if cfg['Tp'] is not None:
                cfg['Tp'] = min(cfg['Tp'], cfg['T0'] - 20)
        iso = cfg['kind'] == 'nonideal_iso'
        ok, detail = True, ''
        try:
            pm, pvo, cd = po.run(cfg, fake_fit=False)
            cs = po.curve_set(cfg['m'], random.Random(1), cfg['ncurves'], cfg['cbasis'], cfg['sameT'])
            exp = expected_fits(pvo, cfg, cs, iso)
            fits = pm.permeance_fits
            for i in range(2):
                if not same_fn(fits[i], exp[i][0]):
                    ok, detail = False, 'returned fit %d (alpha %r, b %r) differs from the public best-fit search%s (alpha %r, b %r)' % (
                        i, fits[i].alpha, list(fits[i].b), ' + Arrhenius re-scaling' if exp[i][2] is not None else '', exp[i][0].alpha, list(exp[i][0].b))
                    break
                if exp[i][2] is not None:
                    x, T = 0.37, cfg['T0']
                    lhs = fits[i](x, T)
                    rhs = exp[i][1](x, exp[i][3]) * math.exp(-exp[i][2] / R * (1 / T - 1 / exp[i][3]))
                    if not rel_close(lhs, rhs, 1e-9):
                        ok, detail = False, 'single curve: fit %d at T=%r gives %r, Arrhenius from the curve temperature %r' % (i, T, lhs, rhs)
                        break
            if ok:
                x0 = pm.feed_compositions[0].p
                FR = []
                for i in range(2):
                    P0 = pm.permeances[0][i].value
                    f0 = fits[i](x0, cfg['T0'])
                    if cfg['ip'] is None and not rel_close(P0, f0, 1e-10):
                        ok, detail = False, 'no initial permeances: step-0 permeance %r, fit gives %r' % (P0, f0)
                    if cfg['ip'] is not None:
                        comp_i = cfg['m'].first_component if i == 0 else cfg['m'].second_component
                        want = cfg['ip'][i].convert('kg/(m2*h*kPa)', comp_i).value
                        if not rel_close(P0, want, 1e-9):
                            ok, detail = False, 'step-0 permeance of component %d is %r, supplied %r %s = %r kg/(m2 h kPa)' % (i, P0, cfg['ip'][i].value, cfg['ip'][i].units, want)
                    FR.append(P0 / f0)
                for k in range(1, cfg['n']):
                    for i in range(2):
                        xx = pm.feed_compositions[k - 1].p if iso else pm.feed_compositions[k].p
                        e = fits[i](xx, pm.feed_temperature[k]) * FR[i]
                        if ok and not rel_close(pm.permeances[k][i].value, e, 1e-9):
                            ok, detail = False, 'step %d component %d: permeance %r, fit * factor %r' % (k, i, pm.permeances[k][i].value, e)
        except po.ACCEPTABLE:
            yield {'kind': cfg['kind'] + ':raised', 'case': po.describe(cfg), 'ok': True, 'detail': '', 'nontrivial': False}
            continue
        yield {'kind': '%s:%dcurves:%s' % (cfg['kind'], cfg['ncurves'], 'ip' if cfg['ip'] else 'noip'), 'case': po.describe(cfg), 'ok': ok, 'detail': detail}


def correspondence(tier, seed):
    import corr_numeric
    budget = {'process': 24, 'nicurve': 12, 'fit': 8}
    if tier == 'thorough':
        budget = {k: v * 12 for k, v in budget.items()}
    return corr_numeric.run(seed, budget, nmax=30 if tier == 'quick' else 200, tag='C05')


def replay(rep):
    return True, 're-run bin/check C05 with VERIF_SEED=%s' % rep.get('seed')
