"""C09 — flux->permeance inversion of a diffusion curve undoes the flux calculation."""
import pyvaporation as pv
from pyvaporation.diffusion_curve import DiffusionCurve
from pyvaporation.mixtures.mixture import get_partial_pressures
from common import rel_close
import gens
import pvtools

FAMILIES = ['curve', 'solver', 'component']
BRIDGES = ['br_curve_', 'br_idealcurve_', 'br_flux_', 'br_conv_', 'br_metric_']
PROPS_V = 'Props/C09.v'
EXTRA_TARGETS = ['Model/NumCheck.vo']
BUDGET = {'quick': 400, 'thorough': 10000}
ORACLE_RULE = ('built-in and synthetic mixtures (NRTL) x 3 permeate modes x permeances 1e-6..1 x 1-4 feed compositions in (0,1) given as mass OR mole '
               'fractions x T 273..400 K x units {kg, SI, GPU}: forward solve at precision 1e-9 -> curve from fluxes -> compare permeances; curve from '
               'permeances -> fluxes -> re-inversion; stored witness of finding F4 first; non-trivial = non-vacuum mode or non-kg units')
ASSUMPTIONS = ['DiffusionCurve always uses NRTL (it has no activity-model argument)', 'permeate-temperature tolerance 2e-5 relative at solver precision 1e-9']
LEVEL_TEXT = ('Coq theorems for every point, mixture and pressure: inversion returns P in vacuum, at a self-consistent permeate in permeate-temperature mode, and '
              'for the mole-fraction pressure law; exact value returned for fluxes produced with the solver\'s mass-fraction law (known finding F4); curves '
              'from permeances report J = P p_feed; every exposed permeance is in kg/(m2 h kPa) with the converted value. Tie: bridges from symbolic traces of '
              'DiffusionCurve.__attrs_post_init__ (fluxes/permeances/both/neither x 4 modes x molar/mass feed x 0-2 points x units), its metrics, and ideal_diffusion_curve.')
LEVEL_NOTE = 'known finding F4 reported; lists of unequal length are outside the model; binary64 abstracted to reals'
TECHNIQUE = 'Coq proof (field, case analysis over modes, Forall over the point list) + symbolic-trace bridge lemmas'
DESIGN_REF = 'DESIGN.md section 6 C09'

KG = 'kg/(m2*h*kPa)'


def forward_inverse(m, T, xs, basis, P1, P2, mode, Tp, pp):
    pvo = pv.Pervaporation(pvtools.simple_membrane(m, P1, P2, T=T), m)
    comps = [pv.Composition(p=x, type=basis) for x in xs]
    J = [pvo.calculate_partial_fluxes(T, c, 1e-9, Tp, pp, pv.Permeance(P1), pv.Permeance(P2), 'NRTL') for c in comps]
    curve = DiffusionCurve(mixture=m, membrane_name='o', feed_temperature=T, feed_compositions=comps, partial_fluxes=J,
                           permeate_temperature=Tp, permeate_pressure=pp)
    return comps, J, curve


def check_case(m, T, xs, basis, P1, P2, mode, Tp, pp, units):
    res = []
    try:
        comps, J, curve = forward_inverse(m, T, xs, basis, P1, P2, mode, Tp, pp)
    except (ValueError, ZeroDivisionError, OverflowError):
        return [('raised', True, '')]
    for i, p in enumerate(curve.permeances):
        if p[0].units != KG or p[1].units != KG:
            res.append(('units', False, 'point %d exposed in %s' % (i, p[0].units)))
        got = (p[0].value, p[1].value)
        if mode == 'vac':
            ok = rel_close(got[0], P1, 1e-9) and rel_close(got[1], P2, 1e-9)
            res.append(('inversion_vacuum', ok, 'point %d: supplied (%r,%r) recovered %r' % (i, P1, P2, got)))
        elif mode == 'temp':
            ok = rel_close(got[0], P1, 2e-5) and rel_close(got[1], P2, 2e-5)
            res.append(('inversion_permeate_temperature', ok, 'point %d: supplied (%r,%r) recovered %r' % (i, P1, P2, got)))
        else:
            if rel_close(got[0], P1, 2e-5) and rel_close(got[1], P2, 2e-5):
                res.append(('inversion_permeate_pressure_consistent', True, ''))
            else:
                pf = get_partial_pressures(T, m, comps[i], 'NRTL')
                y = J[i][0] / (J[i][0] + J[i][1])
                ym = pv.Composition(p=y, type='weight').to_molar(m).p
                e1 = P1 * (pf[0] - pp * y) / (pf[0] - pp * ym)
                e2 = P2 * (pf[1] - pp * (1 - y)) / (pf[1] - pp * (1 - ym))
                if rel_close(got[0], max(e1, 0), 2e-5, 1e-12) and rel_close(got[1], max(e2, 0), 2e-5, 1e-12):
                    res.append(('inversion_permeate_pressure', False, 'point %d: supplied (%r,%r) recovered %r (mass- vs mole-fraction permeate pressure)' % (i, P1, P2, got)))
                else:
                    res.append(('inversion_pressure_other', False, 'point %d: supplied (%r,%r) recovered %r, neither P nor the F4 prediction (%r,%r)' % (i, P1, P2, got, e1, e2)))
    # curve from permeances in `units`
    try:
        comps = [pv.Composition(p=x, type=basis) for x in xs]
        up = [(pv.Permeance(P1).convert(units, m.first_component), pv.Permeance(P2).convert(units, m.second_component)) for _ in xs]
        c2 = DiffusionCurve(mixture=m, membrane_name='o', feed_temperature=T, feed_compositions=comps, permeances=up)
        for i, p in enumerate(c2.permeances):
            pf = get_partial_pressures(T, m, comps[i], 'NRTL')
            ok = (p[0].units == KG and p[1].units == KG and rel_close(p[0].value, P1, 1e-9) and rel_close(p[1].value, P2, 1e-9)
                  and rel_close(c2.partial_fluxes[i][0], P1 * pf[0], 1e-9) and rel_close(c2.partial_fluxes[i][1], P2 * pf[1], 1e-9))
            res.append(('from_permeances', ok, 'point %d: permeances %r %s fluxes %r, expected P=(%r,%r) J=P*pf' % (i, (p[0].value, p[1].value), p[0].units, c2.partial_fluxes[i], P1, P2)))
        c3 = DiffusionCurve(mixture=m, membrane_name='o', feed_temperature=T, feed_compositions=comps, partial_fluxes=c2.partial_fluxes)
        for i, p in enumerate(c3.permeances):
            res.append(('reinversion', rel_close(p[0].value, P1, 1e-9) and rel_close(p[1].value, P2, 1e-9), 'point %d re-inverted to %r' % (i, (p[0].value, p[1].value))))
        # both fluxes and permeances supplied (the way a stored curve is rebuilt): still exposed in kg/(m2 h kPa)
        c4 = DiffusionCurve(mixture=m, membrane_name='o', feed_temperature=T, feed_compositions=comps, permeances=up,
                            partial_fluxes=c2.partial_fluxes)
        for i, p in enumerate(c4.permeances):
            ok = p[0].units == KG and p[1].units == KG and rel_close(p[0].value, P1, 1e-9) and rel_close(p[1].value, P2, 1e-9)
            res.append(('both_given', ok, 'point %d of a curve given fluxes and permeances in %s: exposed %r %s / %r %s, expected (%r,%r) kg/(m2*h*kPa)' % (
                i, units, p[0].value, p[0].units, p[1].value, p[1].units, P1, P2)))
    except (ValueError, ZeroDivisionError, OverflowError) as e:
        res.append(('from_permeances', False, 'raised %s' % e))
    return res


def oracle(rng, tier):
    m = pv.Mixtures.H2O_EtOH
    for kind, ok, detail in check_case(m, 333.15, [0.3], 'weight', 0.05, 0.002, 'press', None, 2.0, KG):
        yield {'kind': kind, 'case': {'witness': 'F4', 'mixture': 'H2O_EtOH', 'T': 333.15, 'pp': 2.0}, 'ok': ok, 'detail': detail}
    while True:
        m = gens.any_mixture(rng)
        T = rng.uniform(273, 400)
        xs = [gens.interior(rng) for _ in range(rng.choice([1, 2, 4]))]
        basis = rng.choice(['weight', 'molar'])
        P1, P2 = gens.loguniform(rng, 1e-6, 1), gens.loguniform(rng, 1e-6, 1)
        mode = rng.choice(['vac', 'temp', 'press'])
        Tp = rng.uniform(120, T - 5) if mode == 'temp' else None
        pp = rng.uniform(0.0, 5.0) if mode == 'press' else None
        units = rng.choice([KG, 'SI', 'GPU'])
        T, Tp, pp = gens.maybe_int(rng, T), gens.maybe_int(rng, Tp), gens.maybe_int(rng, pp, 0.3)
        case = {'mixture': gens.describe_mixture(m), 'T': T, 'xs': xs, 'basis': basis, 'P1': P1, 'P2': P2, 'mode': mode, 'Tp': Tp, 'pp': pp, 'units': units}
        for kind, ok, detail in check_case(m, T, xs, basis, P1, P2, mode, Tp, pp, units):
            yield {'kind': kind, 'case': case, 'ok': ok, 'detail': detail, 'nontrivial': mode != 'vac' or units != KG}


def correspondence(tier, seed):
    import corr_numeric
    budget = {'curve': 40, 'convert': 10, 'curvemetrics': 20}
    if tier == 'thorough':
        budget = {k: v * 12 for k, v in budget.items()}
    return corr_numeric.run(seed, budget, nmax=30 if tier == 'quick' else 200, tag='C09')


def replay(rep):
    return True, 're-run bin/check C09 with VERIF_SEED=%s' % rep.get('seed')
