"""C18 — reported process states are physically admissible, otherwise the call raises."""
import math
import procoracle as po

FAMILIES = ['process']
BRIDGES = ['br_proc_', 'br_nonideal_']
LINT = True          # loop-shape lint of the four step loops (tracer/looplint.py)
PROPS_V = 'Props/C18.v'
EXTRA_TARGETS = ['Model/NumCheck.vo']
BUDGET = {'quick': 200, 'thorough': 5000}
ORACLE_RULE = ('coarse-discretisation stream: random runs of the 4 process kinds in which one step removes 10%..1000% of the feed; every returned trajectory '
               'is checked for positive mass, fractions in [0,1], positive finite temperature, finite fluxes and heats; non-trivial = the run returned')
ASSUMPTIONS = ['finiteness of fluxes/heats is a binary64 notion: covered by the sampled runs only (partial)']
LEVEL_TEXT = ('Coq theorem: whenever the shared loop RETURNS a trajectory (any kind, any flux calculation, any n), every reported feed mass is > 0, every feed and '
              'permeate mass fraction is in [0,1], every non-isothermal temperature after step 0 is > 0 and isothermal ones equal T0 - the guards of the '
              'repaired code are exactly the tests the model consumes in the bridge lemmas (incl. the exhausted-feed and cold-temperature error paths).')
LEVEL_NOTE = 'partial: finiteness (inf/nan) exists only in binary64 and is sampled, not proved; binary64 abstracted to reals elsewhere'
TECHNIQUE = 'Coq proof (invariant by induction on steps) + symbolic-trace bridge lemmas incl. guard error paths'
DESIGN_REF = 'DESIGN.md section 6 C18'


def check(pm):
    for k in range(len(pm.time)):
        vals = [pm.feed_mass[k], pm.feed_compositions[k].p, pm.permeate_composition[k].p, pm.feed_temperature[k],
                pm.partial_fluxes[k][0], pm.partial_fluxes[k][1], pm.feed_evaporation_heat[k]]
        if not all(math.isfinite(v) for v in vals):
            return False, 'step %d: non-finite value in %r' % (k, vals)
        if not pm.feed_mass[k] > 0:
            return False, 'step %d: feed mass %r' % (k, pm.feed_mass[k])
        if not (0 <= pm.feed_compositions[k].p <= 1 and 0 <= pm.permeate_composition[k].p <= 1):
            return False, 'step %d: fractions %r %r' % (k, pm.feed_compositions[k].p, pm.permeate_composition[k].p)
        if not pm.feed_temperature[k] > 0:
            return False, 'step %d: temperature %r' % (k, pm.feed_temperature[k])
    return True, ''


def oracle(rng, tier):
    import gens
    while True:
        cfg = po.random_config(rng, coarse=True)
        cfg['n'] = rng.choice([2, 3, 4, 6])
        if rng.random() < 0.6:
            # directed: step length from the actual step-0 fluxes so that one step removes 25%..130% of the feed, with
            # moderately selective membranes and mid-range feeds (both components can be over-removed in the same step)
            cfg['x0'] = rng.uniform(0.2, 0.8)
            cfg['basis'] = 'weight'
            cfg['P2'] = cfg['P1'] * gens.loguniform(rng, 0.05, 5.0)
            if rng.random() < 0.6:
                # near the membrane's non-selective point (permeate composition ~ feed composition): there an over-sized
                # step exhausts BOTH components at once and the composition validator cannot notice
                try:
                    import pyvaporation as pv
                    from pyvaporation.mixtures.mixture import get_partial_pressures
                    pf = get_partial_pressures(cfg['T0'], cfg['m'], pv.Composition(p=cfg['x0'], type='weight'), cfg['ct'])
                    cfg['P2'] = cfg['P1'] * (pf[0] / pf[1]) * ((1 - cfg['x0']) / cfg['x0']) * rng.uniform(0.8, 1.25)
                    cfg['mode'], cfg['Tp'], cfg['pp'] = 'vac', None, None
                except po.ACCEPTABLE:
                    pass
            try:
                probe = dict(cfg)
                probe['n'] = 1
                pm0, _, _ = po.run(probe)
                tot = (pm0.partial_fluxes[0][0] + pm0.partial_fluxes[0][1]) * cfg['A']
                if tot > 0:
                    cfg['dt'] = rng.uniform(0.25, 1.3) * cfg['m0'] / tot
            except po.ACCEPTABLE:
                pass
        try:
            pm, _, _ = po.run(cfg)
        except po.ACCEPTABLE:
            yield {'kind': cfg['kind'] + ':raised', 'case': po.describe(cfg), 'ok': True, 'detail': '', 'nontrivial': False}
            continue
        ok, detail = check(pm)
        yield {'kind': cfg['kind'] + ':returned', 'case': po.describe(cfg), 'ok': ok, 'detail': detail, 'nontrivial': True}


def correspondence(tier, seed):
    import corr_numeric
    budget = {'process': 30}
    if tier == 'thorough':
        budget = {k: v * 12 for k, v in budget.items()}
    return corr_numeric.run(seed, budget, nmax=30 if tier == 'quick' else 200, tag='C18')


def replay(rep):
    return True, 're-run bin/check C18 with VERIF_SEED=%s' % rep.get('seed')
