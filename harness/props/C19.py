"""C19 — contradictory or incomplete specifications are rejected at every entry point."""
import copy
import pyvaporation as pv
from pyvaporation.conditions import Conditions
from pyvaporation.diffusion_curve import DiffusionCurve
from pyvaporation.experiments import IdealExperiment, IdealExperiments
from pyvaporation.mixtures.mixture import calculate_activity_coefficients, get_partial_pressures
import gens
import pvtools
import procoracle as po

FAMILIES = ['solver', 'curve', 'membrane', 'mixture', 'process', 'nicurve']
BRIDGES = ['br_nicurve_', 'br_flux_both', 'br_solve_full_both', 'br_curve_J_both', 'br_curve_none', 'br_idealcurve_both', 'br_pureflux_both',
           'br_act_nonrtl', 'br_act_nouq', 'br_ea_one_unstated', 'br_perm_one_unstated', 'br_proc_iso_both', 'br_flux_', 'br_pureflux_']
PROPS_V = 'Props/C19.v'
EXTRA_TARGETS = ['Model/NumCheck.vo']
BUDGET = {'quick': 400, 'thorough': 8000}
ORACLE_RULE = ('every public entry point x every invalid-specification class x otherwise valid random arguments; the doubly specified permeate condition '
               'includes the values 0 and 0.0 for either quantity; non-trivial = all (each evaluation is one malformed call)')
ASSUMPTIONS = ['"rejected" = the call raises an exception (any class) instead of returning']
LEVEL_TEXT = ('Coq theorems (case analysis through the error monad) for all other arguments: both permeate conditions given => Err for the driving-force function, '
              'the flux solver (any precision, via at least one driving-force evaluation), both helpers, ideal curves with >= 1 point, curves built from fluxes, every '
              'process kind with >= 1 step, the pure-component flux; mixture without parameters, missing NRTL / UNIQUAC parameters or constants, curve with neither '
              'fluxes nor permeances, < 2 experiments without activation energy => Err. Tie: the error-path bridge lemmas (exception class) of those entry points.')
LEVEL_NOTE = 'binary64 irrelevant here'
TECHNIQUE = 'Coq proof (case analysis on option flags through the error monad) + error-path bridge lemmas'
DESIGN_REF = 'DESIGN.md section 6 C19'


def must_raise(f):
    try:
        r = f()
    except pvtools.EvalBudgetExceeded:
        return False, 'did not terminate'
    except Exception:
        return True, ''
    return False, 'returned %r' % (r,)


def oracle(rng, tier):
    while True:
        m = rng.choice(gens.builtin_mixtures())
        T = rng.uniform(290, 370)
        x = pv.Composition(p=gens.interior(rng), type=rng.choice(['weight', 'molar']))
        y = pv.Composition(p=gens.interior(rng), type='weight')
        xi = pv.Composition(p=gens.fraction(rng), type=rng.choice(['weight', 'molar']))      # incl. exactly pure feeds
        m_no_nrtl = pv.Mixture(name='x', first_component=m.first_component, second_component=m.second_component, uniquac_params=m.uniquac_params)
        m_no_uq = pv.Mixture(name='x', first_component=m.first_component, second_component=m.second_component, nrtl_params=m.nrtl_params)
        Tp = rng.choice([0, 0.0, rng.uniform(150, T)])
        pp = rng.choice([0, 0.0, rng.uniform(0.0, 10.0), rng.uniform(0.0, 10.0)])
        ct = rng.choice(['NRTL', 'UNIQUAC'])
        mem = pvtools.simple_membrane(m, 0.05, 0.002, T=rng.choice([T, 333.15]))
        pvo = pv.Pervaporation(mem, m)
        P1, P2 = pv.Permeance(0.05), pv.Permeance(0.002)
        cd = Conditions(membrane_area=0.05, initial_feed_temperature=T, initial_feed_amount=10.0, initial_feed_composition=x,
                        permeate_temperature=Tp, permeate_pressure=pp)
        cs = po.curve_set(m, rng, rng.choice([1, 2]))
        n = rng.choice([1, 2, 5])
        # the membrane may hold any number of experiments of the OTHER component (a series over several temperatures, with or
        # without activation energies): they say nothing about the temperature dependence of the first one
        others = [IdealExperiment(name='o%d' % i, temperature=T + rng.uniform(-30, 30), component=m.second_component, permeance=P2,
                                  activation_energy=rng.choice([None, 30000.0])) for i in range(rng.choice([0, 0, 1, 2, 3]))]
        entries = {
            'both:driving_force': lambda: pvo.get_partial_fluxes_from_permeate_composition(P1, P2, y, x, T, Tp, pp, ct),
            'both:flux_solver': lambda: pvo.calculate_partial_fluxes(T, x, rng.choice([5e-5, 2.0]), Tp, pp, P1, P2, ct),
            'both:flux_solver_membrane': lambda: pvo.calculate_partial_fluxes(T, x, 5e-5, Tp, pp, calculation_type=ct),
            'both:permeate_composition': lambda: pvo.calculate_permeate_composition(T, x, 5e-5, Tp, pp, ct),
            'both:separation_factor': lambda: pvo.calculate_separation_factor(T, x, Tp, pp, 5e-5, ct),
            'both:ideal_curve': lambda: pvo.ideal_diffusion_curve(T, [x, y], Tp, pp, 5e-5, ct),
            'both:ideal_isothermal': lambda: pvo.ideal_isothermal_process(n, 0.1, cd, 5e-5, ct),
            'both:ideal_non_isothermal': lambda: pvo.ideal_non_isothermal_process(cd, n, 0.1, 5e-5, ct),
            'both:non_ideal_curve': lambda: pvo.non_ideal_diffusion_curve(cs, T, x, 0.01, n, Tp, pp),
            'both:non_ideal_isothermal': lambda: pvo.non_ideal_isothermal_process(cd, cs, n, 0.1),
            'both:non_ideal_non_isothermal': lambda: pvo.non_ideal_non_isothermal_process(cd, cs, n, 0.1),
            'both:pure_component_flux': lambda: mem.get_estimated_pure_component_flux(T, m.first_component, Tp, pp),
            'both:curve_from_fluxes': lambda: DiffusionCurve(mixture=m, membrane_name='o', feed_temperature=T, feed_compositions=[x],
                                                             partial_fluxes=[(0.5, 0.01)], permeate_temperature=Tp, permeate_pressure=pp),
            'incomplete:mixture_without_parameters': lambda: pv.Mixture(name='x', first_component=m.first_component, second_component=m.second_component),
            'incomplete:nrtl_missing': lambda: get_partial_pressures(T, m_no_nrtl, xi, 'NRTL'),
            'incomplete:uniquac_missing': lambda: calculate_activity_coefficients(T, m_no_uq, xi, 'UNIQUAC'),
            'incomplete:uniquac_missing_pp': lambda: get_partial_pressures(T, m_no_uq, xi, 'UNIQUAC'),
            'incomplete:nrtl_missing_flux': lambda: pv.Pervaporation(mem, m_no_nrtl).calculate_partial_fluxes(T, xi, 5e-5, None, rng.choice([None, 0.5]), P1, P2, 'NRTL'),
            'incomplete:uniquac_missing_flux': lambda: pv.Pervaporation(mem, m_no_uq).calculate_partial_fluxes(T, xi, 5e-5, None, None, P1, P2, 'UNIQUAC'),
            'incomplete:nrtl_missing_curve': lambda: DiffusionCurve(mixture=m_no_nrtl, membrane_name='o', feed_temperature=T, feed_compositions=[xi],
                                                                    partial_fluxes=[(0.5, 0.01)]),
            'incomplete:uniquac_constants_missing': lambda: calculate_activity_coefficients(
                T, pv.Mixture(name='x', first_component=copy.copy(m.first_component).__class__(**{**{a.name: getattr(m.first_component, a.name) for a in m.first_component.__attrs_attrs__}, 'uniquac_constants': None}),
                              second_component=m.second_component, nrtl_params=m.nrtl_params, uniquac_params=m.uniquac_params), xi, 'UNIQUAC'),
            'incomplete:curve_with_neither': lambda: DiffusionCurve(mixture=m, membrane_name='o', feed_temperature=T, feed_compositions=[x]),
            'incomplete:single_experiment_without_ea': lambda: pv.Membrane(name='m', ideal_experiments=IdealExperiments(experiments=[
                IdealExperiment(name='e', temperature=T + 7.0, component=m.first_component, permeance=P1)] + others)).get_permeance(T, m.first_component),
            'incomplete:activation_energy_single': lambda: pv.Membrane(name='m', ideal_experiments=IdealExperiments(experiments=[
                IdealExperiment(name='e', temperature=T + 7.0, component=m.first_component, permeance=P1)] + others)).calculate_activation_energy(m.first_component),
        }
        name = rng.choice(sorted(entries))
        ok, detail = must_raise(entries[name])
        yield {'kind': name, 'case': {'entry': name, 'mixture': m.name, 'T': T, 'Tp': Tp, 'pp': pp, 'model': ct, 'x': [x.p, x.type], 'x_incomplete': [xi.p, xi.type]},
               'ok': ok, 'detail': detail}


def correspondence(tier, seed):
    import corr_numeric
    budget = {'solver': 20, 'curve': 10, 'nicurve': 10}
    if tier == 'thorough':
        budget = {k: v * 12 for k, v in budget.items()}
    return corr_numeric.run(seed, budget, nmax=30 if tier == 'quick' else 200, tag='C19')


def replay(rep):
    return True, 're-run bin/check C19 with VERIF_SEED=%s' % rep.get('seed')
