"""C01 — process models conserve total and per-component mass on a regular time grid."""
import pyvaporation as pv
from common import rel_close
import procoracle as po

FAMILIES = ['process']
BRIDGES = ['br_proc_', 'br_nonideal_']
LINT = True          # loop-shape lint of the four step loops (tracer/looplint.py)
PROPS_V = 'Props/C01.v'
EXTRA_TARGETS = ['Model/NumCheck.vo']
BUDGET = {'quick': 150, 'thorough': 4000}
ORACLE_RULE = ('random runs of the 4 process kinds x 3 permeate modes x built-in/synthetic mixtures x {NRTL, UNIQUAC} x area 1e-3..5 x feed '
               '0.1..100 kg x 1..30 steps x molar or mass initial composition x with/without temperature programme x membrane units; '
               'non-trivial = the run returned with at least 2 steps')
ASSUMPTIONS = ['binary64 abstracted to reals (oracle tolerance 1e-9 relative)',
               'loop structure for general n: proved for the model by induction; tied to the code by bridges for n = 1, 2 (3 thorough) with symbolic '
               'leaves and by the sampled runs']
LEVEL_TEXT = ('Coq theorems by induction over the step count for the loop shared by all 4 process models, for ANY flux calculation, mixture, mode '
              'and programme: series length = n, initial state (m0, to_weight x0, T0), time[i] = dt*i, m[i+1] = m[i] - (J1+J2) A dt, '
              'p[i+1] m[i+1] = p[i] m[i] - J1 A dt, compositions are mass fractions. Tie: bridge lemmas from symbolic traces of the four real process '
              'functions for n = 1, 2 (3 in the thorough tier) with the solver, the membrane and find_best_fit abstract - every series element, every '
              'argument of every solver call and every data-dependent test must match the model.')
LEVEL_NOTE = 'binary64 abstracted to reals; general n rests on the model induction + n<=3 symbolic bridges + sampled runs; tracer + kernel trusted'
TECHNIQUE = 'Coq proof (induction on the number of steps, field) + symbolic-trace bridge lemmas of the loops'
DESIGN_REF = 'DESIGN.md section 6 C01'


def check(pm, cfg, cd):
    n, A, dt = cfg['n'], cfg['A'], cfg['dt']
    series = [pm.time, pm.feed_mass, pm.feed_compositions, pm.feed_temperature, pm.permeances, pm.partial_fluxes,
              pm.permeate_composition, pm.feed_evaporation_heat, pm.permeate_condensation_heat, pm.permeate_temperature,
              pm.permeate_pressure]
    if any(len(s) != n for s in series):
        return False, 'series lengths %r, requested %d' % ([len(s) for s in series], n)
    x0w = pv.Composition(p=cfg['x0'], type=cfg['basis']).to_weight(cfg['m'])
    if not (pm.feed_mass[0] == cfg['m0'] and rel_close(pm.feed_compositions[0].p, x0w.p, 1e-12) and pm.feed_temperature[0] == cfg['T0']):
        return False, 'initial state (%r, %r, %r) differs from (m0, to_weight x0, T0) = (%r, %r, %r)' % (
            pm.feed_mass[0], pm.feed_compositions[0].p, pm.feed_temperature[0], cfg['m0'], x0w.p, cfg['T0'])
    for k in range(n):
        if not rel_close(pm.time[k], dt * k, 1e-12):
            return False, 'time[%d] = %r, expected %r' % (k, pm.time[k], dt * k)
        if pm.feed_compositions[k].type != 'weight':
            return False, 'feed composition %d reported as %s' % (k, pm.feed_compositions[k].type)
    for k in range(n - 1):
        J = pm.partial_fluxes[k]
        m0_, m1_ = pm.feed_mass[k], pm.feed_mass[k + 1]
        e = m0_ - (J[0] + J[1]) * A * dt
        if not rel_close(m1_, e, 1e-9, 1e-12 * abs(m0_)):
            return False, 'step %d: feed mass %r, balance gives %r' % (k, m1_, e)
        c0 = pm.feed_compositions[k].p * m0_
        c1 = pm.feed_compositions[k + 1].p * m1_
        e1 = c0 - J[0] * A * dt
        if not rel_close(c1, e1, 1e-9, 1e-12 * abs(m0_)):
            return False, 'step %d: first-component mass %r, balance gives %r' % (k, c1, e1)
    return True, ''


def oracle(rng, tier):
    while True:
        cfg = po.random_config(rng)
        try:
            pm, pvo, cd = po.run(cfg)
        except po.ACCEPTABLE:
            yield {'kind': cfg['kind'] + ':raised', 'case': po.describe(cfg), 'ok': True, 'detail': '', 'nontrivial': False}
            continue
        ok, detail = check(pm, cfg, cd)
        yield {'kind': '%s:%s' % (cfg['kind'], cfg['mode']), 'case': po.describe(cfg), 'ok': ok, 'detail': detail,
               'nontrivial': cfg['n'] >= 2}


def correspondence(tier, seed):
    import corr_numeric
    budget = {'process': 24}
    if tier == 'thorough':
        budget = {k: v * 12 for k, v in budget.items()}
    return corr_numeric.run(seed, budget, nmax=30 if tier == 'quick' else 200, tag='C01')


def replay(rep):
    return True, 're-run bin/check C01 with VERIF_SEED=%s (the case embeds a synthetic mixture)' % rep.get('seed')
