"""C11 — process models scale correctly with size and with the area/time trade-off."""
from common import rel_close
import gens
import procoracle as po

FAMILIES = ['process']
BRIDGES = ['br_proc_', 'br_nonideal_']
LINT = True          # loop-shape lint of the four step loops (tracer/looplint.py)
PROPS_V = 'Props/C11.v'
EXTRA_TARGETS = ['Model/NumCheck.vo']
BUDGET = {'quick': 100, 'thorough': 3000}
ORACLE_RULE = ('random runs of the 4 process kinds x modes x mixtures, each with a size-scaled twin (factor 1e-3..1e3 on area and feed amount) and, without '
               'a programme, an area/time twin (area*q, step/q); non-trivial = at least 2 steps')
ASSUMPTIONS = ['binary64 abstracted to reals (oracle tolerance 1e-8 relative: the solver exit test is precision-gated, identical iterates expected)']
LEVEL_TEXT = ('Coq theorem (simulation by induction over the steps, all 4 kinds, any flux calculation): if A\' dt\' = s A dt and the feed mass is scaled by s > 0 '
              '(step length unchanged, or no programme) then every step reports identical fluxes, compositions, permeances, temperatures and s-times '
              'the masses and heats; corollaries: size scaling, area/time trade-off (s = 1), step-0 fluxes independent of A, m0, dt. Tie: the loop bridges.')
LEVEL_NOTE = 'binary64 abstracted to reals; tracer + kernel trusted'
TECHNIQUE = 'Coq proof (simulation relation by induction on steps) + symbolic-trace bridge lemmas of the loops'
DESIGN_REF = 'DESIGN.md section 6 C11'


def compare(pm, pm2, s, what):
    n = len(pm.time)
    if len(pm2.time) != n:
        return False, '%s: lengths differ' % what
    for k in range(n):
        for a, b, name in ((pm.partial_fluxes[k][0], pm2.partial_fluxes[k][0], 'flux1'), (pm.partial_fluxes[k][1], pm2.partial_fluxes[k][1], 'flux2'),
                           (pm.feed_compositions[k].p, pm2.feed_compositions[k].p, 'composition'),
                           (pm.feed_temperature[k], pm2.feed_temperature[k], 'temperature'),
                           (pm.permeances[k][0].value, pm2.permeances[k][0].value, 'permeance1'),
                           (s * pm.feed_mass[k], pm2.feed_mass[k], 'feed mass'),
                           (s * pm.feed_evaporation_heat[k], pm2.feed_evaporation_heat[k], 'evaporation heat')):
            if not rel_close(a, b, 1e-8, 1e-300):
                return False, '%s: step %d %s expected %r, got %r' % (what, k, name, a, b)
    return True, ''


def oracle(rng, tier):
    while True:
        cfg = po.random_config(rng)
        try:
            pm, _, _ = po.run(cfg)
        except po.ACCEPTABLE:
            yield {'kind': cfg['kind'] + ':raised', 'case': po.describe(cfg), 'ok': True, 'detail': '', 'nontrivial': False}
            continue
        s = gens.loguniform(rng, 1e-3, 1e3)
        ok, detail = True, ''
        try:
            pm2, _, _ = po.run(cfg, A=cfg['A'] * s, m0=cfg['m0'] * s)
            ok, detail = compare(pm, pm2, s, 'size x%r' % s)
        except po.ACCEPTABLE as e:
            ok, detail = False, 'size-scaled twin raised %s' % type(e).__name__
        if ok and cfg['prog'] is None:
            q = gens.loguniform(rng, 1e-3, 1e3)
            try:
                pm3, _, _ = po.run(cfg, A=cfg['A'] * q, dt=cfg['dt'] / q)
                ok, detail = compare(pm, pm3, 1.0, 'area x%r, step /%r' % (q, q))
            except po.ACCEPTABLE as e:
                ok, detail = False, 'area/time twin raised %s' % type(e).__name__
        d = po.describe(cfg)
        d['scale'] = s
        yield {'kind': '%s:%s' % (cfg['kind'], cfg['mode']), 'case': d, 'ok': ok, 'detail': detail, 'nontrivial': cfg['n'] >= 2}


def correspondence(tier, seed):
    import corr_numeric
    budget = {'process': 24}
    if tier == 'thorough':
        budget = {k: v * 12 for k, v in budget.items()}
    return corr_numeric.run(seed, budget, nmax=30 if tier == 'quick' else 200, tag='C11')


def replay(rep):
    return True, 're-run bin/check C11 with VERIF_SEED=%s' % rep.get('seed')
