"""C04 — activity-coefficient models are thermodynamically consistent."""
import math
import pyvaporation as pv
from pyvaporation.mixtures.mixture import calculate_activity_coefficients, get_partial_pressures
from common import rel_close
import gens

FAMILIES = ['mixture', 'component']
BRIDGES = ['br_act_', 'br_pp_', 'br_vp_', 'br_to_molar_']
PROPS_V = 'Props/C04.v'
PROPS_EXTRA = ['Props/C04w.v']     # refutation witness (interval arithmetic): kernel-checked by coqc, not re-checked by coqchk
EXTRA_TARGETS = ['Model/NumCheck.vo']
BUDGET = {'quick': 1500, 'thorough': 30000}
ORACLE_RULE = ('8 built-in + synthetic mixtures (NRTL with one/two alphas, with/without a12,a21, zero parameters; UNIQUAC) x mole '
               'fraction in (0,1) x T 273..400 K; Gibbs-Duhem by central differences, pure-end limits, Raoult, p = x gamma Psat, basis independence; '
               'the stored witness of finding F1 is evaluated first')
ASSUMPTIONS = ['binary64 abstracted to reals', 'finite-difference Gibbs-Duhem tolerance 2e-6 * (1 + |dlng1| + |dlng2|)']
LEVEL_TEXT = ('Coq/Coquelicot theorems for ALL parameter values: NRTL Gibbs-Duhem, pure limits (value and continuity), Raoult; UNIQUAC pure limits '
              '(formula as written and corrected), Gibbs-Duhem for the corrected second coefficient, exact Delta between the code\'s formula and '
              'the corrected one, and a machine-checked refutation witness for the formula as written (known finding F1); p_i = x_i gamma_i Psat_i and '
              'basis independence. Tie: bridge lemmas from symbolic traces of calculate_activity_coefficients / get_partial_pressures for all '
              'model x parameter-presence x basis x vapour-pressure-form configurations, against the as-written variant first, the corrected one second.')
LEVEL_NOTE = ('binary64 abstracted to reals; unknown composition-type strings outside the model; known finding F1 (UNIQUAC gamma_2) is reported, not hidden; '
              'Reals axioms + classic; Interval (primitive floats) for the refutation witness')
TECHNIQUE = 'Coq proof (Coquelicot auto_derive + field, Interval for the witness) + symbolic-trace bridge lemmas with as-is/spec variants'
DESIGN_REF = 'DESIGN.md section 6 C04'


def gd_residual(m, T, x, ct, shrink=1.0):
    h = 1e-5 * min(x, 1 - x, 0.1) * shrink
    def lng(xx):
        g = calculate_activity_coefficients(T, m, pv.Composition(p=xx, type='molar'), ct)
        return math.log(g[0]), math.log(g[1])
    a, b = lng(x + h), lng(x - h)
    d1, d2 = (a[0] - b[0]) / (2 * h), (a[1] - b[1]) / (2 * h)
    return x * d1 + (1 - x) * d2, abs(d1) + abs(d2)


def check(m, T, x, ct, rng):
    kindp = 'nrtl' if ct == 'NRTL' else 'uniquac'
    out = []
    try:
        res, scale = gd_residual(m, T, x, ct)
        if not (math.isfinite(res) and math.isfinite(scale)):
            return [(kindp + '_nonfinite', True, 'non-finite activity coefficients (overflow): skipped')]
        ok = abs(res) <= 2e-6 * (1 + scale)
        if not ok:
            # a genuine violation is stable under step refinement; truncation error shrinks 4x
            res2, _ = gd_residual(m, T, x, ct, shrink=0.5)
            res4, _ = gd_residual(m, T, x, ct, shrink=0.25)
            if abs(res2) < 0.4 * abs(res) and abs(res4) < 0.4 * abs(res2):
                ok = True
        out.append((kindp + '_gibbs_duhem', ok, 'Gibbs-Duhem residual %r (scale %r)' % (res, scale)))
        # pure limits
        eps = 1e-7
        g1 = calculate_activity_coefficients(T, m, pv.Composition(p=1 - eps, type='molar'), ct)[0]
        g2 = calculate_activity_coefficients(T, m, pv.Composition(p=eps, type='molar'), ct)[1]
        out.append((kindp + '_pure_limit', abs(g1 - 1) < 1e-4 and abs(g2 - 1) < 1e-4, 'gamma_i near pure i: %r %r' % (g1, g2)))
        # partial pressures
        c = pv.Composition(p=x, type='molar')
        g = calculate_activity_coefficients(T, m, c, ct)
        pp = get_partial_pressures(T, m, c, ct)
        e1 = m.first_component.get_vapor_pressure(T) * g[0] * x
        e2 = m.second_component.get_vapor_pressure(T) * g[1] * (1 - x)
        out.append((kindp + '_pp_formula', rel_close(pp[0], e1, 1e-12) and rel_close(pp[1], e2, 1e-12), 'p != x gamma Psat: %r vs %r' % (pp, (e1, e2))))
        w = c.to_weight(m)
        ppw = get_partial_pressures(T, m, w, ct)
        out.append((kindp + '_pp_basis', rel_close(ppw[0], pp[0], 1e-9) and rel_close(ppw[1], pp[1], 1e-9), 'basis dependence: %r vs %r' % (ppw, pp)))
        gw = calculate_activity_coefficients(T, m, w, ct)
        out.append((kindp + '_act_basis', rel_close(gw[0], g[0], 1e-9) and rel_close(gw[1], g[1], 1e-9), 'activity basis dependence'))
    except Exception as e:
        out.append((kindp + '_raised', False, 'raised %s: %s' % (type(e).__name__, e)))
    return out


def oracle(rng, tier):
    # stored witness of F1 first
    m = pv.Mixtures.H2O_EtOH
    for kind, ok, detail in check(m, 330.0, 0.5, 'UNIQUAC', rng):
        yield {'kind': kind, 'case': {'mixture': 'H2O_EtOH', 'T': 330.0, 'x': 0.5, 'model': 'UNIQUAC', 'witness': 'F1'}, 'ok': ok, 'detail': detail}
    last = None
    while True:
        m = gens.any_mixture(rng)
        if last is not None and rng.random() < 0.3:
            # same name / same temperature, different parameters (cache-adversarial)
            m = gens.random_mixture(rng, name=last[0].name)
            T = last[1]
        else:
            T = rng.choice([293.15, 313.15, 333.15, rng.uniform(273, 400)])
        x = gens.interior(rng)
        ct = rng.choice(['NRTL', 'UNIQUAC'])
        last = (m, T)
        for kind, ok, detail in check(m, T, x, ct, rng):
            yield {'kind': kind, 'case': {'mixture': gens.describe_mixture(m), 'T': T, 'x': x, 'model': ct}, 'ok': ok, 'detail': detail}
        if ct == 'NRTL' and rng.random() < 0.3:
            z = gens.random_mixture(rng, name=m.name)
            z.nrtl_params.g12 = z.nrtl_params.g21 = 0.0
            z.nrtl_params.a12 = z.nrtl_params.a21 = 0
            g = calculate_activity_coefficients(T, z, pv.Composition(p=x, type='molar'), 'NRTL')
            yield {'kind': 'nrtl_raoult', 'case': {'mixture': gens.describe_mixture(z), 'T': T, 'x': x}, 'ok': g[0] == 1 and g[1] == 1,
                   'detail': 'gamma = %r with vanishing NRTL parameters' % (g,)}


def correspondence(tier, seed):
    import corr_numeric
    budget = {'thermo': 60}
    if tier == 'thorough':
        budget = {k: v * 12 for k, v in budget.items()}
    return corr_numeric.run(seed, budget, nmax=30 if tier == 'quick' else 200, tag='C04')


def replay(rep):
    import random
    f = rep['failure']
    c = f['case']
    if isinstance(c.get('mixture'), str):
        m = getattr(pv.Mixtures, c['mixture'])
    else:
        d = c['mixture']
        m = gens.random_mixture(random.Random(0), name=d['name'])
        m.first_component.molecular_weight, m.second_component.molecular_weight = d['M1'], d['M2']
        if d['nrtl']:
            n = m.nrtl_params
            n.g12, n.g21, n.alpha12, n.alpha21, n.a12, n.a21 = d['nrtl']
        if d['uniquac']:
            u = m.uniquac_params
            u.alpha_12, u.alpha_21, u.beta_12, u.beta_21 = d['uniquac']
    res = check(m, c['T'], c['x'], c.get('model', 'NRTL'), random.Random(0))
    bad = [r for r in res if not r[1] and r[0] == f['kind']]
    return (not bad), '; '.join(r[2] for r in bad)
