"""Input generators shared by the oracles (structured, mostly valid, seeded)."""
import copy
import math

import pyvaporation as pv
from pyvaporation.utils import (HeatCapacityConstants, NRTLParameters, UNIQUACConstants,
                                UNIQUACParameters, VaporPressureConstants)

BUILTIN_MIXTURES = ['H2O_MeOH', 'H2O_EtOH', 'H2O_iPOH', 'H2O_AceticAcid', 'EtOH_ETBE', 'MeOH_Toluene',
                    'MeOH_MTBE', 'MeOH_DMC']


def builtin_mixtures():
    out = []
    for n in dir(pv.Mixtures):
        m = getattr(pv.Mixtures, n)
        if isinstance(m, pv.Mixture):
            out.append(m)
    return out


def builtin_components():
    out = []
    for n in dir(pv.Components):
        c = getattr(pv.Components, n)
        if isinstance(c, pv.Component):
            out.append(c)
    return out


def loguniform(rng, lo, hi):
    return math.exp(rng.uniform(math.log(lo), math.log(hi)))


def fresh_str(s):
    """an equal but not identical string object (what a value read from JSON / CSV / user input is)"""
    return ''.join([s[:1], s[1:]]) if isinstance(s, str) and s else s


def maybe_int(rng, x, p=0.15):
    """whole numbers given as Python ints (333 K, 2 kPa, 1 m2, 10 kg) are legal inputs: with probability p the value is
    rounded and returned as an int (vectorised rewrites that allocate arrays from the input's dtype truncate with those)"""
    if x is None or rng.random() >= p:
        return x
    return int(round(x))


def fraction(rng):
    """a fraction in [0,1]: mostly interior, sometimes within 1e-12 of an end, sometimes an end"""
    r = rng.random()
    if r < 0.70:
        return rng.uniform(0.001, 0.999)
    if r < 0.80:
        return loguniform(rng, 1e-12, 1e-3)
    if r < 0.90:
        return 1.0 - loguniform(rng, 1e-12, 1e-3)
    return rng.choice([0.0, 1.0])


def interior(rng):
    r = rng.random()
    if r < 0.8:
        return rng.uniform(0.02, 0.98)
    if r < 0.9:
        return loguniform(rng, 1e-6, 2e-2)
    return 1.0 - loguniform(rng, 1e-6, 2e-2)


def random_component(rng, name='synth', vp=None, uq=True, any_c=False):
    vp = vp or rng.choice(['antoine', 'frost'])
    if vp == 'antoine':
        cc = rng.uniform(-70, -10)
        if any_c and rng.random() < 0.4:
            # handbook Antoine sets tabulated for degrees Celsius have c > 0; c = 0 is the Clausius-Clapeyron form
            cc = rng.choice([0.0, rng.uniform(10, 260)])
        k = VaporPressureConstants(a=rng.uniform(5.5, 8.0), b=rng.uniform(-2200, -900), c=cc, type='antoine')
    else:
        k = VaporPressureConstants(a=rng.uniform(14, 20), b=rng.uniform(-6000, -3500), c=rng.uniform(-3e5, 1e5), type='frost')
    hc = [rng.uniform(20, 250), rng.uniform(-1, 1), rng.uniform(-3e-3, 3e-3), rng.uniform(-3e-6, 3e-6)]
    if rng.random() < 0.3:          # exact zeros (also interior ones) are legitimate coefficients
        for i in range(4):
            if rng.random() < 0.4:
                hc[i] = 0.0
    return pv.Component(
        name=name, molecular_weight=loguniform(rng, 10, 400), vapour_pressure_constants=k,
        heat_capacity_constants=HeatCapacityConstants(a=hc[0], b=hc[1], c=hc[2], d=hc[3]),
        uniquac_constants=UNIQUACConstants(r=rng.uniform(0.8, 5), q_geometric=rng.uniform(0.8, 5),
                                           q_interaction=rng.choice([None, rng.uniform(0.5, 4)])) if uq else None)


def random_nrtl(rng):
    two = rng.random() < 0.4
    zeroish = rng.random() < 0.15
    return NRTLParameters(
        g12=rng.uniform(-4000, 9000), g21=rng.uniform(-4000, 9000),
        alpha12=rng.choice([0.0, 0.2, 0.3, 0.47, rng.uniform(0.05, 0.6)]),
        alpha21=(rng.choice([0.0, 0.3, rng.uniform(0.05, 0.6)]) if two else None),
        a12=0 if rng.random() < 0.5 else rng.uniform(-2, 2),
        a21=0 if rng.random() < 0.5 else rng.uniform(-2, 2)) if not zeroish else NRTLParameters(
        g12=0.0, g21=0.0, alpha12=rng.choice([0.0, 0.3]), alpha21=rng.choice([None, 0.0]), a12=0, a21=0)


def random_uniquac(rng):
    return UNIQUACParameters(alpha_12=rng.uniform(-300, 600), alpha_21=rng.uniform(-300, 600),
                             beta_12=rng.uniform(-2e4, 2e4), beta_21=rng.uniform(-2e4, 2e4), z=10)


def random_mixture(rng, name=None):
    """a synthetic mixture; names are re-used on purpose (caches keyed on names must not matter)"""
    c1 = random_component(rng, 'synthA')
    c2 = random_component(rng, 'synthB')
    return pv.Mixture(name=name or rng.choice(['synth', 'H2O_EtOH', '']), first_component=c1,
                      second_component=c2, nrtl_params=random_nrtl(rng), uniquac_params=random_uniquac(rng))


def any_mixture(rng):
    if rng.random() < 0.5:
        return rng.choice(builtin_mixtures())
    return random_mixture(rng)


def swap_mixture(m):
    """the same physical mixture with the component order exchanged"""
    n = m.nrtl_params
    u = m.uniquac_params
    sn = None if n is None else NRTLParameters(
        g12=n.g21, g21=n.g12,
        alpha12=(n.alpha12 if n.alpha21 is None else n.alpha21),
        alpha21=(None if n.alpha21 is None else n.alpha12), a12=n.a21, a21=n.a12)
    su = None if u is None else UNIQUACParameters(alpha_12=u.alpha_21, alpha_21=u.alpha_12,
                                                  beta_12=u.beta_21, beta_21=u.beta_12, z=u.z)
    return pv.Mixture(name=m.name, first_component=m.second_component, second_component=m.first_component,
                      nrtl_params=sn, uniquac_params=su)


def describe_mixture(m):
    return {'name': m.name, 'M1': m.first_component.molecular_weight, 'M2': m.second_component.molecular_weight,
            'nrtl': None if m.nrtl_params is None else [m.nrtl_params.g12, m.nrtl_params.g21, m.nrtl_params.alpha12,
                                                       m.nrtl_params.alpha21, m.nrtl_params.a12, m.nrtl_params.a21],
            'uniquac': None if m.uniquac_params is None else [m.uniquac_params.alpha_12, m.uniquac_params.alpha_21,
                                                             m.uniquac_params.beta_12, m.uniquac_params.beta_21]}
