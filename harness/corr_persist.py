"""Correspondence check for the persistence layer: the Coq model (Model/Persist.v, executed with binary64 numbers by
vm_compute) against ProcessModel.save / load of the implementation on the same generated process models."""
import csv
import os
import pathlib
import random
import shutil
import subprocess
import sys
import tempfile
import time

import pyvaporation as pv
from pyvaporation.conditions import Conditions
from pyvaporation.optimizer import PervaporationFunction
from pyvaporation.process import ProcessModel
from pyvaporation.process.process import PROCESS_MODEL_COLUMNS

ROOT = os.path.dirname(os.path.dirname(os.path.abspath(__file__)))
sys.path.insert(0, os.path.join(ROOT, 'tracer'))
from sym import float_hex_coq  # noqa: E402
import gens  # noqa: E402

COQ = os.path.join(ROOT, 'coq')
UNITS = {'kg/(m2*h*kPa)': 'KG', 'SI': 'SI', 'GPU': 'GPU'}


def fl(x):
    return '(%s)' % float_hex_coq(float(x))


def opt(x):
    return 'None' if x is None else '(Some %s)' % fl(x)


def comp(c):
    return '(Build_Composition FOps %s %s)' % (fl(c.p), 'Molar' if c.type == 'molar' else 'Weight')


def perm(p):
    return '(Build_Permeance FOps %s %s)' % (fl(p.value), UNITS[p.units])


def row_text(pm, k):
    qc = pm.permeate_condensation_heat[k]
    qc = None if (qc is None or qc != qc) else qc
    return '(Build_PRow FOps %s %s %s %s (%s, %s) (%s, %s) %s %s %s)' % (
        fl(pm.time[k]), fl(pm.feed_mass[k]), comp(pm.feed_compositions[k]), fl(pm.feed_temperature[k]),
        perm(pm.permeances[k][0]), perm(pm.permeances[k][1]), fl(pm.partial_fluxes[k][0]), fl(pm.partial_fluxes[k][1]),
        comp(pm.permeate_composition[k]), fl(pm.feed_evaporation_heat[k]), opt(qc))


def random_model(rng, tmp):
    m = rng.choice(gens.builtin_mixtures())
    n = rng.randint(1, 6)
    units = rng.choice(list(UNITS))
    ctype = rng.choice(['weight', 'weight', 'molar'])
    tp = rng.choice([None, rng.uniform(150, 300)])
    pp = None if tp is not None else rng.choice([None, 0.0, rng.uniform(0, 5)])
    mag = lambda: gens.loguniform(rng, 1e-9, 1e3)
    pm = ProcessModel(
        mixture=m, membrane_name='corr_membrane', feed_temperature=[rng.uniform(280, 380) for _ in range(n)],
        feed_compositions=[pv.Composition(p=rng.uniform(0, 1), type=ctype) for _ in range(n)],
        permeate_composition=[pv.Composition(p=rng.uniform(0, 1), type='weight') for _ in range(n)],
        permeate_temperature=[tp] * n, permeate_pressure=[pp] * n, feed_mass=[mag() for _ in range(n)],
        partial_fluxes=[(mag(), mag()) for _ in range(n)],
        permeances=[(pv.Permeance(mag(), units), pv.Permeance(mag(), units)) for _ in range(n)],
        time=[0.25 * k for k in range(n)], feed_evaporation_heat=[mag() for _ in range(n)],
        permeate_condensation_heat=[(mag() if tp is not None else None) for _ in range(n)],
        initial_conditions=Conditions(membrane_area=mag(), initial_feed_temperature=333.15, initial_feed_amount=mag(),
                                      initial_feed_composition=pv.Composition(p=0.3, type=ctype), permeate_temperature=tp, permeate_pressure=pp),
        permeance_fits=(rng.choice([None, (PervaporationFunction(n=1, m=0, alpha=mag(), a=[rng.uniform(-1, 1)], b=[rng.uniform(0, 3000)]),
                                            PervaporationFunction(n=0, m=1, alpha=mag(), a=[], b=[rng.uniform(0, 3000), 1.5]))])),
        comments='corr', membrane_path=tmp)
    return pm, m, units


def cell(col, text):
    if col in ('membrane_name',):
        return '@CName FOps 1'
    if col == 'mixture':
        return '@CName FOps 2'
    if col == 'comment':
        return '@CName FOps 3'
    if col in ('composition_type', 'permeate_composition_type'):
        return '@CCType FOps %s' % ('Molar' if text == 'molar' else 'Weight')
    if col == 'units':
        return '@CUnits FOps %s' % UNITS[text]
    if text == '':
        return '@CEmpty FOps'
    return '@CNum FOps %s' % fl(float(text))


# ---------------------------------------------------------------- diffusion curves and JSON forms
DC_TAGS = {'curve_id': 0, 'membrane_name': 1, 'mixture': 2, 'comment': 3}


def dc_cell(col, text):
    if col in DC_TAGS:
        return '@CName FOps %d' % DC_TAGS[col]
    if col == 'composition_type':
        return '@CCType FOps %s' % ('Molar' if text == 'molar' else 'Weight')
    if col == 'units':
        return '@CEmpty FOps' if text == '' else '@CUnits FOps %s' % UNITS[text]
    if text == '':
        return '@CEmpty FOps'
    return '@CNum FOps %s' % fl(float(text))


def curve_text(c):
    return '(Build_Curve FOps %s [%s] [%s] %s %s [%s])' % (
        fl(c.feed_temperature), '; '.join(comp(x) for x in c.feed_compositions),
        '; '.join('(%s, %s)' % (fl(j[0]), fl(j[1])) for j in c.partial_fluxes), opt(c.permeate_temperature), opt(c.permeate_pressure),
        '; '.join('(%s, %s)' % (perm(q[0]), perm(q[1])) for q in c.permeances))


def random_curve(rng, m=None):
    from pyvaporation.diffusion_curve import DiffusionCurve
    m = m or rng.choice(gens.builtin_mixtures())
    n = rng.randint(1, 5)
    ctype = rng.choice(['weight', 'molar'])
    mixed = rng.random() < 0.35       # every point carries its own basis
    xs = [pv.Composition(p=rng.uniform(0.02, 0.98), type=(rng.choice(['weight', 'molar']) if mixed else ctype)) for _ in range(n)]
    T = rng.uniform(290, 370)
    mode = rng.choice(['vac', 'temp', 'press'])
    tp = rng.uniform(150, 260) if mode == 'temp' else None
    pp = rng.choice([0.0, rng.uniform(0, 0.3)]) if mode == 'press' else None
    mag = lambda: gens.loguniform(rng, 1e-9, 1e1)
    units = rng.choice(list(UNITS))
    how = rng.choice(['J', 'P', 'both'])
    kw = {}
    if how in ('J', 'both'):
        kw['partial_fluxes'] = [(mag(), mag()) for _ in range(n)]
    if how in ('P', 'both'):
        kw['permeances'] = [(pv.Permeance(mag(), 'kg/(m2*h*kPa)').convert(units, m.first_component),
                             pv.Permeance(mag(), 'kg/(m2*h*kPa)').convert(units, m.second_component)) for _ in range(n)]
    c = DiffusionCurve(mixture=m, membrane_name='corr_membrane', feed_temperature=T, feed_compositions=xs,
                       permeate_temperature=tp, permeate_pressure=pp, comments='corr', **kw)
    return c, m, dict(points=n, basis=('mixed' if mixed else ctype), mode=mode, built_from=how, units=units)


def curve_items(rng, tmp, ncases, items, samples, dist):
    """DiffusionCurve.save -> csv cells -> DiffusionCurveSet.load, against save_curve / load_curve of the model;
    every third case blanks columns of the written file (a hand-edited / partial data file) before loading"""
    from pyvaporation.diffusion_curve import DiffusionCurveSet
    from pyvaporation.diffusion_curve.diffusion_curve import DC_SET_COLUMNS
    import corr_numeric
    for k in range(ncases):
        try:
            c, m, info = random_curve(rng)
        except (ValueError, ZeroDivisionError):
            continue
        path = os.path.join(tmp, 'curve_%d.csv' % k)
        c.save(path)
        with open(path) as f:
            rd = list(csv.reader(f))
        header, lines = rd[0], rd[1:]
        if header != DC_SET_COLUMNS:
            items.append(('false', 'curve header %r' % header))
            continue
        table = '[%s]' % '; '.join('[%s]' % '; '.join(dc_cell(cn, t) for cn, t in zip(header, ln)) for ln in lines)
        expr_save = '(saved_same (save_curve FOps 0 1 2 3 %s) %s)' % (curve_text(c), table)
        blank = [None, None, 'P', 'J', 'both', 'P1'][k % 6]
        if blank:
            cols = {'P': ['permeance_1', 'permeance_2', 'units'], 'J': ['partial_flux_1', 'partial_flux_2'],
                    'both': ['permeance_1', 'partial_flux_2'], 'P1': ['permeance_1']}[blank]
            rows = [list(ln) for ln in lines]
            for r_i, ln in enumerate(rows):
                if blank == 'P1' and r_i != len(rows) - 1:
                    continue            # a single hole in the last line only
                for cn in cols:
                    ln[header.index(cn)] = ''
            with open(path, 'w', newline='') as f:
                csv.writer(f).writerows([header] + rows)
            lines = rows
            table = '[%s]' % '; '.join('[%s]' % '; '.join(dc_cell(cn, t) for cn, t in zip(header, ln)) for ln in lines)
        try:
            loaded = DiffusionCurveSet.load(pathlib.Path(path)).diffusion_curves[0]
            ltxt = '(Some %s)' % curve_text(loaded)
            if not all(x.type == 'weight' for x in loaded.feed_compositions):
                items.append(('false', 'curve re-loaded with a non-mass-fraction composition'))
        except (ValueError, ZeroDivisionError, TypeError):
            ltxt = 'None'
        # the model needs real partial pressures only when a flux or permeance column is (partly) missing
        if blank:
            mix = corr_numeric.mixture(m)
            ppf = '(real_PP FOps %s)' % mix
        else:
            mix = '(mk_mix %s %s)' % (fl(m.first_component.molecular_weight), fl(m.second_component.molecular_weight))
            ppf = 'noPP'
        expr_load = '(curve_close (load_curve FOps %s %s %s) %s)' % (ppf, mix, table, ltxt)
        info['blanked'] = blank or 'nothing'
        info['load'] = 'raised' if ltxt == 'None' else 'loaded'
        items.append(('%s && %s' % (expr_save, expr_load), 'curve %r' % info))
        key = 'curve:%s:%s' % (info['built_from'], info['blanked'])
        dist[key] = dist.get(key, 0) + 1
        if sum(1 for s_ in samples if s_.get('kind') == 'curve') < 1:
            samples.append({'kind': 'curve', **info, 'first_csv_line': lines[0]})


def set_items(rng, tmp, ncases, items, samples, dist):
    """a curve-set file holding several curves (2-4 curves saved by DiffusionCurve.save, re-labelled with distinct numeric
    identifiers in arbitrary order, their lines shuffled together) -> DiffusionCurveSet.load, against load_set of the model:
    same number of curves, ascending identifier order, each curve from its own lines in file order"""
    from pyvaporation.diffusion_curve import DiffusionCurveSet
    from pyvaporation.diffusion_curve.diffusion_curve import DC_SET_COLUMNS
    for k in range(ncases):
        m = rng.choice(gens.builtin_mixtures())
        ncur = rng.randint(2, 4)
        ids = rng.sample(range(0, 60), ncur)
        rows = []
        try:
            for ci in range(ncur):
                c, _, info = random_curve(rng, m)
                path = os.path.join(tmp, 'setpart_%d_%d.csv' % (k, ci))
                c.save(path)
                with open(path) as f:
                    rd = list(csv.reader(f))
                header = rd[0]
                for ln in rd[1:]:
                    ln[header.index('curve_id')] = str(ids[ci])
                    rows.append(ln)
        except (ValueError, ZeroDivisionError):
            continue
        if header != DC_SET_COLUMNS:
            items.append(('false', 'set header %r' % header))
            continue
        how = rng.choice(['blocks', 'shuffled', 'shuffled'])
        if how == 'shuffled':
            rng.shuffle(rows)
        path = os.path.join(tmp, 'set_%d.csv' % k)
        with open(path, 'w', newline='') as f:
            csv.writer(f).writerows([header] + rows)
        cellf = lambda cn, t: ('@CName FOps %d' % int(t)) if cn == 'curve_id' else dc_cell(cn, t)
        table = '[%s]' % '; '.join('[%s]' % '; '.join(cellf(cn, t) for cn, t in zip(header, ln)) for ln in rows)
        try:
            loaded = DiffusionCurveSet.load(pathlib.Path(path)).diffusion_curves
            ltxt = '(Some [%s])' % '; '.join(curve_text(c) for c in loaded)
        except (ValueError, ZeroDivisionError, TypeError):
            ltxt = 'None'
        mix = '(mk_mix %s %s)' % (fl(m.first_component.molecular_weight), fl(m.second_component.molecular_weight))
        items.append(('(set_close (load_set FOps noPP %s %s) %s)' % (mix, table, ltxt),
                      'curve set: %d curves, ids %r, lines %s, %s' % (ncur, ids, how, 'raised' if ltxt == 'None' else 'loaded')))
        key = 'set:%d:%s' % (ncur, how)
        dist[key] = dist.get(key, 0) + 1
        if sum(1 for s_ in samples if s_.get('kind') == 'set') < 1:
            samples.append({'kind': 'set', 'curves': ncur, 'ids': ids, 'lines': how, 'first_csv_line': rows[0]})


JKEYS = {'n': 'K_n', 'm': 'K_m', 'alpha': 'K_alpha', 'a': 'K_a', 'b': 'K_b', 'membrane_area': 'K_area',
         'initial_feed_temperature': 'K_T0', 'initial_feed_amount': 'K_m0', 'initial_feed_composition_value': 'K_xval',
         'initial_feed_composition_type': 'K_xtype', 'permeate_temperature': 'K_Tp', 'permeate_pressure': 'K_pp'}


def jval(key, v):
    if v is None:
        return '(@JNull FOps)'
    if key in ('n', 'm'):
        return '(@JNat FOps %d)' % v
    if key in ('a', 'b'):
        return '(@JList FOps [%s])' % '; '.join(fl(e) for e in v)
    if key == 'initial_feed_composition_type':
        return '(@JCType FOps %s)' % ('Molar' if v == 'molar' else 'Weight')
    return '(@JNum FOps %s)' % fl(v)


def jobj(d):
    unknown = [k for k in d if k not in JKEYS]
    if unknown:
        return None
    return '[%s]' % '; '.join('(%s, %s)' % (JKEYS[k], jval(k, v)) for k, v in d.items())


def pf_text(f):
    return '(Build_PervFn FOps %d %d %s [%s] [%s])' % (f.n, f.m, fl(f.alpha), '; '.join(fl(e) for e in f.a), '; '.join(fl(e) for e in f.b))


def cond_text(c):
    return '(Build_Conditions FOps %s %s %s %s %s %s None)' % (fl(c.membrane_area), fl(c.initial_feed_temperature), fl(c.initial_feed_amount),
                                                             comp(c.initial_feed_composition), opt(c.permeate_temperature), opt(c.permeate_pressure))


def json_items(rng, tmp, ncases, items, samples, dist):
    import json
    from pyvaporation.conditions import TemperatureProgram
    for k in range(ncases):
        mag = lambda: gens.loguniform(rng, 1e-9, 1e3)
        n, m_ = rng.randint(0, 3), rng.randint(0, 3)
        f = PervaporationFunction(n=n, m=m_, alpha=mag(), a=[rng.uniform(-5, 5) for _ in range(n)], b=[rng.uniform(-3000, 3000) for _ in range(m_ + 1)])
        path = os.path.join(tmp, 'pf_%d.json' % k)
        f.safe_save(path)
        d = json.load(open(path))
        g = PervaporationFunction.safe_load(path)
        o = jobj(d)
        if o is None:
            items.append(('false', 'function json has unknown keys %r' % sorted(d)))
        else:
            items.append(('(jobj_same (pf_to_json FOps %s) %s) && (pf_same (pf_from_json FOps %s) %s)' % (pf_text(f), o, o, pf_text(g)), 'function n=%d m=%d' % (n, m_)))
        dist['function_json'] = dist.get('function_json', 0) + 1
        # binary form: joblib is an oracle, the re-loaded object must be field-for-field identical
        bpath = os.path.join(tmp, 'pf_%d.pf' % k)
        f.save(bpath)
        h = PervaporationFunction.load(bpath)
        items.append(('(pf_same (Ok %s) %s)' % (pf_text(f), pf_text(h)), 'function binary n=%d m=%d' % (n, m_)))
        tp = rng.choice([None, rng.uniform(150, 300)])
        pp = None if tp is not None else rng.choice([None, 0.0, rng.uniform(0, 5)])
        prog = rng.choice([None, TemperatureProgram(coefficients=[333.0, 1.0])])
        c = Conditions(membrane_area=mag(), initial_feed_temperature=rng.uniform(280, 380), initial_feed_amount=mag(),
                       initial_feed_composition=pv.Composition(p=rng.choice([0.0, 1.0, rng.uniform(0, 1)]), type=rng.choice(['weight', 'molar'])),
                       permeate_temperature=tp, permeate_pressure=pp, temperature_program=prog)
        path = os.path.join(tmp, 'cond_%d.json' % k)
        c.safe_save(path)
        d = json.load(open(path))
        if k % 4 == 3:       # a hand-edited file with an out-of-range composition value: rejected by both sides
            d['initial_feed_composition_value'] = rng.choice([-0.25, 1.5])
            json.dump(d, open(path, 'w'))
        try:
            e = Conditions.safe_load(path)
            etxt = '(Some %s)' % cond_text(e)
            if e.temperature_program is not None:
                items.append(('false', 'conditions re-loaded with a temperature programme'))
        except ValueError:
            etxt = 'None'
        o = jobj(d)
        if o is None:
            items.append(('false', 'conditions json has unknown keys %r' % sorted(d)))
        else:
            save_ok = 'true' if k % 4 == 3 else '(jobj_same (cond_to_json FOps %s) %s)' % (cond_text(c), o)
            items.append(('%s && (cond_same (cond_from_json FOps %s) %s)' % (save_ok, o, etxt), 'conditions tp=%r pp=%r edited=%s' % (tp, pp, k % 4 == 3)))
        dist['conditions_json' + (':edited' if k % 4 == 3 else '')] = dist.get('conditions_json' + (':edited' if k % 4 == 3 else ''), 0) + 1
        if sum(1 for s_ in samples if s_.get('kind') == 'json') < 1:
            samples.append({'kind': 'json', 'function': json.load(open(os.path.join(tmp, 'pf_%d.json' % k))), 'conditions': d})


def run(seed, ncases, timeout=600):
    rng = random.Random(seed)
    tmp = tempfile.mkdtemp(prefix='verif_corr_persist_')
    items, samples = [], []
    try:
        for k in range(ncases):
            mdir = os.path.join(tmp, 'm%d' % k)
            os.makedirs(mdir)
            pm, m, units = random_model(rng, mdir)
            safe = rng.random() < 0.5
            pm.save(mdir, is_safe=safe)
            pdir = [d for d in os.listdir(os.path.join(mdir, 'results'))]
            assert len(pdir) == 1
            ppath = os.path.join(mdir, 'results', pdir[0])
            with open(os.path.join(ppath, 'process_model.csv')) as f:
                rd = list(csv.reader(f))
            header, lines = rd[0], rd[1:]
            if header != PROCESS_MODEL_COLUMNS:
                items.append(('false', 'header %r' % header))
                continue
            table = '[%s]' % '; '.join('[%s]' % '; '.join(cell(c, t) for c, t in zip(header, ln)) for ln in lines)
            loaded = ProcessModel.load(ppath, is_safe=safe)
            n = len(pm.time)
            lrows = '[%s]' % '; '.join(row_text(loaded, i) for i in range(len(loaded.time)))
            rows = '[%s]' % '; '.join(row_text(pm, i) for i in range(n))
            tp, pp = pm.permeate_temperature[0], pm.permeate_pressure[0]
            mix = '(mk_mix %s %s)' % (fl(m.first_component.molecular_weight), fl(m.second_component.molecular_weight))
            ltp = loaded.permeate_temperature
            lpp = loaded.permeate_pressure
            expr = ('(table_eqb true (save_process FOps 1 2 3 %s %s %s) %s) && '
                    '(loaded_close (load_process FOps %s %s) (%s, %s, %s))') % (rows, opt(tp), opt(pp), table, mix, table, lrows, opt(ltp), opt(lpp))
            items.append((expr, 'n=%d units=%s safe=%s' % (n, units, safe)))
            if len(samples) < 2:
                samples.append({'rows': n, 'units': units, 'is_safe': safe, 'first_csv_line': lines[0]})
        dist = {'process': len(items)}
        curve_items(rng, tmp, ncases, items, samples, dist)
        set_items(rng, tmp, max(4, ncases // 3), items, samples, dist)
        json_items(rng, tmp, max(4, ncases // 2), items, samples, dist)
    finally:
        shutil.rmtree(tmp, ignore_errors=True)
    os.makedirs(os.path.join(COQ, 'cases'), exist_ok=True)
    path = os.path.join(COQ, 'cases', 'Persist_corr.v')
    with open(path, 'w') as f:
        f.write('(* GENERATED by harness/corr_persist.py *)\nFrom Coq Require Import ZArith List Bool PrimFloat.\n'
                'From PV Require Import Num FNum PyBase Model.Component Model.Mixture Model.Permeance Model.Solver Model.Process Model.Curve Model.Persist Model.PersistCheck Model.PersistCurve Model.PersistCurveCheck.\n'
                'Import ListNotations.\nOpen Scope bool_scope.\n')
        f.write('Definition results : list bool := [\n%s\n].\n' % ';\n'.join('(%s)' % e for e, _ in items))
        f.write('Eval vm_compute in results.\n')
    t0 = time.time()
    p = subprocess.run('timeout %d coqc -R . PV cases/Persist_corr.v' % timeout, shell=True, cwd=COQ, stdout=subprocess.PIPE, stderr=subprocess.STDOUT, text=True)
    out = p.stdout
    import re
    vals = re.findall(r'\b(true|false)\b', out.split(': list bool')[0]) if p.returncode == 0 else []
    bad = [items[i][1] for i, v in enumerate(vals) if v == 'false']
    for ext in ('.vo', '.vos', '.vok', '.glob'):
        try:
            os.remove(path[:-2] + ext)
        except OSError:
            pass
    ok = p.returncode == 0 and len(vals) == len(items) and not bad
    return {'ok': ok, 'cases': len(items), 'disagreements': bad if p.returncode == 0 else ['coqc failed: ' + out[-800:]],
            'wall_s': round(time.time() - t0, 1), 'samples': samples, 'distribution': dist}


if __name__ == '__main__':
    print(run(int(os.environ.get('VERIF_SEED', '1')), 12))
