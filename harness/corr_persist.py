"""Correspondence check for the persistence layer: the Coq model (Model/Persist.v, executed with binary64 numbers by
vm_compute) against ProcessModel.save / load of the implementation on the same generated process models."""
import csv
import os
import random
import shutil
import subprocess
import sys
import tempfile
import time

import pyvaporation as pv
from pyvaporation.conditions import Conditions
from pyvaporation.optimizer import PervaporationFunction
from pyvaporation.process import ProcessModel
from pyvaporation.process.process import PROCESS_MODEL_COLUMNS

ROOT = os.path.dirname(os.path.dirname(os.path.abspath(__file__)))
sys.path.insert(0, os.path.join(ROOT, 'tracer'))
from sym import float_hex_coq  # noqa: E402
import gens  # noqa: E402

COQ = os.path.join(ROOT, 'coq')
UNITS = {'kg/(m2*h*kPa)': 'KG', 'SI': 'SI', 'GPU': 'GPU'}


def fl(x):
    return '(%s)' % float_hex_coq(float(x))


def opt(x):
    return 'None' if x is None else '(Some %s)' % fl(x)


def comp(c):
    return '(Build_Composition FOps %s %s)' % (fl(c.p), 'Molar' if c.type == 'molar' else 'Weight')


def perm(p):
    return '(Build_Permeance FOps %s %s)' % (fl(p.value), UNITS[p.units])


def row_text(pm, k):
    qc = pm.permeate_condensation_heat[k]
    qc = None if (qc is None or qc != qc) else qc
    return '(Build_PRow FOps %s %s %s %s (%s, %s) (%s, %s) %s %s %s)' % (
        fl(pm.time[k]), fl(pm.feed_mass[k]), comp(pm.feed_compositions[k]), fl(pm.feed_temperature[k]),
        perm(pm.permeances[k][0]), perm(pm.permeances[k][1]), fl(pm.partial_fluxes[k][0]), fl(pm.partial_fluxes[k][1]),
        comp(pm.permeate_composition[k]), fl(pm.feed_evaporation_heat[k]), opt(qc))


def random_model(rng, tmp):
    m = rng.choice(gens.builtin_mixtures())
    n = rng.randint(1, 6)
    units = rng.choice(list(UNITS))
    ctype = rng.choice(['weight', 'weight', 'molar'])
    tp = rng.choice([None, rng.uniform(150, 300)])
    pp = None if tp is not None else rng.choice([None, rng.uniform(0, 5)])
    mag = lambda: gens.loguniform(rng, 1e-9, 1e3)
    pm = ProcessModel(
        mixture=m, membrane_name='corr_membrane', feed_temperature=[rng.uniform(280, 380) for _ in range(n)],
        feed_compositions=[pv.Composition(p=rng.uniform(0, 1), type=ctype) for _ in range(n)],
        permeate_composition=[pv.Composition(p=rng.uniform(0, 1), type='weight') for _ in range(n)],
        permeate_temperature=[tp] * n, permeate_pressure=[pp] * n, feed_mass=[mag() for _ in range(n)],
        partial_fluxes=[(mag(), mag()) for _ in range(n)],
        permeances=[(pv.Permeance(mag(), units), pv.Permeance(mag(), units)) for _ in range(n)],
        time=[0.25 * k for k in range(n)], feed_evaporation_heat=[mag() for _ in range(n)],
        permeate_condensation_heat=[(mag() if tp is not None else None) for _ in range(n)],
        initial_conditions=Conditions(membrane_area=mag(), initial_feed_temperature=333.15, initial_feed_amount=mag(),
                                      initial_feed_composition=pv.Composition(p=0.3, type=ctype), permeate_temperature=tp, permeate_pressure=pp),
        permeance_fits=(rng.choice([None, (PervaporationFunction(n=1, m=0, alpha=mag(), a=[rng.uniform(-1, 1)], b=[rng.uniform(0, 3000)]),
                                            PervaporationFunction(n=0, m=1, alpha=mag(), a=[], b=[rng.uniform(0, 3000), 1.5]))])),
        comments='corr', membrane_path=tmp)
    return pm, m, units


def cell(col, text):
    if col in ('membrane_name',):
        return '@CName FOps 1'
    if col == 'mixture':
        return '@CName FOps 2'
    if col == 'comment':
        return '@CName FOps 3'
    if col in ('composition_type', 'permeate_composition_type'):
        return '@CCType FOps %s' % ('Molar' if text == 'molar' else 'Weight')
    if col == 'units':
        return '@CUnits FOps %s' % UNITS[text]
    if text == '':
        return '@CEmpty FOps'
    return '@CNum FOps %s' % fl(float(text))


def run(seed, ncases, timeout=600):
    rng = random.Random(seed)
    tmp = tempfile.mkdtemp(prefix='verif_corr_persist_')
    items, samples = [], []
    try:
        for k in range(ncases):
            mdir = os.path.join(tmp, 'm%d' % k)
            os.makedirs(mdir)
            pm, m, units = random_model(rng, mdir)
            safe = rng.random() < 0.5
            pm.save(mdir, is_safe=safe)
            pdir = [d for d in os.listdir(os.path.join(mdir, 'results'))]
            assert len(pdir) == 1
            ppath = os.path.join(mdir, 'results', pdir[0])
            with open(os.path.join(ppath, 'process_model.csv')) as f:
                rd = list(csv.reader(f))
            header, lines = rd[0], rd[1:]
            if header != PROCESS_MODEL_COLUMNS:
                items.append(('false', 'header %r' % header))
                continue
            table = '[%s]' % '; '.join('[%s]' % '; '.join(cell(c, t) for c, t in zip(header, ln)) for ln in lines)
            loaded = ProcessModel.load(ppath, is_safe=safe)
            n = len(pm.time)
            lrows = '[%s]' % '; '.join(row_text(loaded, i) for i in range(len(loaded.time)))
            rows = '[%s]' % '; '.join(row_text(pm, i) for i in range(n))
            tp, pp = pm.permeate_temperature[0], pm.permeate_pressure[0]
            mix = '(mk_mix %s %s)' % (fl(m.first_component.molecular_weight), fl(m.second_component.molecular_weight))
            ltp = loaded.permeate_temperature
            lpp = loaded.permeate_pressure
            expr = ('(table_eqb true (save_process FOps 1 2 3 %s %s %s) %s) && '
                    '(loaded_close (load_process FOps %s %s) (%s, %s, %s))') % (rows, opt(tp), opt(pp), table, mix, table, lrows, opt(ltp), opt(lpp))
            items.append((expr, 'n=%d units=%s safe=%s' % (n, units, safe)))
            if len(samples) < 2:
                samples.append({'rows': n, 'units': units, 'is_safe': safe, 'first_csv_line': lines[0]})
    finally:
        shutil.rmtree(tmp, ignore_errors=True)
    os.makedirs(os.path.join(COQ, 'cases'), exist_ok=True)
    path = os.path.join(COQ, 'cases', 'Persist_corr.v')
    with open(path, 'w') as f:
        f.write('(* GENERATED by harness/corr_persist.py *)\nFrom Coq Require Import ZArith List Bool PrimFloat.\n'
                'From PV Require Import Num FNum PyBase Model.Component Model.Mixture Model.Permeance Model.Solver Model.Process Model.Persist Model.PersistCheck.\n'
                'Import ListNotations.\nOpen Scope bool_scope.\n')
        f.write('Definition results : list bool := [\n%s\n].\n' % ';\n'.join('(%s)' % e for e, _ in items))
        f.write('Eval vm_compute in results.\n')
    t0 = time.time()
    p = subprocess.run('timeout %d coqc -R . PV cases/Persist_corr.v' % timeout, shell=True, cwd=COQ, stdout=subprocess.PIPE, stderr=subprocess.STDOUT, text=True)
    out = p.stdout
    import re
    vals = re.findall(r'\b(true|false)\b', out.split(': list bool')[0]) if p.returncode == 0 else []
    bad = [items[i][1] for i, v in enumerate(vals) if v == 'false']
    for ext in ('.vo', '.vos', '.vok', '.glob'):
        try:
            os.remove(path[:-2] + ext)
        except OSError:
            pass
    ok = p.returncode == 0 and len(vals) == len(items) and not bad
    return {'ok': ok, 'cases': len(items), 'disagreements': bad if p.returncode == 0 else ['coqc failed: ' + out[-800:]],
            'wall_s': round(time.time() - t0, 1), 'samples': samples}


if __name__ == '__main__':
    print(run(int(os.environ.get('VERIF_SEED', '1')), 12))
