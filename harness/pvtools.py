"""Helpers for oracles that drive the real Pervaporation API."""
import math
import pyvaporation as pv
from pyvaporation.experiments import IdealExperiment, IdealExperiments
from pyvaporation.pervaporation import Pervaporation
import gens


def simple_membrane(m, P1, P2, T=333.15, Ea1=20000.0, Ea2=40000.0, name='oracle_membrane', units='kg/(m2*h*kPa)', extra=()):
    """extra: further experiments (dT, f1, f2) per component at T + dT with permeances P * f — measured series are in
    general not mutually Arrhenius-consistent, so which experiment is nearest matters"""
    exps = [IdealExperiment(name='e1', temperature=T, component=m.first_component,
                            permeance=pv.Permeance(value=P1, units=units), activation_energy=Ea1),
            IdealExperiment(name='e2', temperature=T, component=m.second_component,
                            permeance=pv.Permeance(value=P2, units=units), activation_energy=Ea2)]
    for k, (dT, f1, f2) in enumerate(extra):
        exps.append(IdealExperiment(name='x1_%d' % k, temperature=T + dT, component=m.first_component,
                                    permeance=pv.Permeance(value=P1 * f1, units=units), activation_energy=Ea1))
        exps.append(IdealExperiment(name='x2_%d' % k, temperature=T + dT, component=m.second_component,
                                    permeance=pv.Permeance(value=P2 * f2, units=units), activation_energy=Ea2))
    return pv.Membrane(name=name, ideal_experiments=IdealExperiments(experiments=exps))


class EvalBudgetExceeded(BaseException):
    """raised by the harness-side counter (never by the code under test) when a single flux calculation
    has made more driving-force evaluations than any cap would allow"""


EVAL_BUDGET = 40000


class Counting(Pervaporation):
    """harness-side wrapper counting driving-force evaluations and remembering the last permeate composition"""

    def get_partial_fluxes_from_permeate_composition(self, *a, **kw):
        self.__dict__['n_evals'] = self.__dict__.get('n_evals', 0) + 1
        self.__dict__['last_kw'] = kw
        if self.__dict__['n_evals'] > EVAL_BUDGET:
            raise EvalBudgetExceeded('more than %d driving-force evaluations in one flux calculation' % EVAL_BUDGET)
        return Pervaporation.get_partial_fluxes_from_permeate_composition(self, *a, **kw)


def random_feed_state(rng):
    m = gens.any_mixture(rng)
    ct = rng.choice(['NRTL', 'UNIQUAC'])
    T = rng.uniform(273, 400)
    x = gens.interior(rng)
    basis = rng.choice(['weight', 'molar'])
    P1 = gens.loguniform(rng, 1e-6, 1)
    P2 = gens.loguniform(rng, 1e-6, 1)
    mode = rng.choice(['vac', 'temp', 'press', 'press0'])
    Tp = pp = None
    if mode == 'temp':
        Tp = rng.uniform(120, T) if rng.random() < 0.7 else T - gens.loguniform(rng, 1e-3, 30)
    elif mode == 'press':
        pp = rng.uniform(0, 100) if rng.random() < 0.5 else gens.loguniform(rng, 1e-4, 100)
    elif mode == 'press0':
        pp = 0.0
    prec = gens.loguniform(rng, 1e-8, 1e-3)
    T, Tp, pp = gens.maybe_int(rng, T, 0.1), gens.maybe_int(rng, Tp, 0.1), gens.maybe_int(rng, pp, 0.2)
    return dict(m=m, ct=ct, T=T, x=x, basis=basis, P1=P1, P2=P2, mode=mode, Tp=Tp, pp=pp, prec=prec)


def describe_state(s):
    d = {k: v for k, v in s.items() if k != 'm'}
    d['mixture'] = gens.describe_mixture(s['m'])
    return d


def finite(*xs):
    return all(isinstance(x, (int, float)) and math.isfinite(x) for x in xs)


_REAL = {}


def real_curve_sets():
    """the measured diffusion-curve sets shipped with the repository's tests (realistic, multi-temperature data on which
    the Powell optimiser is known to run out of evaluations for higher orders); [] when the data files are absent"""
    import glob
    import os
    import pathlib
    import pyvaporation
    from pyvaporation.diffusion_curve import DiffusionCurveSet
    root = os.path.join(os.path.dirname(os.path.dirname(os.path.abspath(pyvaporation.__file__))), 'tests', 'default_membranes')
    if root not in _REAL:
        out = []
        for p in sorted(glob.glob(os.path.join(root, '*', 'diffusion_curve_sets', '*.csv'))):
            try:
                cs = DiffusionCurveSet.load(pathlib.Path(p))
                if sum(len(c) for c in cs.diffusion_curves) >= 6:
                    out.append((os.path.relpath(p, root), cs))
            except Exception:
                pass
        _REAL[root] = out
    return _REAL[root]
