"""Numeric correspondence (L2b): the Gallina model instantiated at binary64 (FOps, coq/FNum.v) is EXECUTED inside Coq
(vm_compute) on generated inputs and compared with what the implementation returned on the same inputs:
thermodynamics, membrane, flux solver, diffusion curves and whole process trajectories (arbitrary step counts)."""
import math
import os
import random
import re
import subprocess
import sys
import time

import numpy
import pyvaporation as pv
import pyvaporation.pervaporation.pervaporation as PVM
from pyvaporation.diffusion_curve import DiffusionCurve
from pyvaporation.mixtures.mixture import calculate_activity_coefficients, get_partial_pressures
from pyvaporation.optimizer import Measurements

ROOT = os.path.dirname(os.path.dirname(os.path.abspath(__file__)))
sys.path.insert(0, os.path.join(ROOT, 'tracer'))
from sym import float_hex_coq  # noqa: E402
import gens  # noqa: E402
import pvtools  # noqa: E402
import procoracle as po  # noqa: E402

COQ = os.path.join(ROOT, 'coq')
UNITS = {'kg/(m2*h*kPa)': 'KG', 'SI': 'SI', 'GPU': 'GPU'}
ACC = (ValueError, ZeroDivisionError, OverflowError, FloatingPointError)


def fl(x):
    return '(%s)' % float_hex_coq(float(x))


def opt(x):
    return 'None' if x is None else '(Some %s)' % fl(x)


def comp(c):
    return '(Build_Composition FOps %s %s)' % (fl(c.p), 'Molar' if c.type == 'molar' else 'Weight')


def perm(p):
    return '(Build_Permeance FOps %s %s)' % (fl(p.value), UNITS.get(p.units, '(OtherUnit 1)'))


def component(c, tag):
    k, h = c.vapour_pressure_constants, c.heat_capacity_constants
    vpt = {'antoine': 'Antoine', 'frost': 'Frost'}.get(k.type, 'OtherVP')
    u = c.uniquac_constants
    uq = 'None' if u is None else '(Some (Build_UQConst FOps %s %s %s))' % (fl(u.r), fl(u.q_geometric), fl(u.q_interaction))
    return '(Build_Component FOps %d %s (Build_VPConst FOps %s %s %s %s) (Build_HCConst FOps %s %s %s %s) %s)' % (
        tag, fl(c.molecular_weight), vpt, fl(k.a), fl(k.b), fl(k.c), fl(h.a), fl(h.b), fl(h.c), fl(h.d), uq)


def mixture(m):
    n, u = m.nrtl_params, m.uniquac_params
    nt = 'None' if n is None else '(Some (Build_NRTLParams FOps %s %s %s %s %s %s))' % (
        fl(n.g12), fl(n.g21), fl(n.alpha12), opt(n.alpha21), fl(n.a12), fl(n.a21))
    ut = 'None' if u is None else '(Some (Build_UQParams FOps %s %s %s %s %s))' % (fl(u.alpha_12), fl(u.alpha_21), fl(u.beta_12), fl(u.beta_21), fl(u.z))
    return '(Build_Mixture FOps %s %s %s %s)' % (component(m.first_component, 1), component(m.second_component, 2), nt, ut)


def experiments(mem, m):
    out = []
    for e in mem.ideal_experiments.experiments:
        tag = 1 if e.component.name == m.first_component.name else (2 if e.component.name == m.second_component.name else 3)
        out.append('(Build_Experiment FOps %s %d %s %s)' % (fl(e.temperature), tag, perm(e.permeance), opt(e.activation_energy)))
    return '(Some [%s])' % '; '.join(out)


def act(ct):
    return {'NRTL': 'NRTL', 'UNIQUAC': 'UNIQUAC'}.get(ct, 'OtherModel')


def finite(xs):
    return all(isinstance(x, (int, float, numpy.floating)) and math.isfinite(float(x)) for x in xs)


def pair(r):
    return '(%s, %s)' % (fl(r[0]), fl(r[1]))


def program_text(p):
    if p is None:
        return 'None'
    return '(Some (Build_TProg FOps [%s] %s))' % ('; '.join(fl(c) for c in p.coefficients),
                                                  {'polynomial': 'Poly', 'exponential': 'Expo', 'logarithmic': 'Loga'}.get(p.type, 'OtherProg'))


def conditions_text(cd):
    return '(Build_Conditions FOps %s %s %s %s %s %s %s)' % (
        fl(cd.membrane_area), fl(cd.initial_feed_temperature), fl(cd.initial_feed_amount), comp(cd.initial_feed_composition),
        opt(cd.permeate_temperature), opt(cd.permeate_pressure), program_text(cd.temperature_program))


def row_text(pm, k):
    qc = pm.permeate_condensation_heat[k]
    return '(Build_PRow FOps %s %s %s %s (%s, %s) (%s, %s) %s %s %s)' % (
        fl(pm.time[k]), fl(pm.feed_mass[k]), comp(pm.feed_compositions[k]), fl(pm.feed_temperature[k]),
        perm(pm.permeances[k][0]), perm(pm.permeances[k][1]), fl(pm.partial_fluxes[k][0]), fl(pm.partial_fluxes[k][1]),
        comp(pm.permeate_composition[k]), fl(pm.feed_evaporation_heat[k]), opt(qc))


def pm_numbers(pm):
    out = []
    for k in range(len(pm.time)):
        out += [pm.time[k], pm.feed_mass[k], pm.feed_compositions[k].p, pm.feed_temperature[k], pm.partial_fluxes[k][0],
                pm.partial_fluxes[k][1], pm.permeances[k][0].value, pm.permeances[k][1].value, pm.feed_evaporation_heat[k]]
    return out


def fn_text(f):
    return '(Build_PervFn FOps %d %d %s [%s] [%s])' % (f.n, f.m, fl(f.alpha), '; '.join(fl(v) for v in f.a), '; '.join(fl(v) for v in f.b))


# ------------------------------------------------------------------ case generators: (kind, Coq bool expression, description)

def case_thermo(rng):
    m = gens.any_mixture(rng)
    ct = rng.choice(['NRTL', 'UNIQUAC', 'NRTL'])
    T = rng.uniform(273, 400)
    c = pv.Composition(p=gens.interior(rng), type=rng.choice(['weight', 'molar']))
    try:
        r = get_partial_pressures(T, m, c, ct)
        g = calculate_activity_coefficients(T, m, c, ct)
    except ACC:
        return None
    if not finite(list(r) + list(g)):
        return None
    e = ('agree pair_near (partial_pressures FOps %s %s %s %s) (Returned %s) && agree pair_near (activity FOps %s %s %s %s) (Returned %s)'
         % (fl(T), mixture(m), comp(c), act(ct), pair(r), fl(T), mixture(m), comp(c), act(ct), pair(g)))
    return 'thermo:' + ct, e, 'T=%r x=%r %s %s' % (T, c.p, c.type, m.name)


def case_component(rng):
    c = rng.choice(gens.builtin_components()) if rng.random() < 0.5 else gens.random_component(rng, any_c=True)
    T, T1 = rng.uniform(220, 480), rng.uniform(220, 480)
    try:
        vals = (c.get_vapor_pressure(T), c.get_vaporisation_heat(T), c.get_specific_heat(T), c.get_cooling_heat(T, T1))
    except ACC:
        return None
    if not finite(vals):
        return None
    ct = component(c, 1)
    e = ('agree fnear (vapor_pressure FOps %s %s) (Returned %s) && agree fnear (vaporisation_heat FOps %s %s) (Returned %s) && '
         'fnear (specific_heat FOps %s %s) %s && fnear (cooling_heat FOps %s %s %s) %s') % (
        ct, fl(T), fl(vals[0]), ct, fl(T), fl(vals[1]), ct, fl(T), fl(vals[2]), ct, fl(T), fl(T1), fl(vals[3]))
    return 'component:' + c.vapour_pressure_constants.type, e, 'T=%r' % T


def case_convert(rng):
    m = gens.any_mixture(rng)
    x = gens.fraction(rng)
    t = rng.choice(['weight', 'molar'])
    c = pv.Composition(p=x, type=t)
    r1, r2 = c.to_molar(m), c.to_weight(m)
    ua, ub = rng.choice(list(UNITS)), rng.choice(list(UNITS))
    v = 0.0 if rng.random() < 0.1 else gens.loguniform(rng, 1e-12, 1e6)
    withc = rng.random() < 0.8
    pu = pv.Permeance(value=v, units=ua)
    try:
        q = pu.convert(ub, m.first_component if withc else None)
        out = 'Returned %s' % perm(q)
    except (ValueError, KeyError):
        out = 'Raised'
    e = ('agree comp_near (to_molar FOps %s %s) (Returned %s) && agree comp_near (to_weight FOps %s %s) (Returned %s) && '
         'agree perm_near (convert FOps %s %s %s) (%s)') % (comp(c), mixture(m), comp(r1), comp(c), mixture(m), comp(r2),
                                                            perm(pu), UNITS[ub], ('(Some %s)' % component(m.first_component, 1)) if withc else 'None', out)
    return 'convert:%s->%s' % (ua, ub), e, 'x=%r v=%r' % (x, v)


def case_membrane(rng):
    m = rng.choice(gens.builtin_mixtures())
    n = rng.choice([1, 2, 3, 4])
    temps = sorted(set(round(rng.uniform(280, 390), 2) for _ in range(n)))
    rng.shuffle(temps)
    stated = rng.random() < 0.5
    units = rng.choice(list(UNITS))
    from pyvaporation.experiments import IdealExperiment, IdealExperiments
    exps = []
    for t in temps:
        pk = pv.Permeance(gens.loguniform(rng, 1e-4, 0.5)).convert(units, m.first_component)
        exps.append(IdealExperiment(name='e', temperature=t, component=m.first_component, permeance=pk,
                                    activation_energy=rng.uniform(-30000, 90000) if stated else None))
    exps.append(IdealExperiment(name='o', temperature=333.0, component=m.second_component, permeance=pv.Permeance(0.001), activation_energy=1000.0))
    mem = pv.Membrane(name='m', ideal_experiments=IdealExperiments(experiments=exps))
    T = rng.choice([temps[0], rng.uniform(270, 410)])
    try:
        p = mem.get_permeance(T, m.first_component)
        out = 'Returned %s' % perm(p)
        if not finite([p.value]):
            return None
    except ACC:
        out = 'Raised'
    e = 'agree perm_near (get_permeance FOps %s %s %s None) (%s)' % (experiments(mem, m), fl(T), component(m.first_component, 1), out)
    return 'membrane:%s:%d' % ('stated' if stated else 'regressed', len(temps)), e, 'T=%r temps=%r units=%s' % (T, temps, units)


def case_solver(rng):
    s = pvtools.random_feed_state(rng)
    s['prec'] = 1e-11
    m = s['m']
    mem = pvtools.simple_membrane(m, 0.05, 0.0005)
    pvo = pvtools.Counting(mem, m)
    pvo.__dict__['n_evals'] = 0
    c = pv.Composition(p=s['x'], type=s['basis'])
    try:
        J = pvo.calculate_partial_fluxes(s['T'], c, s['prec'], s['Tp'], s['pp'], pv.Permeance(s['P1']), pv.Permeance(s['P2']), s['ct'])
        if not finite(J):
            return None
        out = 'Returned %s' % pair(J)
    except pvtools.EvalBudgetExceeded:
        return None
    except ACC:
        out = 'Raised'
    if pvo.__dict__['n_evals'] > 300:
        return None          # slow convergence: skipped (cost), the cap is covered by the bridge
    sa = '(Build_SolveArgs FOps %s %s %s %s %s (Some %s) (Some %s) %s)' % (
        fl(s['T']), comp(c), fl(s['prec']), opt(s['Tp']), opt(s['pp']), perm(pv.Permeance(s['P1'])), perm(pv.Permeance(s['P2'])), act(s['ct']))
    e = 'agree pair_near (solve FOps %s (perm_of %s) %s) (%s)' % (mixture(m), experiments(mem, m), sa, out)
    return 'solver:%s:%s' % (s['mode'], s['ct']), e, 'evals=%d' % pvo.__dict__['n_evals']


def case_process(rng, nmax):
    cfg = po.random_config(rng)
    cfg['n'] = rng.choice([1, 2, 3, 5, 8, 13, 21, nmax])
    cfg['prec'] = 1e-11
    m = cfg['m']
    mem, cd = po.build(cfg)
    pvo = pvtools.Counting(mem, m)
    kind = cfg['kind']
    import random as _r
    cs = po.curve_set(m, _r.Random(1), cfg['ncurves'], cfg['cbasis'], cfg.get('sameT', False)) if kind.startswith('nonideal') else None
    try:
        pm, _, _ = po.run(cfg, pvo=pvo)
        if not finite(pm_numbers(pm)):
            return None
        out = 'Returned [%s]' % '; '.join(row_text(pm, k) for k in range(cfg['n']))
    except pvtools.EvalBudgetExceeded:
        return None
    except ACC:
        out = 'Raised'
    if pvo.__dict__.get('n_evals', 0) > 3000:
        return None
    slv = '(solve FOps %s (perm_of %s))' % (mixture(m), experiments(mem, m))
    common = '%s %s %d %s %s %s %s' % (mixture(m), conditions_text(cd), cfg['n'], fl(cfg['dt']), fl(cfg['prec']), act(cfg['ct']), slv)
    if kind == 'ideal_iso':
        call = 'ideal_isothermal FOps %s (perm_of %s)' % (common, experiments(mem, m))
    elif kind == 'ideal_noniso':
        call = 'ideal_non_isothermal FOps %s (perm_of %s)' % (common, experiments(mem, m))
    else:
        iso = kind == 'nonideal_iso'
        raw1 = po.fake_find_best_fit(Measurements.from_diffusion_curves_first(cs), component_index=0, m=(0 if cfg['ncurves'] == 1 else None))
        raw2 = po.fake_find_best_fit(Measurements.from_diffusion_curves_second(cs), component_index=1, m=(0 if cfg['ncurves'] == 1 else None))
        single = 'None' if cfg['ncurves'] != 1 else '(Some %s)' % fl(cs.diffusion_curves[0].feed_temperature)
        ip = 'None' if cfg['ip'] is None else '(Some (%s, %s))' % (perm(cfg['ip'][0]), perm(cfg['ip'][1]))
        cxs = '[%s]' % '; '.join(comp(c) for cv in cs.diffusion_curves for c in cv.feed_compositions)
        call = ('match non_ideal_entry FOps %s %s (fun c => activation_energy FOps %s c) %s %s %s %s %s with Ok r => Ok (fst r) | Err e => Err e end'
                % ('true' if iso else 'false', common, experiments(mem, m), single, fn_text(raw1), fn_text(raw2), ip, cxs))
    e = 'agree rows_near (%s) (%s)' % (call, out)
    return 'process:%s:n=%d' % (kind, cfg['n']), e, 'n=%d mode=%s %s evals=%d' % (cfg['n'], cfg['mode'], 'raised' if out == 'Raised' else 'returned', pvo.__dict__.get('n_evals', 0))


def case_curve(rng):
    m = gens.any_mixture(rng)
    n = rng.randint(1, 4)
    T = rng.uniform(290, 370)
    mode = rng.choice(['vac', 'temp', 'press'])
    tp = rng.uniform(150, T - 10) if mode == 'temp' else None
    pp = rng.uniform(0, 1.0) if mode == 'press' else None
    basis = rng.choice(['weight', 'molar', 'mixed'])       # mixed: every point carries its own basis
    comps = [pv.Composition(p=gens.interior(rng), type=(basis if basis != 'mixed' else rng.choice(['weight', 'molar']))) for _ in range(n)]
    J = [(gens.loguniform(rng, 1e-2, 5), gens.loguniform(rng, 1e-5, 1)) for _ in range(n)]
    try:
        c = DiffusionCurve(mixture=m, membrane_name='o', feed_temperature=T, feed_compositions=comps, partial_fluxes=J,
                           permeate_temperature=tp, permeate_pressure=pp)
        vals = [p[i].value for p in c.permeances for i in (0, 1)]
        if not finite(vals):
            return None
        out = 'Returned [%s]' % '; '.join('(%s, %s)' % (perm(p[0]), perm(p[1])) for p in c.permeances)
    except ACC:
        out = 'Raised'
    cin = '(Build_CurveIn FOps %s [%s] (Some [%s]) %s %s None)' % (fl(T), '; '.join(comp(x) for x in comps), '; '.join(pair(j) for j in J), opt(tp), opt(pp))
    e = ('agree (list_eqb (fun a b => perm_near (fst a) (fst b) && perm_near (snd a) (snd b))) '
         '(match mk_curve FOps (real_PP FOps %s) %s %s with Ok cv => Ok (cv_P cv) | Err e => Err e end) (%s)') % (mixture(m), mixture(m), cin, out)
    return 'curve:%s:%s' % (mode, basis), e, 'n=%d' % n


def case_curve_metrics(rng):
    """curve from permeances in kg / SI / GPU (fluxes computed, permeances re-exposed) and the four metrics"""
    m = gens.any_mixture(rng)
    n = rng.randint(1, 4)
    T = rng.uniform(290, 370)
    basis = rng.choice(['weight', 'molar', 'mixed'])
    units = rng.choice(list(UNITS))
    comps = [pv.Composition(p=gens.interior(rng), type=(basis if basis != 'mixed' else rng.choice(['weight', 'molar']))) for _ in range(n)]
    P = [(pv.Permeance(gens.loguniform(rng, 1e-4, 1)).convert(units, m.first_component),
          pv.Permeance(gens.loguniform(rng, 1e-6, 1e-1)).convert(units, m.second_component)) for _ in range(n)]
    try:
        c = DiffusionCurve(mixture=m, membrane_name='o', feed_temperature=T, feed_compositions=comps, permeances=P)
        sf, psi, sel = c.get_separation_factor, c.get_psi, c.get_selectivity
        ys = [y.p for y in c.permeate_composition]
        vals = [v for j in c.partial_fluxes for v in j] + [q[i].value for q in c.permeances for i in (0, 1)] + list(sf) + list(psi) + list(sel) + ys
        if not finite(vals):
            return None
        out = 'Returned ([%s], [%s], [%s], ([%s], [%s], [%s]))' % (
            '; '.join(pair(j) for j in c.partial_fluxes), '; '.join('(%s, %s)' % (perm(q[0]), perm(q[1])) for q in c.permeances),
            '; '.join(fl(y) for y in ys), '; '.join(fl(v) for v in sf), '; '.join(fl(v) for v in psi), '; '.join(fl(v) for v in sel))
    except ACC:
        out = 'Raised'
    cin = '(Build_CurveIn FOps %s [%s] None None None (Some [%s]))' % (
        fl(T), '; '.join(comp(x) for x in comps), '; '.join('(%s, %s)' % (perm(q[0]), perm(q[1])) for q in P))
    mt = mixture(m)
    e = ('agree metrics_near (cv <- mk_curve FOps (real_PP FOps %s) %s %s ;; ys <- curve_permeate_composition FOps cv ;; '
         'sf <- curve_separation_factor FOps %s cv ;; ps <- curve_psi FOps %s cv ;; sl <- curve_selectivity FOps %s cv ;; '
         'Ok (cv_J cv, cv_P cv, map (cp (N:=FOps)) ys, (sf, ps, sl))) (%s)') % (mt, mt, cin, mt, mt, mt, out)
    return 'curvemetrics:%s:%s' % (units, basis), e, 'n=%d' % n


def case_nicurve(rng):
    """Pervaporation.non_ideal_diffusion_curve with the optimiser replaced on both sides by the same function"""
    import random as _r
    m = rng.choice(gens.builtin_mixtures())
    ncurves = rng.choice([1, 3])
    cbasis = rng.choice(['weight', 'molar', 'mixed'])
    cs = po.curve_set(m, _r.Random(1), ncurves, cbasis)
    mem = pvtools.simple_membrane(m, 0.05, 0.0005)
    pvo = pvtools.Counting(mem, m)
    T = rng.choice([cs.diffusion_curves[0].feed_temperature, rng.uniform(300, 360)])
    x0 = pv.Composition(p=rng.uniform(0.05, 0.6), type=rng.choice(['weight', 'molar']))
    n = rng.choice([1, 2, 3, 5, 8])
    delta = rng.uniform(0.001, 0.3 / n) * rng.choice([1, 1, 1, 4])          # sometimes leaves [0,1]: rejected on both sides
    mode = rng.choice(['vac', 'temp', 'press'])
    tp = rng.uniform(150, 260) if mode == 'temp' else None
    pp = rng.uniform(0, 0.3) if mode == 'press' else None
    ct = rng.choice(['NRTL', 'UNIQUAC'])
    ipu = rng.choice(list(UNITS))
    ip = rng.choice([None, (pv.Permeance(gens.loguniform(rng, 1e-3, 0.1)).convert(ipu, m.first_component),
                            pv.Permeance(gens.loguniform(rng, 1e-5, 1e-2)).convert(ipu, m.second_component))])
    old = PVM.find_best_fit
    PVM.find_best_fit = po.fake_find_best_fit
    try:
        c = pvo.non_ideal_diffusion_curve(cs, T, x0, delta, n, tp, pp, ip, 1e-11, ct)
        vals = [v for j in c.partial_fluxes for v in j] + [q[i].value for q in c.permeances for i in (0, 1)] + [x.p for x in c.feed_compositions]
        if not finite(vals):
            return None
        out = 'Returned ([%s], [%s], [%s])' % ('; '.join(comp(x) for x in c.feed_compositions), '; '.join(pair(j) for j in c.partial_fluxes),
                                              '; '.join('(%s, %s)' % (perm(q[0]), perm(q[1])) for q in c.permeances))
    except pvtools.EvalBudgetExceeded:
        return None
    except ACC:
        out = 'Raised'
    finally:
        PVM.find_best_fit = old
    if pvo.__dict__.get('n_evals', 0) > 3000:
        return None
    raw1 = po.fake_find_best_fit(Measurements.from_diffusion_curves_first(cs), component_index=0, m=(0 if ncurves == 1 else None))
    raw2 = po.fake_find_best_fit(Measurements.from_diffusion_curves_second(cs), component_index=1, m=(0 if ncurves == 1 else None))
    single = 'None' if ncurves != 1 else '(Some %s)' % fl(cs.diffusion_curves[0].feed_temperature)
    ipt = 'None' if ip is None else '(Some (%s, %s))' % (perm(ip[0]), perm(ip[1]))
    mt, ex = mixture(m), experiments(mem, m)
    e = ('agree nicurve_near (cv <- non_ideal_curve FOps (real_PP FOps %s) %s (solve FOps %s (perm_of %s)) (fun c => activation_energy FOps %s c) %s %s %s %s %s %s %d %s %s %s %s %s ;; '
         'Ok (cv_xs cv, cv_J cv, cv_P cv)) (%s)') % (mt, mt, mt, ex, ex, single, fn_text(raw1), fn_text(raw2), fl(T), comp(x0), fl(delta), n, opt(tp), opt(pp), ipt, fl(1e-11), act(ct), out)
    return 'nicurve:%s:%dcurves' % (mode, ncurves), e, 'n=%d ip=%s %s' % (n, 'none' if ip is None else ipu, 'raised' if out == 'Raised' else 'returned')


def case_fit(rng):
    """PervaporationFunction.__call__ / __mul__ / from_array and Measurements extraction from a curve set"""
    import random as _r
    from pyvaporation.optimizer import PervaporationFunction
    n, mm = rng.randint(0, 3), rng.randint(0, 2)
    arr = [gens.loguniform(rng, 1e-4, 10)] + [rng.uniform(-2, 2) for _ in range(n)] + [rng.uniform(-3000, 3000)] + [rng.uniform(-300, 300) for _ in range(mm)]
    if rng.random() < 0.15:
        arr = arr[:-1]                       # wrong length: AssertionError on both sides
    x, t, k = rng.uniform(0, 1), rng.uniform(280, 380), gens.loguniform(rng, 1e-3, 1e3)
    try:
        f = PervaporationFunction.from_array(numpy.array(arr), n, mm)
        v = [f(x, t), (f * k)(x, t)]
        if not finite(v):
            return None
        out = 'Returned (%s, %s)' % (fl(v[0]), fl(v[1]))
    except (AssertionError,) + ACC:
        out = 'Raised'
    e1 = 'agree pair_near (f <- from_array FOps [%s] %d %d ;; Ok (pf_call FOps f %s %s, pf_call FOps (pf_mul FOps f %s) %s %s)) (%s)' % (
        '; '.join(fl(a) for a in arr), n, mm, fl(x), fl(t), fl(k), fl(x), fl(t), out)
    m = rng.choice(gens.builtin_mixtures())
    cs = po.curve_set(m, _r.Random(rng.randint(1, 5)), rng.choice([1, 2, 3]), rng.choice(['weight', 'molar', 'mixed']))
    second = rng.random() < 0.5
    ms = (Measurements.from_diffusion_curves_second if second else Measurements.from_diffusion_curves_first)(cs)
    mtxt = '[%s]' % '; '.join('(%s, (%s, %s))' % (fl(d.x), fl(d.t), fl(d.p)) for d in ms.data)
    ctxt = '[%s]' % '; '.join('(Build_CurvePts FOps %s [%s])' % (fl(c.feed_temperature), '; '.join(
        '(%s, (%s, %s))' % (comp(xc), perm(q[0]), perm(q[1])) for xc, q in zip(c.feed_compositions, c.permeances))) for c in cs.diffusion_curves)
    e2 = 'agree meas_near (ms <- measurements FOps %s %s %s ;; Ok (map (fun d => (ms_x d, (ms_t d, ms_p d))) ms)) (Returned %s)' % (
        mixture(m), 'true' if second else 'false', ctxt, mtxt)
    return 'fit:n%d:m%d' % (n, mm), '(%s) && (%s)' % (e1, e2), 'points=%d' % len(ms.data)


def run(seed, budget, nmax=30, timeout=900, jobs=8, tag='corr'):
    """budget: dict kind -> number of cases"""
    rng = random.Random(seed)
    items = []
    gensf = {'component': case_component, 'convert': case_convert, 'thermo': case_thermo, 'membrane': case_membrane, 'solver': case_solver, 'curve': case_curve,
             'process': lambda r: case_process(r, nmax), 'curvemetrics': case_curve_metrics, 'nicurve': case_nicurve, 'fit': case_fit}
    skipped = 0
    for kind, count in budget.items():
        got, tries = 0, 0
        while got < count and tries < count * 6:
            tries += 1
            it = gensf[kind](rng)
            if it is None:
                skipped += 1
                continue
            items.append(it)
            got += 1
    os.makedirs(os.path.join(COQ, 'cases'), exist_ok=True)
    per = 40
    files = []
    for fi in range(0, len(items), per):
        chunk = items[fi:fi + per]
        name = 'Num_%s_%02d' % (tag, fi // per)
        with open(os.path.join(COQ, 'cases', name + '.v'), 'w') as f:
            f.write('(* GENERATED by harness/corr_numeric.py *)\nFrom Coq Require Import ZArith List Bool PrimFloat.\n'
                    'From PV Require Import Num FNum PyBase Model.Component Model.Mixture Model.Permeance Model.Solver Model.Membrane '
                    'Model.Process Model.Curve Model.NonIdealCurve Model.Fit Model.Persist Model.PersistCheck Model.NumCheck.\nImport ListNotations.\nOpen Scope bool_scope.\n')
            f.write('Definition results : list bool := [\n%s\n].\nEval vm_compute in results.\n' % ';\n'.join('(%s)' % e for _, e, _ in chunk))
        files.append((name, chunk))
    t0 = time.time()
    procs = [(name, chunk, subprocess.Popen('timeout %d coqc -R . PV cases/%s.v' % (timeout, name), shell=True, cwd=COQ,
                                            stdout=subprocess.PIPE, stderr=subprocess.STDOUT, text=True)) for name, chunk in files]
    bad, dist, errors = [], {}, []
    for name, chunk, p in procs:
        out, _ = p.communicate()
        for ext in ('.vo', '.vos', '.vok', '.glob'):
            try:
                os.remove(os.path.join(COQ, 'cases', name + ext))
            except OSError:
                pass
        if p.returncode != 0:
            errors.append('%s: %s' % (name, out[-600:]))
            continue
        vals = re.findall(r'\b(true|false)\b', out.split(': list bool')[0])
        if len(vals) != len(chunk):
            errors.append('%s: %d results for %d cases' % (name, len(vals), len(chunk)))
            continue
        for (kind, e, desc), v in zip(chunk, vals):
            dist[kind.split(':')[0]] = dist.get(kind.split(':')[0], 0) + 1
            if v == 'false':
                bad.append('%s %s' % (kind, desc))
    return {'ok': not bad and not errors, 'cases': len(items), 'disagreements': bad + errors, 'distribution': dist, 'skipped_nonfinite_or_slow': skipped,
            'wall_s': round(time.time() - t0, 1), 'samples': [{'kind': k, 'desc': d} for k, _, d in items[:3]]}


if __name__ == '__main__':
    b = {'component': 20, 'convert': 30, 'thermo': 40, 'membrane': 30, 'solver': 30, 'curve': 20, 'process': 30, 'curvemetrics': 20, 'nicurve': 20, 'fit': 20}
    if len(sys.argv) > 1:
        b = {k: int(v) for k, v in (a.split('=') for a in sys.argv[1:])}
    r = run(int(os.environ.get('VERIF_SEED', '1')), b)
    print({k: v for k, v in r.items() if k != 'samples'})
