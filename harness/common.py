"""Shared helpers of bin/check: oracle runner, known findings, replay files."""
import hashlib
import json
import math
import os
import time
import traceback

ROOT = os.path.dirname(os.path.dirname(os.path.abspath(__file__)))

TRUSTED_BASE = [
    'Coq 8.16.1 kernel (coqc; coqchk -o in the thorough tier); vm_compute in bridge lemmas; no native_compute',
    'symbolic tracer /verif/tracer (Sym semantics, reifier, cut points, configuration tables)',
    'binary64 arithmetic abstracted to real arithmetic in every theorem',
    'python oracles in /verif/harness/props only search for failing inputs; they never produce a "holds" verdict',
]


def write_if_changed(path, text):
    os.makedirs(os.path.dirname(path), exist_ok=True)
    if os.path.exists(path):
        with open(path) as f:
            if f.read() == text:
                return False
    with open(path, 'w') as f:
        f.write(text)
    return True


def jsonable(x):
    try:
        import numpy
        if isinstance(x, numpy.generic):
            x = x.item()
        if isinstance(x, numpy.ndarray):
            return [jsonable(e) for e in x.tolist()]
    except ImportError:
        pass
    if isinstance(x, float):
        if x != x or x in (math.inf, -math.inf):
            return repr(x)
        return x
    if isinstance(x, dict):
        return {str(k): jsonable(v) for k, v in x.items()}
    if isinstance(x, (list, tuple)):
        return [jsonable(e) for e in x]
    if isinstance(x, (int, str, bool)) or x is None:
        return x
    return repr(x)


def run_oracle(mod, rng, budget, tier, must_find=False, known=()):
    """iterate mod.oracle(rng, tier): each item is a dict
       {kind, case, ok, detail, nontrivial}.  Stops after `budget` evaluations or the time cap."""
    res = {'evaluations': 0, 'distinct': 0, 'failures': [], 'distribution': {}, 'samples': [],
           'rule': getattr(mod, 'ORACLE_RULE', '')}
    if not hasattr(mod, 'oracle'):
        return res
    seen = set()
    cap = {'quick': 120, 'thorough': 900}[tier] * (3 if must_find else 1)
    if must_find:
        budget *= 4          # an obligation is already broken: search harder for a concrete failing input
    t0 = time.time()
    import contextlib, io
    sink = io.StringIO()
    try:
      with contextlib.redirect_stdout(sink):      # the code under test prints advisory messages
        for item in mod.oracle(rng, tier):
            res['evaluations'] += 1
            kind = item.get('kind', '?')
            res['distribution'][kind] = res['distribution'].get(kind, 0) + 1
            h = hashlib.sha1(json.dumps(jsonable(item.get('case')), sort_keys=True).encode()).hexdigest()
            if h not in seen and item.get('nontrivial', True):
                seen.add(h)
            if len(res['samples']) < 3 and item.get('ok'):
                res['samples'].append({'kind': kind, 'case': jsonable(item.get('case'))})
            if not item.get('ok'):
                if len(res['failures']) < 20:
                    res['failures'].append({'kind': kind, 'case': jsonable(item.get('case')),
                                            'detail': item.get('detail', '')})
            if res['evaluations'] >= budget or time.time() - t0 > cap:
                break
            if sum(1 for f in res['failures'] if not match_known(known, f)) >= 3:
                break            # three unlisted failing inputs are enough for a replay: do not spend the budget on a broken tree
    except Exception:
        res['failures'].append({'kind': 'oracle-crash', 'case': None, 'detail': traceback.format_exc()[-2000:]})
    res['distinct'] = len(seen)
    return res


def load_known(pid):
    p = os.path.join(ROOT, 'known_findings.json')
    if not os.path.exists(p):
        return []
    return [k for k in json.load(open(p))['findings'] if pid in k.get('properties', []) and k.get('status') == 'known']


def match_known(known, failure):
    """a failure is an instance of a listed finding when its kind is the finding's kind and every
    key of the finding's `where` equals the failure's case entry"""
    for k in known:
        if failure.get('kind') not in k.get('kinds', []):
            continue
        where = k.get('where', {})
        case = failure.get('case') or {}
        if all(case.get(a) == b for a, b in where.items()):
            return k
    return None


def static_known_lines(known, known_hit):
    """one line per listed finding that was actually observed in this run"""
    seen, out = set(), []
    for _, k in known_hit:
        if k['id'] not in seen:
            seen.add(k['id'])
            out.append('%s: %s' % (k['id'], k['text']))
    return out


def write_replay(pid, failure, broken, seed, details=None):
    os.makedirs(os.path.join(ROOT, 'replays'), exist_ok=True)
    body = {'property': pid, 'broken_obligations': broken, 'seed': seed, 'failure': jsonable(failure)}
    if details:
        body['details'] = jsonable(details)
    h = hashlib.sha1(json.dumps(body, sort_keys=True, default=str).encode()).hexdigest()[:10]
    path = os.path.join(ROOT, 'replays', '%s_%s.json' % (pid, h))
    with open(path, 'w') as f:
        json.dump(body, f, indent=1, default=str)
    return path


def rel_close(a, b, rtol=1e-9, atol=0.0):
    if a != a or b != b:
        return False
    if a == b:
        return True
    return abs(a - b) <= atol + rtol * max(abs(a), abs(b))
