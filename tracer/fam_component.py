"""Bridge cases: Component methods (component.py) and Permeance (permeance.py)."""
import pyvaporation as pv

from gen import Case, emit_family
from objs import V, all_vars, sym_component, fresh_str

IMPORTS = ['Model.Component', 'Model.Permeance']

UNITS = {'GPU': 'GPU', 'SI': 'SI', 'kg/(m2*h*kPa)': 'KG', 'barrer': '(OtherUnit 1)', 'm3': '(OtherUnit 2)'}


def num(em, r):
    return em.ref(r)


def perm_text(em, p):
    return '(Build_Permeance N %s %s)' % (em.ref(p.value), UNITS[p.units])


def sym_permeance(leaf, value, units):
    p = pv.Permeance(value=1.0, units=fresh_str(units))
    p.value = V(leaf, value)
    return p, '(Build_Permeance N %s %s)' % (leaf, UNITS[units])


def cases():
    cs = []
    for vp in ('antoine', 'frost', 'other'):
        _, ct = sym_component(1, vp)
        cs.append(Case('vp_' + vp, 'vapor_pressure N %s T' % ct,
                       lambda vp=vp: sym_component(1, vp)[0].get_vapor_pressure(V('T', 333.15)), num))
        cs.append(Case('hvap_' + vp, 'vaporisation_heat N %s T' % ct,
                       lambda vp=vp: sym_component(1, vp)[0].get_vaporisation_heat(V('T', 333.15)), num))
    _, ct = sym_component(2, 'antoine')
    cs.append(Case('cp', 'Ok (specific_heat N %s T)' % ct,
                   lambda: sym_component(2, 'antoine')[0].get_specific_heat(V('T', 333.15)), num))
    cs.append(Case('cool', 'Ok (cooling_heat N %s T T1)' % ct,
                   lambda: sym_component(2, 'antoine')[0].get_cooling_heat(V('T', 333.15), V('T1', 280.0)), num))
    # Permeance constructor clamp
    for nm, val in (('pos', 0.05), ('neg', -0.05), ('zero', 0.0)):
        cs.append(Case('mkperm_' + nm, 'Ok (mk_permeance N P1 SI)',
                       lambda val=val: pv.Permeance(value=V('P1', val), units='SI'), perm_text))
    # addition
    for ua, ub in (('SI', 'SI'), ('SI', 'GPU'), ('barrer', 'barrer'), ('barrer', 'm3')):
        _, at = sym_permeance('P1', 0.05, ua)
        _, bt = sym_permeance('P2', 0.07, ub)
        cs.append(Case('add_%s_%s' % (UNITS[ua].strip('()').replace(' ', ''), UNITS[ub].strip('()').replace(' ', '')),
                       'perm_add N %s %s' % (at, bt),
                       lambda ua=ua, ub=ub: sym_permeance('P1', 0.05, ua)[0] + sym_permeance('P2', 0.07, ub)[0],
                       perm_text))
    # conversion: all ordered pairs x component given or not
    _, c1t = sym_component(1, 'antoine')
    for uf in UNITS:
        for ut in UNITS:
            if uf == 'm3' or ut == 'm3':
                continue
            for withc in (True, False):
                def run(uf=uf, ut=ut, withc=withc):
                    p, _ = sym_permeance('P1', 0.05, uf)
                    return p.convert(ut, sym_component(1, 'antoine')[0] if withc else None)
                _, pt = sym_permeance('P1', 0.05, uf)
                cs.append(Case('conv_%s_%s_%s' % (UNITS[uf].strip('()').replace(' ', ''),
                                                    UNITS[ut].strip('()').replace(' ', ''), 'c' if withc else 'n'),
                               'convert N %s %s %s' % (pt, UNITS[ut], ('(Some %s)' % c1t) if withc else 'None'),
                               run, perm_text))
    # negative value converts through the clamp
    def runneg():
        p, _ = sym_permeance('P1', -0.05, 'GPU')
        return p.convert('SI')
    _, pt = sym_permeance('P1', -0.05, 'GPU')
    cs.append(Case('conv_neg', 'convert N %s SI None' % pt, runneg, perm_text))
    return cs


def main():
    return emit_family('component', IMPORTS, cases(), lambda: list(all_vars().keys()))


if __name__ == '__main__':
    for o in main():
        print(o['name'], o['status'], o.get('outcome'), len(o.get('pcs', [])), o.get('error', ''))
