"""Symbolic/concolic tracing of the real PyVaporation code.

A `Sym` is a node of an expression DAG over the abstract numeric operations of
coq/Num.v together with a concrete binary64 shadow value.  Arithmetic builds
nodes; comparisons are decided by the shadow value and recorded as path
conditions; anything that would silently turn a Sym into a plain number
(float(), int(), bool(), formatting, unsupported ufuncs) raises TraceEscape
(fail closed).
"""
import builtins
import math
import operator
import sys
from decimal import Decimal

import numpy


PC_LIMIT = [4000]


class TraceEscape(BaseException):
    pass


class Ctx:
    """Recording context of one traced execution."""

    def __init__(self):
        self.pcs = []        # list of (opname, lhs Sym, rhs Sym, outcome bool, site)
        self.notes = []


CTX = Ctx()


def reset():
    global CTX
    CTX = Ctx()
    return CTX


def _site():
    f = sys._getframe(3)
    while f is not None and f.f_code.co_filename.endswith('sym.py'):
        f = f.f_back
    if f is None:
        return '?'
    return '%s:%s' % (f.f_code.co_filename.split('/pyvaporation/')[-1], f.f_code.co_name)


_BIN = {'add': operator.add, 'sub': operator.sub, 'mul': operator.mul,
        'div': operator.truediv}


def _fdiv(a, b):
    try:
        return a / b
    except ZeroDivisionError:
        return math.nan


def _shadow_bin(op, a, b):
    try:
        if op == 'div':
            return _fdiv(a, b)
        return _BIN[op](a, b)
    except OverflowError:
        return math.inf


def is_plain_number(o):
    return isinstance(o, (int, float, numpy.floating, numpy.integer)) and not isinstance(o, bool)


def lift(o):
    if isinstance(o, Sym):
        return o
    if isinstance(o, bool):
        raise TraceEscape('bool used as number')
    if isinstance(o, (int, numpy.integer)):
        return Sym('ilit', (int(o),), float(int(o)))
    if isinstance(o, (float, numpy.floating)):
        return Sym('lit', (float(o),), float(o))
    raise TraceEscape('cannot lift %r' % (type(o),))


class Sym:
    __slots__ = ('op', 'args', 'val', '_id')
    _count = 0

    def __init__(self, op, args=(), val=None):
        self.op = op
        self.args = args
        self.val = val
        Sym._count += 1
        self._id = Sym._count

    # ---- arithmetic
    def _b(self, o, op, rev=False):
        if isinstance(o, numpy.ndarray):
            return NotImplemented
        try:
            o = lift(o)
        except TraceEscape:
            return NotImplemented
        a, b = (o, self) if rev else (self, o)
        return Sym(op, (a, b), _shadow_bin(op, a.val, b.val))

    def __add__(s, o): return s._b(o, 'add')
    def __radd__(s, o): return s._b(o, 'add', True)
    def __sub__(s, o): return s._b(o, 'sub')
    def __rsub__(s, o): return s._b(o, 'sub', True)
    def __mul__(s, o): return s._b(o, 'mul')
    def __rmul__(s, o): return s._b(o, 'mul', True)
    def __truediv__(s, o): return s._b(o, 'div')
    def __rtruediv__(s, o): return s._b(o, 'div', True)

    def __pow__(s, o):
        if isinstance(o, (int, numpy.integer)) and not isinstance(o, bool) and int(o) >= 0:
            try:
                v = s.val ** int(o)
            except OverflowError:
                v = math.inf
            return Sym('ipow', (s, int(o)), v)
        o = lift(o)
        return Sym('rpow', (s, o), _pow(s.val, o.val))

    def __rpow__(s, o):
        o = lift(o)
        return Sym('rpow', (o, s), _pow(o.val, s.val))

    def __neg__(s): return Sym('neg', (s,), -s.val)
    def __pos__(s): return s
    def __abs__(s): return Sym('nabs', (s,), abs(s.val))

    # numpy dispatches numpy.exp(obj) / numpy.log(obj) to these for object dtype
    def exp(s):
        try:
            v = math.exp(s.val)
        except OverflowError:
            v = math.inf
        return Sym('nexp', (s,), v)

    def log(s):
        try:
            v = math.log(s.val)
        except ValueError:
            v = math.nan if s.val != 0 else -math.inf
        return Sym('nln', (s,), v)

    def sqrt(s):
        raise TraceEscape('sqrt of a symbolic value')

    # ---- comparisons: concolic
    def _c(s, o, op):
        if isinstance(o, (float, numpy.floating)) and o in (math.inf, -math.inf) and s.val == s.val and abs(s.val) != math.inf:
            # comparison with a plain infinite constant (best_loss = numpy.inf): decided for every real value
            return bool(getattr(operator, op)(s.val, float(o)))
        o = lift(o)
        r = bool(getattr(operator, op)(s.val, o.val))
        CTX.pcs.append((op, s, o, r, _site()))
        if len(CTX.pcs) > PC_LIMIT[0]:
            # a symbolic run that keeps deciding comparisons (e.g. a data-driven inner loop that never ends under the
            # stubs) would otherwise grow without bound: fail closed
            raise TraceEscape('more than %d data-dependent comparisons in one traced call' % PC_LIMIT[0])
        return r

    def __ge__(s, o): return s._c(o, 'ge')
    def __le__(s, o): return s._c(o, 'le')
    def __gt__(s, o): return s._c(o, 'gt')
    def __lt__(s, o): return s._c(o, 'lt')
    def __eq__(s, o):
        if not (isinstance(o, Sym) or is_plain_number(o)):
            return NotImplemented
        return s._c(o, 'eq')
    def __ne__(s, o):
        if not (isinstance(o, Sym) or is_plain_number(o)):
            return NotImplemented
        return s._c(o, 'ne')
    def __hash__(s):
        # Python hashes a float by value and then decides membership with ==: hashing by the shadow value makes a
        # set / dict of symbolic numbers take the recorded `eq` comparison exactly when the shadow values collide
        return hash(s.val)

    # ---- fail closed
    def __float__(s): raise TraceEscape('float() of a symbolic value')
    def __int__(s): raise TraceEscape('int() of a symbolic value')
    def __index__(s): raise TraceEscape('index() of a symbolic value')
    def __bool__(s): raise TraceEscape('bool() of a symbolic value')
    def __round__(s, *a): raise TraceEscape('round() of a symbolic value')
    def __format__(s, spec): raise TraceEscape('format() of a symbolic value')
    def __floordiv__(s, o): raise TraceEscape('// on a symbolic value')
    def __mod__(s, o): raise TraceEscape('% on a symbolic value')
    def __reduce__(s): raise TraceEscape('pickling a symbolic value')
    def __repr__(s):
        return 'Sym<%s#%d=%r>' % (s.op, s._id, s.val)


def _pow(a, b):
    try:
        return math.pow(a, b)
    except (OverflowError, ValueError):
        return math.nan


def var(name, value):
    return Sym('var', (name,), float(value))


# ---------------------------------------------------------------- patches

class patched:
    """Context manager: make numpy.exp/log/... and builtins.max symbolic-aware."""

    def __enter__(self):
        self.saved = {}
        np_exp, np_log = numpy.exp, numpy.log

        def sym_exp(x, *a, **kw):
            return _unary(x, 'exp', np_exp, a, kw)

        def sym_log(x, *a, **kw):
            return _unary(x, 'log', np_log, a, kw)

        def _unary(x, meth, orig, a, kw):
            if a or kw:
                return orig(x, *a, **kw)
            if isinstance(x, Sym):
                return getattr(x, meth)()
            if is_plain_number(x) and ACTIVE[0]:
                # a plain constant (numpy.log(10)) stays symbolic: ln 10, not 2.302585...
                return getattr(lift(x), meth)()
            if isinstance(x, (list, tuple, numpy.ndarray)):
                arr = numpy.asarray(x, dtype=object) if _has_sym(x) else None
                if arr is not None:
                    return numpy.frompyfunc(lambda e: getattr(lift(e), meth)(), 1, 1)(arr)
            return orig(x)

        self.saved['exp'] = numpy.exp
        self.saved['log'] = numpy.log
        numpy.exp = sym_exp
        numpy.log = sym_log
        self.saved_max = builtins.max

        orig_max = builtins.max

        def sym_max(*args, **kw):
            if not kw and len(args) == 2 and (isinstance(args[0], Sym) or isinstance(args[1], Sym)):
                a, b = lift(args[0]), lift(args[1])
                return Sym('nmax', (a, b), b.val if b.val > a.val else a.val)
            return orig_max(*args, **kw)

        builtins.max = sym_max
        # sources of non-determinism fail closed: a modelling call that draws random numbers is not a function of its arguments
        import random as _random

        def forbidden(name):
            def f(*a, **kw):
                raise TraceEscape('the traced call draws random numbers (%s)' % name)
            return f
        self.saved_rand = []
        for mod, names in ((numpy.random, ('default_rng', 'rand', 'randn', 'random', 'random_sample', 'normal', 'uniform', 'standard_normal', 'seed', 'choice', 'permutation', 'shuffle')),
                           (_random, ('random', 'uniform', 'gauss', 'normalvariate', 'choice', 'shuffle', 'randint', 'seed'))):
            for nm in names:
                if hasattr(mod, nm):
                    self.saved_rand.append((mod, nm, getattr(mod, nm)))
                    setattr(mod, nm, forbidden('%s.%s' % (mod.__name__, nm)))
        ACTIVE[0] = True
        return self

    def __exit__(self, *exc):
        numpy.exp = self.saved['exp']
        numpy.log = self.saved['log']
        builtins.max = self.saved_max
        for mod, nm, orig in self.saved_rand:
            setattr(mod, nm, orig)
        ACTIVE[0] = False
        return False


ACTIVE = [False]


def _has_sym(x):
    if isinstance(x, Sym):
        return True
    if isinstance(x, (list, tuple)):
        return any(_has_sym(e) for e in x)
    if isinstance(x, numpy.ndarray):
        return x.dtype == object and any(_has_sym(e) for e in x.flat)
    return False


# ---------------------------------------------------------------- emission

def float_hex_coq(x):
    """binary64 literal in Coq syntax (hexadecimal, exact)."""
    if x != x:
        return 'nan%float'
    if x == math.inf:
        return 'infinity%float'
    if x == -math.inf:
        return 'neg_infinity%float'
    h = float(x).hex()
    if h.startswith('-'):
        return '(-%s)%%float' % h[1:]
    return '%s%%float' % h


def dec_parts(x):
    """exact decimal mantissa/exponent of repr(x), trailing zeros stripped."""
    d = Decimal(repr(float(x)))
    sign, digits, exp = d.as_tuple()
    m = int(''.join(map(str, digits)))
    while m != 0 and m % 10 == 0:
        m //= 10
        exp += 1
    if m == 0:
        exp = 0
    if sign:
        m = -m
    return m, exp


def zlit(k):
    return '(%d)' % k if k < 0 else '%d' % k


class Emitter:
    """Turns Sym DAGs into Gallina text over `N : NumOps` with let-sharing."""

    def __init__(self, share=True, extra_ops=None):
        self.share = share
        self.names = {}
        self.order = []
        self.refs = {}
        self.vars = {}
        self.extra_ops = extra_ops or {}

    def count(self, s):
        stack = [s]
        while stack:
            n = stack.pop()
            if not isinstance(n, Sym):
                continue
            self.refs[n._id] = self.refs.get(n._id, 0) + 1
            if self.refs[n._id] == 1:
                if n.op == 'var':
                    self.vars.setdefault(n.args[0], n)
                for a in n.args:
                    if isinstance(a, Sym):
                        stack.append(a)
                    elif isinstance(a, (list, tuple)):
                        stack.extend(x for x in a if isinstance(x, Sym))

    def expr(self, s, top=False):
        """text of node s (referring to let-bound names for shared nodes)"""
        if not isinstance(s, Sym):
            s = lift(s)
        if s._id in self.names and not top:
            return self.names[s._id]
        op = s.op
        if op == 'var':
            return s.args[0]
        if op == 'ilit':
            return '(ilit N %s)' % zlit(s.args[0])
        if op == 'lit':
            m, e = dec_parts(s.args[0])
            return '(lit N %s %s %s)' % (zlit(m), zlit(e), float_hex_coq(s.args[0]))
        if op == 'ipow':
            return '(ipow N %s %d)' % (self.ref(s.args[0]), s.args[1])
        if op == 'app':
            # result of a stubbed call: Gallina template with {i} placeholders for symbolic arguments
            return s.args[0].format(*[self.ref(a) for a in s.args[1]])
        if op in self.extra_ops:
            return self.extra_ops[op](self, s)
        if op in ('add', 'sub', 'mul', 'div', 'rpow', 'nmax'):
            return '(%s N %s %s)' % (op, self.ref(s.args[0]), self.ref(s.args[1]))
        if op in ('neg', 'nabs', 'nexp', 'nln'):
            return '(%s N %s)' % (op, self.ref(s.args[0]))
        raise TraceEscape('cannot emit op %s' % op)

    def ref(self, s):
        if not isinstance(s, Sym):
            s = lift(s)
        if self.share and s.op not in ('var', 'ilit', 'lit') and self.refs.get(s._id, 0) > 1 and self.allow_share(s):
            if s._id not in self.names:
                # bind children first (post-order)
                txt = self.expr(s, top=True)
                name = 't%d' % (len(self.order) + 1)
                self.names[s._id] = name
                self.order.append((name, txt))
            return self.names[s._id]
        return self.expr(s)

    def allow_share(self, s):
        return True

    def lets(self):
        return ''.join('let %s := %s in\n    ' % (n, t) for n, t in self.order)


def pc_text(em, pc):
    """(boolean Gallina term, expected outcome) for a recorded comparison"""
    op, a, b, r, _ = pc
    A, B = em.expr(a), em.expr(b)
    if op == 'le':
        return '(leb N %s %s)' % (A, B), r
    if op == 'ge':
        return '(leb N %s %s)' % (B, A), r
    if op == 'lt':
        return '(ltb N %s %s)' % (A, B), r
    if op == 'gt':
        return '(ltb N %s %s)' % (B, A), r
    if op == 'eq':
        return '(eqb N %s %s)' % (A, B), r
    if op == 'ne':
        return '(eqb N %s %s)' % (A, B), (not r)
    raise TraceEscape(op)
