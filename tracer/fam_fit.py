"""Bridge cases: PervaporationFunction (call / mul / from_array), Measurements extraction,
find_best_fit selection with `fit` abstract, fit with the minimiser abstract, fit_vle selection."""
import copy
import numpy
import pyvaporation as pv
import pyvaporation.optimizer.optimizer as OPT
import pyvaporation.mixtures.uniquac_fitting as UQF
from pyvaporation.optimizer import Measurements, PervaporationFunction, find_best_fit, fit
from pyvaporation.optimizer.optimizer import Measurement

from gen import Case, emit_family
from objs import V, all_vars, sym_mixture, Reifier, app, ctype_text
from sym import TraceEscape, Sym
from fam_solver import patch_attr
from fam_process import sym_fit, fit_text, sym_curve_set, pf_call_stub

IMPORTS = ['Model.Component', 'Model.Mixture', 'Model.Permeance', 'Model.Solver', 'Model.Process', 'Model.Fit']


def meas_text(em, ms):
    return '[%s]' % '; '.join('(Build_Meas N %s %s %s)' % (em.ref(d.x), em.ref(d.t), em.ref(d.p)) for d in ms)


def sym_data(k, nt=1):
    data, txt = [], []
    for i in range(k):
        t = V('mt%d' % (i % nt), 313.15 + 20 * (i % nt))
        d = Measurement(x=V('mx%d' % i, 0.1 + 0.2 * i), t=t, p=V('mp%d' % i, 0.03 + 0.01 * i))
        data.append(d)
        txt.append('(Build_Meas N mx%d mt%d mp%d)' % (i, i % nt, i))
    return Measurements(data=data), '[%s]' % '; '.join(txt)


def snapshot(ms):
    return [(id(d), d.x, d.t, d.p) for d in ms.data], id(ms.data)


def cases():
    cs = []
    # 1. __call__
    for na, nb in ((0, 1), (1, 1), (2, 2)):
        def run(na=na, nb=nb):
            f, _ = sym_fit(1, nb=nb, na=na)
            return f(V('x', 0.3), V('T', 333.15))
        _, ft = sym_fit(1, nb=nb, na=na)
        cs.append(Case('pfcall_%d_%d' % (na, nb), 'Ok (pf_call N %s x T)' % ft, run, lambda em, r: em.ref(r)))
    # 2. __mul__
    def run_mul():
        f, _ = sym_fit(1, nb=2, na=1)
        g = f * V('kk', 2.5)
        if not (g.a is f.a and g.b is f.b):
            pass   # sharing is not part of the functional model (see C20)
        return g
    _, ft = sym_fit(1, nb=2, na=1)
    cs.append(Case('pfmul', 'Ok (pf_mul N %s kk)' % ft, run_mul, fit_text))
    # 3. from_array
    for n, m, ln in ((0, 0, 2), (1, 0, 3), (2, 1, 5), (1, 1, 3)):
        def run(n=n, m=m, ln=ln):
            arr = numpy.array([V('ar%d' % i, 0.1 * (i + 1)) for i in range(ln)], dtype=object)
            f = PervaporationFunction.from_array(arr, n=n, m=m)
            f.a, f.b = list(f.a), list(f.b)
            return f
        cs.append(Case('from_array_%d_%d_%d' % (n, m, ln), 'from_array N [%s] %d %d' % ('; '.join('ar%d' % i for i in range(ln)), n, m), run, fit_text))
    # 4. Measurements extraction
    for xb in ('weight', 'molar', 'mixed'):
        for which in ('first', 'second'):
            def run(xb=xb, which=which):
                m, _ = sym_mixture()
                cset = sym_curve_set(m, 2, xb=xb)
                return getattr(Measurements, 'from_diffusion_curves_' + which)(cset).data
            _, mt = sym_mixture()
            cur = []
            for c in range(2):
                pts = '; '.join('(Build_Composition N cx%d_%d %s, (Build_Permeance N cp%d_%d_1 KG, Build_Permeance N cp%d_%d_2 KG))' % (
                    c, j, ctype_text(xb if xb != 'mixed' else ('weight', 'molar')[j % 2]), c, j, c, j) for j in range(2))
                cur.append('(Build_CurvePts N Tc%d [%s])' % (c, pts))
            cs.append(Case('measurements_%s_%s' % (which, 'x' if xb == 'mixed' else xb[0]),
                           'measurements N %s %s [%s]' % (mt, 'true' if which == 'second' else 'false', '; '.join(cur)),
                           run, meas_text))
    # 5. find_best_fit with fit abstract
    for name, nmax, mmax, shadow_al in (('first_wins', 1, 1, [1.0, 5.0, 6.0, 7.0]), ('last_wins', 1, 1, [9.0, 7.0, 5.0, 1.0]),
                                         ('middle', 1, 1, [9.0, 1.0, 5.0, 0.5]), ('single', 0, 0, [1.0])):
        log = []

        def run(name=name, nmax=nmax, mmax=mmax, shadow_al=shadow_al, log=log):
            del log[:]
            data, _ = sym_data(2)
            before = snapshot(data)

            def fit_stub(d, n=None, m=None, include_zero=False, component_index=0):
                if d is not data:
                    raise TraceEscape('find_best_fit passed a different data object to fit')
                k = len(log)
                log.append((n, m, include_zero, component_index))
                al = V('g%d_%d_al' % (n, m), shadow_al[k])
                return PervaporationFunction(n=n, m=m, alpha=al, a=[V('g%d_%d_a%d' % (n, m, i), 0.0) for i in range(n)],
                                             b=[V('g%d_%d_b%d' % (n, m, i), 0.0) for i in range(m + 1)])
            with patch_attr(OPT, 'fit', fit_stub), patch_attr(PervaporationFunction, '__call__', pf_call_stub):
                r = find_best_fit(data, include_zero=True, component_index=1, n=nmax, m=mmax)
            if snapshot(data) != before:
                raise TraceEscape('find_best_fit modified the measurements it was given')
            want = [(i, j, True, 1) for i in range(nmax + 1) for j in range(mmax + 1)]
            if log != want:
                raise TraceEscape('fit was requested with %r, expected %r' % (log, want))
            return r
        _, dt = sym_data(2)
        fitf = '(fun n m => Build_PervFn N n m (gal n m) (ga n m) (gb n m))'
        cs.append(Case('bestfit_' + name, 'Ok (find_best_fit N %s (grid_of %d %d) %s)' % (fitf, nmax, mmax, dt), run,
                       lambda em, r: '(Some %s)' % fit_text(em, r),
                       binders='(gal : nat -> nat -> num N) (ga gb : nat -> nat -> list (num N))',
                       hyps=['gal %d %d = g%d_%d_al' % (i, j, i, j) for i in range(nmax + 1) for j in range(mmax + 1)]
                       + ['ga %d %d = [%s]' % (i, j, '; '.join('g%d_%d_a%d' % (i, j, k) for k in range(i))) for i in range(nmax + 1) for j in range(mmax + 1)]
                       + ['gb %d %d = [%s]' % (i, j, '; '.join('g%d_%d_b%d' % (i, j, k) for k in range(j + 1))) for i in range(nmax + 1) for j in range(mmax + 1)],
                       tactic='bridge_fit'))
    # 6. fit with the minimiser and the objective abstract
    for iz in (False, True):
        for idx in (0, 1, 2):
            if idx == 2 and iz:
                continue
            seen = {}

            def run(iz=iz, idx=idx, seen=seen):
                seen.clear()
                data, _ = sym_data(3, nt=1)
                before = snapshot(data)

                def objective_stub(d, params, n, m):
                    seen['data'] = list(d.data)
                    seen['nm'] = (n, m)
                    return 0.0

                def minimize_stub(fun, x0=None, method=None, **kw):
                    from scipy.optimize import OptimizeResult
                    seen['calls'] = seen.get('calls', 0) + 1
                    seen['x0'] = list(x0)
                    seen['method'] = method
                    fun(list(x0))
                    # a faithful result object; every other case reports that the optimiser did NOT converge (a legitimate
                    # outcome of Powell): the fitted function must still be exactly what the optimiser returned
                    ok = (idx % 2 == 0)
                    return OptimizeResult(x=numpy.array([V('opt%d' % i, 0.1 * (i + 1)) for i in range(len(x0))], dtype=object),
                                          success=ok, status=0 if ok else 1, message='stub', nfev=1, nit=1, fun=0.0)
                with patch_attr(OPT, 'objective', objective_stub), patch_attr(OPT.optimize, 'minimize', minimize_stub):
                    f = fit(data, n=1, m=1, include_zero=iz, component_index=idx)
                if snapshot(data) != before:
                    raise TraceEscape('fit modified the measurements it was given (%d -> %d points)' % (len(before[0]), len(data.data)))
                if seen.get('calls') != 1:
                    raise TraceEscape('fit called the optimiser %r times, the model calls it once' % seen.get('calls'))
                f.a, f.b = list(f.a), list(f.b)
                return (f, seen['data'])
            _, dt = sym_data(3, nt=1)
            call = ('f <- fit N (fun d n m => [opt0; opt1; opt2; opt3]) (fun ts => [mt0]) %s 1 1 %s %d ;; '
                    'Ok (f, fit_data N (fun ts => [mt0]) %s %s %d)' % (dt, 'true' if iz else 'false', idx, dt, 'true' if iz else 'false', idx))
            cs.append(Case('fit_%s_%d' % ('iz' if iz else 'noiz', idx), call, run,
                           lambda em, r: '(%s, %s)' % (fit_text(em, r[0]), meas_text(em, r[1]))))
    # 7. fit_vle selection
    for name, errs in (('second_best', [5.0, 1.0, 3.0]), ('none_below_1000', [2000.0, 3000.0, 5000.0]), ('first_best', [1.0, 2.0, 3.0])):
        def run(errs=errs):
            calls = []

            class Res:
                pass

            def minimize_stub(fun, x0=None, method=None, **kw):
                k = len(calls)
                calls.append(method)
                r = Res()
                r.x = [V('v%d_%d' % (k, i), float(i)) for i in range(4)] + [10]
                r.k = k
                return r

            def objective_stub(data, params):
                k = int(params[0].args[0].split('_')[0][1:])
                return V('verr%d' % k, errs[k])
            data = UQF.VLEPoints(components=[], data=[])
            with patch_attr(UQF.optimize, 'minimize', minimize_stub), patch_attr(UQF, 'objective', objective_stub), \
                    patch_attr(UQF, 'FITTING_ALGS', ['A', 'B', 'C']):
                p = UQF.fit_vle(data)
            return [p.alpha_12, p.alpha_21, p.beta_12, p.beta_21]
        cands = '; '.join('([v%d_0; v%d_1; v%d_2; v%d_3], verr%d)' % (k, k, k, k, k) for k in range(3))
        cs.append(Case('vle_' + name,
                       'match vle_best N [%s] [] (ilit N 1000) with [a; b; c; d] => Ok [a; b; c; d] | _ => Err AssertionError end' % cands,
                       run, lambda em, r: '[%s]' % '; '.join(em.ref(x) for x in r), tactic='bridge_fit'))
    return cs


def main():
    return emit_family('fit', IMPORTS, cases(), lambda: list(all_vars().keys()), chunk=6)


if __name__ == '__main__':
    for o in main():
        print(o['name'], o['status'], o.get('outcome'), len(o.get('pcs', [])), o.get('error', '')[:300])
