"""Bridge cases: Pervaporation.non_ideal_diffusion_curve with the solver, find_best_fit and the activation energy abstract."""
import pyvaporation as pv
import pyvaporation.pervaporation.pervaporation as PVM
import pyvaporation.diffusion_curve.diffusion_curve as DCM
from pyvaporation.optimizer import PervaporationFunction
from pyvaporation.pervaporation import Pervaporation

from gen import Case, emit_family
from objs import V, all_vars, sym_mixture, sym_composition, sym_permeance, ctype_text
from sym import TraceEscape
from fam_solver import make_solve_stub, patch_attr, mode_vals, mode_text
from fam_process import sym_fit, sym_curve_set, make_fbf_stub, make_ea_stub, pf_call_stub, EA_MODEL, shadowJ
from fam_curve import make_pp_stub, PP_MODEL, BIND, curve_text

IMPORTS = ['Model.Component', 'Model.Mixture', 'Model.Permeance', 'Model.Solver', 'Model.Process', 'Model.Curve', 'Model.NonIdealCurve']


def cases():
    cs = []
    for curves in ('multi', 'single_other', 'single_same'):
        for ip in (False, True):
            for xb in ('weight', 'molar'):
                for n in (0, 1):
                    if xb == 'molar' and curves != 'multi':
                        continue
                    if curves == 'single_same' and ip:
                        continue
                    mode = 'temp' if curves == 'multi' else 'vac'
                    log = []

                    def run(curves=curves, ip=ip, xb=xb, n=n, mode=mode, log=log):
                        del log[:]
                        m, _ = sym_mixture()
                        p = Pervaporation(pv.Membrane(name='symmem'), m)
                        x0, _ = sym_composition('x0', 0.3, xb)
                        cset = sym_curve_set(m, 2 if curves == 'multi' else 1, sameT=False)
                        T = V('Tc0', 313.15) if curves == 'single_same' else V('T', 333.15)
                        tp, pp = mode_vals(mode)
                        ipv = (sym_permeance('ip1', 0.06, 'SI')[0], sym_permeance('ip2', 0.0007, 'GPU')[0]) if ip else None
                        with patch_attr(Pervaporation, 'calculate_partial_fluxes', make_solve_stub(shadowJ)), \
                                patch_attr(PVM, 'find_best_fit', make_fbf_stub(log)), \
                                patch_attr(PervaporationFunction, '__call__', pf_call_stub), \
                                patch_attr(DCM, 'get_partial_pressures', make_pp_stub()), \
                                patch_attr(pv.Membrane, 'calculate_activation_energy', make_ea_stub()):
                            return p.non_ideal_diffusion_curve(diffusion_curve_set=cset, feed_temperature=T, initial_feed_composition=x0,
                                                               delta_composition=V('dx', 0.05), number_of_steps=n, permeate_temperature=tp,
                                                               permeate_pressure=pp, initial_permeances=ipv, precision=V('prec', 5e-5),
                                                               calculation_type='UNIQUAC', n_first=1, n_second=2, m_first=1, m_second=0, include_zero=True)
                    _, mt = sym_mixture()
                    _, x0t = sym_composition('x0', 0.3, xb)
                    nb = 2 if curves == 'multi' else 1
                    Tt = 'Tc0' if curves == 'single_same' else 'T'
                    single = 'None' if curves == 'multi' else '(Some Tc0)'
                    ipt = '(Some (Build_Permeance N ip1 SI, Build_Permeance N ip2 GPU))' if ip else 'None'
                    raw1 = sym_fit(1, nb=nb)[1]
                    raw2 = sym_fit(2, nb=(nb if curves != 'multi' else 1))[1]
                    tpt, ppt = mode_text(mode)
                    call = 'non_ideal_curve N %s %s (okpair Jf) %s %s %s %s %s %s dx %d %s %s %s prec UNIQUAC' % (
                        PP_MODEL, mt, EA_MODEL, single, raw1, raw2, Tt, x0t, n, tpt, ppt, ipt)

                    def result(em, c, log=log, curves=curves):
                        exp_single = curves != 'multi'
                        want = [{'n': 1, 'm': 0 if exp_single else 1, 'iz': True, 'idx': 0}, {'n': 2, 'm': 0, 'iz': True, 'idx': 1}]
                        if log != want:
                            raise TraceEscape('find_best_fit was requested with %r, the model expects %r' % (log, want))
                        return curve_text(em, c)
                    cs.append(Case('nicurve_%s_%s_%s_n%d' % (curves, 'ip' if ip else 'noip', xb[0], n), call, run, result,
                                   binders=BIND + ' (Jf : SolveArgs N -> num N * num N) (EaV : nat -> num N)', tactic='bridge_process'))
    return cs


def main():
    return emit_family('nicurve', IMPORTS, cases(), lambda: list(all_vars().keys()), chunk=2)


if __name__ == '__main__':
    for o in main():
        print(o['name'], o['status'], o.get('outcome'), len(o.get('pcs', [])), o.get('error', '')[:300])
