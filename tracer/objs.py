"""Builders of PyVaporation objects with symbolic leaves, paired with the Gallina
text of the corresponding model value (the "reifier" of DESIGN.md section 4.1)."""
import copy

import pyvaporation as pv
from pyvaporation.utils import (HeatCapacityConstants, NRTLParameters, UNIQUACConstants,
                                UNIQUACParameters, VaporPressureConstants)

from sym import Sym, var

_VARS = {}
ALT = [False]   # second pass of a family: fresh leaves (name + "_b", perturbed shadow) behind the same
                # object names, so that any cache keyed on names / identities shows up as a changed trace


def V(name, value):
    """memoised symbolic leaf (the same Sym object for the same name in one process,
    so that any identity- or value-keyed cache in the code under test is hit)"""
    if ALT[0]:
        name = name + '_b'
        value = value * 1.0173 if value not in (0.0, 1.0) else value
    if name not in _VARS:
        _VARS[name] = var(name, value)
    _VARS[name].val = float(value)   # the shadow value may differ from case to case
    return _VARS[name]


WATCH = []


def deep_snapshot(o, depth=0):
    """structural snapshot of an argument object (symbolic leaves by identity)"""
    import numpy
    if isinstance(o, Sym):
        return ('sym', o._id)
    if depth > 8:
        return ('deep',)
    if hasattr(o, '__attrs_attrs__'):
        return (type(o).__name__,) + tuple((a.name, deep_snapshot(getattr(o, a.name), depth + 1)) for a in o.__attrs_attrs__)
    if isinstance(o, (list, tuple)):
        return (type(o).__name__, len(o)) + tuple(deep_snapshot(x, depth + 1) for x in o)
    if isinstance(o, numpy.ndarray):
        return ('ndarray', o.shape) + tuple(deep_snapshot(x, depth + 1) for x in o.flat)
    if isinstance(o, dict):
        return ('dict',) + tuple((k, deep_snapshot(v, depth + 1)) for k, v in sorted(o.items(), key=lambda kv: str(kv[0])))
    if isinstance(o, (int, float, str, bool)) or o is None:
        return o
    return ('obj', type(o).__name__)


def watch(obj):
    """register an argument object of the traced call: it must be deeply unchanged afterwards"""
    WATCH.append((obj, deep_snapshot(obj)))
    return obj


def check_watched():
    for obj, snap in WATCH:
        if deep_snapshot(obj) != snap:
            raise TraceEscape('the traced call modified an argument object of type %s' % type(obj).__name__)


def all_vars():
    return dict(_VARS)


DEFAULTS = {
    # plausible shadow values (H2O / EtOH like)
    1: dict(M=18.02, a=7.20389, b=-1733.93, c=-39.485, fa=59.0, fb=-7000.0, fc=300000.0,
            ha=75.3, hb=0.01, hc=-1e-5, hd=1e-8, r=0.92, q=1.4, qi=1.0),
    2: dict(M=46.07, a=7.24677, b=-1598.67, c=-46.424, fa=60.0, fb=-7500.0, fc=280000.0,
            ha=112.4, hb=0.02, hc=-2e-5, hd=2e-8, r=2.1055, q=1.972, qi=0.92),
}


def sym_component(i, vp='antoine', uq=True, name=None):
    d = DEFAULTS[i]
    s = str(i)
    M = V('M' + s, d['M'])
    if vp == 'antoine':
        a, b, c = V('va' + s, d['a']), V('vb' + s, d['b']), V('vc' + s, d['c'])
    else:
        a, b, c = V('va' + s, d['fa']), V('vb' + s, d['fb']), V('vc' + s, d['fc'])
    ha, hb, hc, hd = (V('ha' + s, d['ha']), V('hb' + s, d['hb']), V('hc' + s, d['hc']),
                      V('hd' + s, d['hd']))
    comp = pv.Component(
        name=name or ('comp%d' % i), molecular_weight=1.0,
        vapour_pressure_constants=VaporPressureConstants(a=1, b=1, c=1, type=fresh_str(vp if vp in ('antoine', 'frost') else 'antoine')),
        heat_capacity_constants=HeatCapacityConstants(a=1, b=1, c=1, d=1))
    comp.molecular_weight = M
    k = comp.vapour_pressure_constants
    k.a, k.b, k.c = a, b, c
    if vp not in ('antoine', 'frost'):
        k.type = vp
    h = comp.heat_capacity_constants
    h.a, h.b, h.c, h.d = ha, hb, hc, hd
    vpt = {'antoine': 'Antoine', 'frost': 'Frost'}.get(vp, 'OtherVP')
    if uq:
        r, q, qi = V('ur' + s, d['r']), V('uq' + s, d['q']), V('uqi' + s, d['qi'])
        comp.uniquac_constants = UNIQUACConstants(r=r, q_geometric=q, q_interaction=qi)
        uqt = '(Some (Build_UQConst N ur%s uq%s uqi%s))' % (s, s, s)
    else:
        comp.uniquac_constants = None
        uqt = 'None'
    txt = ('(Build_Component N %d M%s (Build_VPConst N %s va%s vb%s vc%s) '
           '(Build_HCConst N ha%s hb%s hc%s hd%s) %s)') % (i, s, vpt, s, s, s, s, s, s, s, uqt)
    return comp, txt


def sym_mixture(nrtl='one', uniquac=True, vp1='antoine', vp2='antoine', uq1=True, uq2=True,
                name='symmix'):
    """nrtl in {None,'one','two'}"""
    c1, t1 = sym_component(1, vp1, uq1)
    c2, t2 = sym_component(2, vp2, uq2)
    if nrtl is None:
        npar, ntxt = None, 'None'
    else:
        npar = NRTLParameters(g12=V('g12', 5823.0), g21=V('g21', -633.0), alpha12=V('al12', 0.3),
                              alpha21=V('al21', 0.25) if nrtl == 'two' else None,
                              a12=V('na12', 0.1), a21=V('na21', -0.2))
        ntxt = '(Some (Build_NRTLParams N g12 g21 al12 %s na12 na21))' % (
            '(Some al21)' if nrtl == 'two' else 'None')
    if uniquac:
        upar = UNIQUACParameters(alpha_12=V('ua12', 21.1), alpha_21=V('ua21', 100.1),
                                 beta_12=V('ub12', -1000.0), beta_21=V('ub21', 3000.0), z=V('uz', 10.0))
        utxt = '(Some (Build_UQParams N ua12 ua21 ub12 ub21 uz))'
    else:
        upar, utxt = None, 'None'
    if npar is None and upar is None:
        raise ValueError('use the constructor test for the empty mixture')
    m = pv.Mixture(name=name, first_component=c1, second_component=c2,
                   nrtl_params=npar, uniquac_params=upar)
    txt = '(Build_Mixture N %s %s %s %s)' % (t1, t2, ntxt, utxt)
    watch(m)
    return m, txt


def fresh_str(s):
    """an equal but not identical string object (what a value read from JSON / CSV / user input is): an identity test
    (`is`) on an enum-like string then takes the other branch during tracing and shows up in the trace"""
    if not isinstance(s, str) or not s:
        return s
    t = ''.join([s[:1], s[1:]])
    return t


def sym_composition(leaf, value, ctype):
    p = V(leaf, value)
    c = pv.Composition(p=0.5, type=fresh_str(ctype))
    c.p = p      # bypass the validator for the *input* (the leaf is constrained by hypotheses)
    watch(c)
    return c, '(Build_Composition N %s %s)' % (leaf, 'Molar' if ctype == 'molar' else 'Weight')


def comp_result_text(em, c):
    return '(Build_Composition N %s %s)' % (em.ref(c.p), 'Molar' if c.type == 'molar' else 'Weight')


ACT = {'NRTL': 'NRTL', 'UNIQUAC': 'UNIQUAC'}


def act_text(ct):
    return ACT.get(ct, 'OtherModel')


# ---------------------------------------------------------------- reification of call arguments
class Reifier:
    """collects symbolic arguments of a stubbed call and builds a Gallina template"""

    def __init__(self):
        self.syms = []

    def num(self, x):
        from sym import lift
        self.syms.append(lift(x))
        return '{%d}' % (len(self.syms) - 1)

    def opt_num(self, x):
        return 'None' if x is None else '(Some %s)' % self.num(x)

    def composition(self, c):
        if not isinstance(c, pv.Composition):
            raise TraceEscape('a %s arrived where a Composition is expected' % type(c).__name__)
        return '(Build_Composition N %s %s)' % (self.num(c.p), ctype_text(c.type))

    def permeance(self, p):
        if not isinstance(p, pv.Permeance):
            raise TraceEscape('a %s arrived where a Permeance is expected' % type(p).__name__)
        return '(Build_Permeance N %s %s)' % (self.num(p.value), units_text(p.units))

    def opt_permeance(self, p):
        return 'None' if p is None else '(Some %s)' % self.permeance(p)

    def act(self, ct):
        if not isinstance(ct, str):
            raise TraceEscape('a %s arrived where the activity model string is expected' % type(ct).__name__)
        return act_text(ct)


from sym import TraceEscape  # noqa: E402

UNITS_TXT = {'GPU': 'GPU', 'SI': 'SI', 'kg/(m2*h*kPa)': 'KG'}


def units_text(u):
    if not isinstance(u, str):
        raise TraceEscape('non-string units')
    return UNITS_TXT.get(u, '(OtherUnit 1)')


def ctype_text(t):
    if t == 'molar':
        return 'Molar'
    if t == 'weight':
        return 'Weight'
    raise TraceEscape('unknown composition type %r' % (t,))


def app(template, syms, val):
    """symbolic value standing for (a projection of) the result of a stubbed call"""
    return Sym('app', (template, list(syms)), float(val))


def sym_permeance(leaf, value, units='kg/(m2*h*kPa)'):
    p = pv.Permeance(value=1.0, units=fresh_str(units))
    p.value = V(leaf, value)
    watch(p)
    return p, '(Build_Permeance N %s %s)' % (leaf, units_text(units))
