"""Driver: run traced cases of a family against /repo and emit coq/gen/Trace_<family>.v
(bridge lemmas: model call = traced expression, under the recorded path conditions)."""
import hashlib
import json
import os
import sys
import time
import traceback

HERE = os.path.dirname(os.path.abspath(__file__))
sys.path.insert(0, HERE)

import sym
from sym import Emitter, Sym, TraceEscape, pc_text

COQ_GEN = os.path.join(os.path.dirname(HERE), 'coq', 'gen')

EXN = {'ValueError', 'KeyError', 'TypeError', 'AttributeError', 'AssertionError',
       'FileExistsError', 'ZeroDivisionError', 'IndexError'}


class Case:
    def __init__(self, name, call, run, result, binders='', hyps=(), tactic=None, note='', alt_call=None, raw_stmt=None):
        """name: lemma suffix; call: Gallina text of the model call;
        run: thunk executing the real code on symbolic inputs;
        result: function (emitter, python result) -> Gallina text of the model value;
        binders: extra universally quantified binders (stub functions ...);
        hyps: extra hypotheses (Gallina text)"""
        self.name, self.call, self.run, self.result = name, call, run, result
        self.binders, self.hyps, self.tactic, self.note = binders, list(hyps), tactic, note
        self.raw_stmt = raw_stmt   # a closed statement produced by an observation (no tracing)
        self.alt_call = alt_call   # model call of the 'spec' variant of a known finding (diagnostic file only)


def global_knobs():
    """interpreter-wide settings a modelling call has no business changing"""
    import numpy, attr, sys as _sys, decimal
    return (tuple(sorted(numpy.geterr().items())), attr.validators.get_disabled(), _sys.getrecursionlimit(),
            tuple(sorted((k, repr(v)) for k, v in numpy.get_printoptions().items())), decimal.getcontext().prec)


KNOBS0 = global_knobs()          # baseline taken when the tracer is imported, before any code under test runs


def run_case(case):
    ctx = sym.reset()
    knobs0 = KNOBS0
    out = {'name': case.name, 'status': 'ok'}
    if case.raw_stmt is not None:
        out.update({'outcome': case.note, 'pcs': [], 'rhs': '', 'hyps': [], 'call': '', 'alt_call': None, 'wall': 0})
        return out
    t0 = time.time()
    try:
        import objs as _objs
        del _objs.WATCH[:]
        with sym.patched():
            try:
                r = case.run()
                exc = None
                _objs.check_watched()
            except TraceEscape:
                raise
            except Exception as e:  # the real code raised: an Err outcome
                r, exc = None, e
        if global_knobs() != knobs0:
            import numpy, attr
            numpy.seterr(**dict(knobs0[0]))
            attr.validators.set_disabled(knobs0[1])
            raise TraceEscape('the traced call changed interpreter-wide state (numpy error handling / attrs validators / ...)')
        em = Emitter()
        pcs = list(ctx.pcs)
        if exc is not None:
            cls = type(exc).__name__
            if cls not in EXN:
                raise TraceEscape('unexpected exception class %s: %s' % (cls, exc))
            # count nodes of the path conditions only
            for pc in pcs:
                em.count(pc[1]); em.count(pc[2])
            rhs = 'Err %s' % cls
            out['outcome'] = cls
        else:
            body_syms = []
            collect_syms(r, body_syms)
            for s in body_syms:
                em.count(s)
            for pc in pcs:
                em.count(pc[1]); em.count(pc[2])
            val = case.result(em, r)
            rhs = '%sOk %s' % (em.lets(), val)
            out['outcome'] = 'Ok'
        # path conditions are emitted without sharing (they are hypotheses)
        em_pc = Emitter(share=False, extra_ops=em.extra_ops)
        seen, hyps = set(), []
        for pc in pcs:
            t, b = pc_text(em_pc, pc)
            key = t
            if key in seen:
                continue
            seen.add(key)
            hyps.append('%s = %s' % (t, 'true' if b else 'false'))
        out['pcs'] = [(pc[0], pc[3], pc[4]) for pc in pcs]
        out['rhs'], out['hyps'] = rhs, hyps
        # the model call may depend on what the run observed (e.g. the number of loop iterations)
        out['call'] = case.call() if callable(case.call) else case.call
        out['alt_call'] = case.alt_call() if callable(case.alt_call) else case.alt_call
    except TraceEscape as e:
        out['status'] = 'escape'
        out['error'] = '%s' % e
        out['trace'] = traceback.format_exc()[-1500:]
    out['wall'] = time.time() - t0
    return out


def collect_syms(r, acc, depth=0):
    if isinstance(r, Sym):
        acc.append(r)
    elif isinstance(r, (list, tuple)):
        for x in r:
            collect_syms(x, acc, depth + 1)
    elif isinstance(r, dict):
        for x in r.values():
            collect_syms(x, acc, depth + 1)
    elif hasattr(r, '__attrs_attrs__') and depth < 6:
        for a in r.__attrs_attrs__:
            collect_syms(getattr(r, a.name), acc, depth + 1)
    elif hasattr(r, 'dtype') and getattr(r, 'dtype', None) == object:
        for x in r.flat:
            collect_syms(x, acc, depth + 1)


def lemma_text(case, out, leaves, diagnostic=False):
    name = 'br_' + case.name
    if case.raw_stmt is not None and out['status'] == 'ok':
        tac = case.tactic or 'vm_compute; reflexivity'
        if diagnostic:
            return ('Goal %s.\nProof. tryif (solve [%s]) then idtac "BRIDGE-OK %s" else idtac "BRIDGE-FAIL %s". Abort.\n\n'
                    % (case.raw_stmt, tac, name, name))
        return 'Lemma %s : %s.\nProof. %s. Qed.\n\n' % (name, case.raw_stmt, tac)
    if out['status'] != 'ok':
        stmt = 'False'
        comment = '(* TRACE ESCAPE / HISTORY DEPENDENCE in %s: %s *)\n' % (case.name, out.get('error', '').replace('*)', '* )'))
    else:
        comment = ''
        hyps = case.hyps + out['hyps']
        stmt = ''.join('%s ->\n  ' % h for h in hyps) + '%s =\n    %s' % (out.get('use_call') or out['call'], out['rhs'])
    binder = '(%s : num N)' % ' '.join(leaves) if leaves else ''
    head = 'forall %s %s,\n  ' % (binder, case.binders) if (binder or case.binders) else ''
    tac = case.tactic or 'bridge'
    if diagnostic:
        txt = ('%sGoal %s%s.\nProof. tryif (solve [intros; %s]) then idtac "BRIDGE-OK %s" '
               'else idtac "BRIDGE-FAIL %s". Abort.\n\n') % (comment, head, stmt, tac, name, name)
        if out['status'] == 'ok' and not name.endswith('__alt'):
            # second tier (BridgeR.v): the same statement at N := ROps, proved modulo the field identities of R;
            # only consulted by bin/check for a lemma whose first-tier proof fails
            txt += ('Goal (fun N : NumOps => %s%s) ROps.\nProof. cbv beta. tryif (solve [intros; timeout 100 bridge_R]) '
                    'then idtac "BRIDGE-R-OK %s" else idtac "BRIDGE-R-FAIL %s". Abort.\n\n') % (head, stmt, name, name)
        return txt
    return '%sLemma %s : %s%s.\nProof. intros; %s. Qed.\n\n' % (comment, name, head, stmt, tac)


def emit_family(fam, imports, cases, leaves_fn, extra_header='', chunk=None):
    """imports: list of module names (PV-qualified); leaves_fn: () -> list of leaf names"""
    outs = [run_case(c) for c in cases]
    leaves = sorted(leaves_fn())
    # second pass on the same process state with renamed leaves: the trace of every case must be the
    # same expression up to the renaming (no hidden state keyed on names, identities or call order)
    import objs, re
    objs.ALT[0] = True
    try:
        for c, o in zip(cases, outs):
            if o['status'] != 'ok':
                continue
            o2 = run_case(c)
            strip = lambda t: re.sub(r'\b(\w+?)_b\b', r'\1', t)
            names = set(objs.all_vars())
            stale = [] if o2['status'] != 'ok' else [
                t for t in re.findall(r'\b\w+\b', o2['rhs'] + ' '.join(o2['hyps']))
                if t in names and not t.endswith('_b')]
            if stale or o2['status'] != 'ok' or strip(o2['rhs']) != o['rhs'] or [strip(h) for h in o2['hyps']] != o['hyps'] or strip(o2['call']) != o['call']:
                o['status'] = 'history'
                o['error'] = ('the trace of this case changed when it was repeated later in the same process with '
                              'different symbolic leaves (hidden state / cache): ' + (o2.get('error') or strip(o2.get('rhs', ''))[:300]))
    finally:
        objs.ALT[0] = False
    import glob
    chunk = int(os.environ.get('VERIF_CHUNK', chunk or 6))
    groups = [list(range(i, min(i + chunk, len(cases)))) for i in range(0, len(cases), chunk)] or [[]]
    keep = set()
    for gi, idxs in enumerate(groups):
        for diagnostic in (False, True):
            lines = ['(* GENERATED by tracer/gen.py from the current /repo sources — do not edit *)\n',
                     'From Coq Require Import %sZArith List Bool PrimFloat.\n' % ('Reals ' if diagnostic else ''),
                     'From PV Require Import Num PyBase BridgeTac %s%s.\n' % ('BridgeR ' if diagnostic else '', ' '.join(imports)),
                     'Import ListNotations.\n', (extra_header if gi == 0 else ''),
                     '\nSection Bridges.\nContext (N : NumOps).\n\n']
            for i in idxs:
                c, o = cases[i], outs[i]
                lines.append(lemma_text(c, o, leaves, diagnostic))
                if diagnostic and c.alt_call:
                    import copy as _copy
                    c2 = _copy.copy(c)
                    c2.name = c.name + '__alt'
                    o2 = dict(o)
                    o2['use_call'] = o.get('alt_call')
                    if o2['use_call']:
                        lines.append(lemma_text(c2, o2, leaves, True))
            lines.append('End Bridges.\n')
            text = ''.join(lines)
            path = os.path.join(COQ_GEN, ('Diag_%s_%02d.v' if diagnostic else 'Trace_%s_%02d.v') % (fam, gi))
            keep.add(path)
            write_if_changed(path, text)
    stale = glob.glob(os.path.join(COQ_GEN, 'Trace_%s_*.v' % fam)) + glob.glob(os.path.join(COQ_GEN, 'Diag_%s_*.v' % fam)) \
        + glob.glob(os.path.join(COQ_GEN, 'Trace_%s.v' % fam)) + glob.glob(os.path.join(COQ_GEN, 'Diag_%s.v' % fam))
    for old in stale:
        if old not in keep:
            for suffix in ('.v', '.vo', '.vos', '.vok', '.glob'):
                try:
                    os.remove(old[:-2] + suffix)
                except OSError:
                    pass
    for i, o in enumerate(outs):
        o['chunk'] = i // chunk
    report = {'family': fam, 'cases': [{k: v for k, v in o.items() if k not in ('rhs',)} for o in outs]}
    with open(os.path.join(COQ_GEN, 'report_%s.json' % fam), 'w') as f:
        json.dump(report, f, indent=1, default=str)
    return outs


def write_if_changed(path, text):
    os.makedirs(os.path.dirname(path), exist_ok=True)
    if os.path.exists(path):
        with open(path) as f:
            if f.read() == text:
                return False
    with open(path, 'w') as f:
        f.write(text)
    return True
