"""Bridge cases: DiffusionCurve construction / metrics, ideal_diffusion_curve, ProcessModel metrics."""
import inspect
import pyvaporation as pv
import pyvaporation.diffusion_curve.diffusion_curve as DCM
from pyvaporation.diffusion_curve import DiffusionCurve
from pyvaporation.pervaporation import Pervaporation
from pyvaporation.process import ProcessModel

from gen import Case, emit_family
from objs import V, all_vars, sym_mixture, act_text, Reifier, app, sym_permeance, ctype_text, units_text, fresh_str
from sym import TraceEscape
from fam_solver import make_solve_stub, patch_attr, MODES, mode_vals, mode_text

IMPORTS = ['Model.Component', 'Model.Mixture', 'Model.Permeance', 'Model.Solver', 'Model.Curve']
PP_SIG = inspect.signature(DCM.get_partial_pressures)


def make_pp_stub():
    def stub(*a, **kw):
        ba = PP_SIG.bind(*a, **kw)
        ba.apply_defaults()
        b = ba.arguments
        r = Reifier()
        t = '%s %s %s' % (r.num(b['temperature']), r.composition(b['composition']), r.act(b['calculation_type']))
        return (app('(fst (PPf %s))' % t, r.syms, 30.0), app('(snd (PPf %s))' % t, r.syms, 8.0))
    return stub


PP_MODEL = '(fun T x ct => okpair (fun _ : unit => PPf T x ct) tt)'
BIND = '(PPf : num N -> Composition N -> ActModel -> num N * num N)'


def comp(leaf, val, t):
    c = pv.Composition(p=0.5, type=fresh_str(t))
    c.p = V(leaf, val)
    return c, '(Build_Composition N %s %s)' % (leaf, ctype_text(t))


def perm_text(em, p):
    return '(Build_Permeance N %s %s)' % (em.ref(p.value), units_text(p.units))


def comp_text(em, c):
    return '(Build_Composition N %s %s)' % (em.ref(c.p), ctype_text(c.type))


def curve_text(em, c):
    if c.partial_fluxes is None or c.permeances is None:
        raise TraceEscape('constructed curve lacks fluxes or permeances')
    opt = lambda x: 'None' if x is None else '(Some %s)' % em.ref(x)
    return '(Build_Curve N %s [%s] [%s] %s %s [%s])' % (
        em.ref(c.feed_temperature), '; '.join(comp_text(em, x) for x in c.feed_compositions),
        '; '.join('(%s, %s)' % (em.ref(j[0]), em.ref(j[1])) for j in c.partial_fluxes),
        opt(c.permeate_temperature), opt(c.permeate_pressure),
        '; '.join('(%s, %s)' % (perm_text(em, p[0]), perm_text(em, p[1])) for p in c.permeances))


def inputs(npts, basis, given, units='kg/(m2*h*kPa)'):
    xs, xt, js, jt, ps, pt = [], [], [], [], [], []
    for i in range(npts):
        c, t = comp('cx%d' % i, 0.2 + 0.3 * i, basis if basis != 'mixed' else ('weight', 'molar')[i % 2])   # 'mixed': every point its own basis
        xs.append(c); xt.append(t)
        js.append((V('cj%d_1' % i, 0.6 + 0.1 * i), V('cj%d_2' % i, 0.02)))
        jt.append('(cj%d_1, cj%d_2)' % (i, i))
        p1, t1 = sym_permeance('cp%d_1' % i, 0.03 if units.startswith('kg') else 5e-7, units)
        p2, t2 = sym_permeance('cp%d_2' % i, 0.0004 if units.startswith('kg') else 4e-9, units)
        ps.append((p1, p2)); pt.append('(%s, %s)' % (t1, t2))
    J = js if given in ('J', 'both') else None
    P = ps if given in ('P', 'both') else None
    Jt = '(Some [%s])' % '; '.join(jt) if J is not None else 'None'
    Pt = '(Some [%s])' % '; '.join(pt) if P is not None else 'None'
    return xs, '[%s]' % '; '.join(xt), J, Jt, P, Pt


def cases():
    cs = []
    cfgs = []
    for given in ('J', 'P', 'both', 'none'):
        for mode in MODES:
            for basis in ('weight', 'molar'):
                for npts in (0, 1, 2):
                    if given != 'J' and (mode != 'temp' or basis != 'weight') and not (given == 'P' and mode == 'vac' and basis == 'molar'):
                        continue
                    if npts == 0 and not (mode == 'vac' and basis == 'weight'):
                        continue
                    if npts == 2 and basis == 'molar' and mode not in ('press', 'temp'):
                        continue
                    cfgs.append((given, mode, basis, npts, 'kg/(m2*h*kPa)'))
    cfgs.append(('P', 'vac', 'weight', 2, 'SI'))
    cfgs.append(('J', 'temp', 'mixed', 2, 'kg/(m2*h*kPa)'))
    cfgs.append(('J', 'press', 'mixed', 2, 'kg/(m2*h*kPa)'))
    cfgs.append(('P', 'vac', 'mixed', 2, 'kg/(m2*h*kPa)'))
    cfgs.append(('both', 'press', 'weight', 1, 'GPU'))
    for given, mode, basis, npts, units in cfgs:
        def run(given=given, mode=mode, basis=basis, npts=npts, units=units):
            m, _ = sym_mixture()
            xs, _, J, _, P, _ = inputs(npts, basis, given, units)
            tp, pp = mode_vals(mode)
            with patch_attr(DCM, 'get_partial_pressures', make_pp_stub()):
                return DiffusionCurve(mixture=m, membrane_name='symmem', feed_temperature=V('T', 333.15), feed_compositions=xs,
                                      partial_fluxes=J, permeate_temperature=tp, permeate_pressure=pp, permeances=P)
        _, mt = sym_mixture()
        _, xt, _, Jt, _, Pt = inputs(npts, basis, given, units)
        tpt, ppt = mode_text(mode)
        cs.append(Case('curve_%s_%s_%s_%d_%s' % (given, mode, 'x' if basis == 'mixed' else basis[0], npts, units_text(units).strip('()').replace(' ', '')),
                       'mk_curve N %s %s (Build_CurveIn N T %s %s %s %s %s)' % (PP_MODEL, mt, xt, Jt, tpt, ppt, Pt),
                       run, curve_text, binders=BIND, tactic='bridge_solver'))
    # metrics on a constructed curve (both given; no partial pressures involved)
    for metric in ('permeate_composition', 'get_separation_factor', 'get_psi', 'get_selectivity'):
        for basis in ('weight', 'molar', 'mixed'):
            def run(metric=metric, basis=basis):
                m, _ = sym_mixture()
                xs, _, J, _, P, _ = inputs(2, basis, 'both')
                c = DiffusionCurve(mixture=m, membrane_name='symmem', feed_temperature=V('T', 333.15), feed_compositions=xs,
                                   partial_fluxes=J, permeances=P)
                return list(getattr(c, metric))
            _, mt = sym_mixture()
            _, xt, _, Jt, _, Pt = inputs(2, basis, 'both')
            cv = '(Build_Curve N T %s %s None None %s)' % (xt, Jt[6:-1], Pt[6:-1])
            fn = {'permeate_composition': 'curve_permeate_composition N %s' % cv,
                  'get_separation_factor': 'curve_separation_factor N %s %s' % (mt, cv),
                  'get_psi': 'curve_psi N %s %s' % (mt, cv),
                  'get_selectivity': 'curve_selectivity N %s %s' % (mt, cv)}[metric]
            res = (lambda em, r: '[%s]' % '; '.join(comp_text(em, x) for x in r)) if metric == 'permeate_composition' \
                else (lambda em, r: '[%s]' % '; '.join(em.ref(x) for x in r))
            cs.append(Case('metric_%s_%s' % (metric, 'x' if basis == 'mixed' else basis[0]), fn, run, res, tactic='bridge_solver'))
    # ideal_diffusion_curve with the solver abstract
    for mode in ('vac', 'temp', 'press', 'both'):
        for ct in ('NRTL', 'UNIQUAC'):
            if ct == 'UNIQUAC' and mode != 'temp':
                continue
            def run(mode=mode, ct=ct):
                m, _ = sym_mixture()
                p = Pervaporation(pv.Membrane(name='symmem'), m)
                xs, _, _, _, _, _ = inputs(2, 'weight', 'none')
                tp, pp = mode_vals(mode)
                with patch_attr(Pervaporation, 'calculate_partial_fluxes', make_solve_stub()), \
                        patch_attr(DCM, 'get_partial_pressures', make_pp_stub()):
                    return p.ideal_diffusion_curve(feed_temperature=V('T', 333.15), compositions=xs, permeate_temperature=tp,
                                                   permeate_pressure=pp, precision=V('prec', 5e-5), calculation_type=ct)
            _, mt = sym_mixture()
            _, xt, _, _, _, _ = inputs(2, 'weight', 'none')
            tpt, ppt = mode_text(mode)
            cs.append(Case('idealcurve_%s_%s' % (mode, ct),
                           'ideal_diffusion_curve N %s %s (okpair Jf) T %s %s %s prec %s' % (PP_MODEL, mt, xt, tpt, ppt, act_text(ct)),
                           run, curve_text, binders=BIND + ' (Jf : SolveArgs N -> num N * num N)', tactic='bridge_solver'))
    # ProcessModel metrics
    def mkpm():
        m, _ = sym_mixture()
        xs = [comp('px%d' % i, 0.3 - 0.05 * i, 'weight')[0] for i in range(2)]
        ys = [comp('py%d' % i, 0.9, 'weight')[0] for i in range(2)]
        J = [(V('pj%d_1' % i, 0.6), V('pj%d_2' % i, 0.02)) for i in range(2)]
        P = [(sym_permeance('pp%d_1' % i, 0.03)[0], sym_permeance('pp%d_2' % i, 0.0004)[0]) for i in range(2)]
        return ProcessModel(mixture=m, membrane_name='symmem', feed_temperature=[1, 1], feed_compositions=xs, permeate_composition=ys,
                            permeate_temperature=[None, None], permeate_pressure=[None, None], feed_mass=[1, 1], partial_fluxes=J,
                            permeances=P, time=[0, 1], feed_evaporation_heat=[0, 0], permeate_condensation_heat=[None, None])
    X = lambda i: '(Build_Composition N px%d Weight)' % i
    Y = lambda i: '(Build_Composition N py%d Weight)' % i
    cs.append(Case('pm_separation_factor', 'Ok [process_separation_factor N %s %s; process_separation_factor N %s %s]' % (Y(0), X(0), Y(1), X(1)),
                   lambda: list(mkpm().get_separation_factor), lambda em, r: '[%s]' % '; '.join(em.ref(x) for x in r)))
    cs.append(Case('pm_psi', 'Ok [process_psi N (pj0_1, pj0_2) (process_separation_factor N %s %s); process_psi N (pj1_1, pj1_2) (process_separation_factor N %s %s)]' % (Y(0), X(0), Y(1), X(1)),
                   lambda: list(mkpm().get_psi), lambda em, r: '[%s]' % '; '.join(em.ref(x) for x in r)))
    cs.append(Case('pm_selectivity', 'Ok [process_selectivity N (Build_Permeance N pp0_1 KG, Build_Permeance N pp0_2 KG); process_selectivity N (Build_Permeance N pp1_1 KG, Build_Permeance N pp1_2 KG)]',
                   lambda: list(mkpm().get_selectivity), lambda em, r: '[%s]' % '; '.join(em.ref(x) for x in r)))
    return cs


def main():
    return emit_family('curve', IMPORTS, cases(), lambda: list(all_vars().keys()), chunk=6)


if __name__ == '__main__':
    for o in main():
        print(o['name'], o['status'], o.get('outcome'), len(o.get('pcs', [])), o.get('error', '')[:300])
