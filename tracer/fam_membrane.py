"""Bridge cases: Membrane.get_permeance / calculate_activation_energy / selectivity / pure flux (membrane.py)."""
import numpy
import pyvaporation as pv
from pyvaporation.experiments import IdealExperiment, IdealExperiments

from gen import Case, emit_family
from objs import V, all_vars, sym_component, Reifier, app, sym_permeance, units_text
from fam_solver import patch_attr

IMPORTS = ['Model.Component', 'Model.Mixture', 'Model.Permeance', 'Model.Membrane']


def lstsq_stub(a, y, rcond=None):
    """numpy.linalg.lstsq on the [x, 1] design matrix as symbolic ordinary least squares (oracle assumption)"""
    xs = [row[0] for row in a]
    n = len(xs)
    sx = sum(xs)
    sy = sum(y)
    sxy = sum(xs[i] * y[i] for i in range(n))
    sxx = sum(x * x for x in xs)
    slope = (n * sxy - sx * sy) / (n * sxx - sx * sx)
    icpt = (sy - slope * sx) / n
    return (numpy.array([slope, icpt], dtype=object), None, None, None)


def perm_text(em, p):
    return '(Build_Permeance N %s %s)' % (em.ref(p.value), units_text(p.units))


def build(spec, comps):
    """spec: list of (leafT, shadowT, comp index, leafP, shadowP, units, Ea leaf or None)"""
    exps, txt = [], []
    for (lt, st, ci, lp, sp, units, ea) in spec:
        c, _ = comps[ci]
        p, pt = sym_permeance(lp, sp, units)
        e = IdealExperiment(name='e', temperature=V(lt, st), component=c, permeance=p,
                            activation_energy=(V(ea, 30000.0) if ea else None))
        exps.append(e)
        txt.append('(Build_Experiment N %s %d %s %s)' % (lt, ci, pt, '(Some %s)' % ea if ea else 'None'))
    from objs import watch
    return watch(pv.Membrane(name='symmem', ideal_experiments=IdealExperiments(experiments=exps))), '(Some [%s])' % '; '.join(txt)


KG = 'kg/(m2*h*kPa)'
SPECS = {
    # one stated experiment per component
    'one_stated': [('Te1', 313.15, 1, 'Pe1', 0.05, KG, 'Ea1'), ('Te2', 313.15, 2, 'Pe2', 0.0005, KG, 'Ea2')],
    'one_stated_SI': [('Te1', 313.15, 1, 'Pe1', 7e-7, 'SI', 'Ea1'), ('Te2', 313.15, 2, 'Pe2', 3e-9, 'GPU', 'Ea2')],
    'one_unstated': [('Te1', 313.15, 1, 'Pe1', 0.05, KG, None)],
    # three experiments of component 1 in NON-ascending temperature order, unstated -> regression
    'three_unstated': [('Te2', 333.15, 1, 'Pe2', 0.08, KG, None), ('Te1', 313.15, 1, 'Pe1', 0.05, KG, None),
                       ('Te3', 353.15, 1, 'Pe3', 0.12, KG, None), ('Tf1', 320.0, 2, 'Pf1', 0.0005, KG, 'Ea2')],
    'two_stated_desc': [('Te2', 353.15, 1, 'Pe2', 0.12, KG, 'Ea1'), ('Te1', 313.15, 1, 'Pe1', 0.05, KG, 'Ea1b')],
    'two_stated_GPU': [('Te1', 313.15, 1, 'Pe1', 2000.0, 'GPU', 'Ea1'), ('Te2', 353.15, 1, 'Pe2', 5000.0, 'GPU', 'Ea1b')],
    'none_for_comp': [('Te2', 313.15, 2, 'Pe2', 0.0005, KG, 'Ea2')],
}


def cases():
    cs = []
    def comps():
        return {1: sym_component(1, 'antoine'), 2: sym_component(2, 'antoine')}
    c1t = sym_component(1, 'antoine')[1]
    c2t = sym_component(2, 'antoine')[1]
    queries = {'exact1': ('Te1', 313.15), 'exact2': ('Te2', None), 'near1': ('T', 318.0), 'near_hi': ('T', 349.0), 'mid': ('T', 334.0)}
    for sname, spec in SPECS.items():
        for qname, (leaf, val) in queries.items():
            if leaf == 'Te2' and not any(s[0] == 'Te2' and s[2] == 1 for s in spec):
                continue
            if sname in ('one_stated', 'one_stated_SI', 'one_unstated', 'none_for_comp') and qname in ('near_hi', 'mid', 'exact2'):
                continue
            for ip in (False, True):
                if ip and not (sname in ('one_stated', 'two_stated_desc') and qname in ('near1', 'exact1')):
                    continue
                def run(spec=spec, leaf=leaf, val=val, ip=ip):
                    cc = comps()
                    mem, _ = build(spec, cc)
                    shadow = val if val is not None else [s[1] for s in spec if s[0] == leaf][0]
                    with patch_attr(numpy.linalg, 'lstsq', lstsq_stub):
                        return mem.get_permeance(V(leaf, shadow), cc[1][0], sym_permeance('Pinit', 0.07)[0] if ip else None)
                _, et = build(spec, comps())
                cs.append(Case('perm_%s_%s%s' % (sname, qname, '_ip' if ip else ''),
                               'get_permeance N %s %s %s %s' % (et, leaf, c1t, '(Some (Build_Permeance N Pinit KG))' if ip else 'None'),
                               run, perm_text))
        # activation energy
        def run_ea(spec=spec):
            cc = comps()
            mem, _ = build(spec, cc)
            with patch_attr(numpy.linalg, 'lstsq', lstsq_stub):
                return mem.calculate_activation_energy(cc[1][0])
        _, et = build(spec, comps())
        cs.append(Case('ea_%s' % sname, 'activation_energy N %s %s' % (et, c1t), run_ea, lambda em, r: em.ref(r)))
    # no ideal experiments at all
    def run_none():
        cc = comps()
        return pv.Membrane(name='symmem').get_permeance(V('T', 318.0), cc[1][0])
    cs.append(Case('perm_no_experiments', 'get_permeance N None T %s None' % c1t, run_none, perm_text))
    # selectivity and pure-component flux
    for ct in ('weight', 'molar'):
        def run_sel(ct=ct):
            cc = comps()
            mem, _ = build(SPECS['one_stated_SI'], cc)
            return mem.get_ideal_selectivity(V('T', 318.0), cc[1][0], cc[2][0], ct)
        _, et = build(SPECS['one_stated_SI'], comps())
        cs.append(Case('selectivity_%s' % ct, 'ideal_selectivity N %s T %s %s %s' % (et, c1t, c2t, 'true' if ct == 'molar' else 'false'),
                       run_sel, lambda em, r: em.ref(r)))
    for mode, (tp, pp) in {'vac': (None, None), 'temp': ('Tp', None), 'press': (None, 'pperm'), 'both': ('Tp', 'pperm')}.items():
        def run_pf(tp=tp, pp=pp):
            cc = comps()
            mem, _ = build(SPECS['one_stated'], cc)
            return mem.get_estimated_pure_component_flux(V('T', 318.0), cc[1][0], V('Tp', 280.0) if tp else None, V('pperm', 2.0) if pp else None)
        _, et = build(SPECS['one_stated'], comps())
        cs.append(Case('pureflux_%s' % mode, 'pure_component_flux N %s T %s %s %s' % (et, c1t, '(Some Tp)' if tp else 'None', '(Some pperm)' if pp else 'None'),
                       run_pf, lambda em, r: em.ref(r)))
    return cs


def main():
    return emit_family('membrane', IMPORTS, cases(), lambda: list(all_vars().keys()), chunk=8)


if __name__ == '__main__':
    for o in main():
        print(o['name'], o['status'], o.get('outcome'), len(o.get('pcs', [])), o.get('error', '')[:300])
