"""Bridge cases: driving-force function, fixed-point solver, helpers (pervaporation.py 18-216)."""
import inspect

import pyvaporation as pv
from pyvaporation.pervaporation import Pervaporation

from gen import Case, emit_family
from objs import (V, all_vars, sym_mixture, sym_composition, act_text, Reifier, app, sym_permeance,
                  comp_result_text)
from sym import TraceEscape, Sym

IMPORTS = ['Model.Component', 'Model.Mixture', 'Model.Permeance', 'Model.Solver']

REAL_FLUX = Pervaporation.get_partial_fluxes_from_permeate_composition
REAL_SOLVE = Pervaporation.calculate_partial_fluxes
FLUX_SIG = inspect.signature(REAL_FLUX)
SOLVE_SIG = inspect.signature(REAL_SOLVE)


def pair(em, r):
    return '(%s, %s)' % (em.ref(r[0]), em.ref(r[1]))


def dummy_membrane():
    return pv.Membrane(name='symmem')


def flux_args_text(b):
    """Gallina FluxArgs of a bound call of get_partial_fluxes_from_permeate_composition"""
    r = Reifier()
    t = '(Build_FluxArgs N %s %s %s %s %s %s %s %s)' % (
        r.permeance(b['first_component_permeance']), r.permeance(b['second_component_permeance']),
        r.composition(b['permeate_composition']), r.composition(b['feed_composition']),
        r.num(b['feed_temperature']), r.opt_num(b['permeate_temperature']), r.opt_num(b['permeate_pressure']),
        r.act(b['calculation_type']))
    return t, r.syms


def solve_args_text(b):
    r = Reifier()
    t = '(Build_SolveArgs N %s %s %s %s %s %s %s %s)' % (
        r.num(b['feed_temperature']), r.composition(b['composition']), r.num(b['precision']),
        r.opt_num(b['permeate_temperature']), r.opt_num(b['permeate_pressure']),
        r.opt_permeance(b['first_component_permeance']), r.opt_permeance(b['second_component_permeance']),
        r.act(b['calculation_type']))
    return t, r.syms


def make_flux_stub(shadows):
    """stub for the driving-force evaluation: returns (fst (Ff args), snd (Ff args)); the shadow
    values of successive calls are taken from `shadows` (list of (J1, J2))"""
    calls = []

    def stub(self, *a, **kw):
        ba = FLUX_SIG.bind(self, *a, **kw)
        ba.apply_defaults()
        b = ba.arguments
        t, syms = flux_args_text(b)
        j = shadows[min(len(calls), len(shadows) - 1)]
        calls.append(t)
        return (app('(fst (Ff %s))' % t, syms, j[0]), app('(snd (Ff %s))' % t, syms, j[1]))
    stub.calls = calls
    return stub


def make_solve_stub(shadow_fn=None):
    """stub for calculate_partial_fluxes inside curves / process loops: (fst (Jf args), snd (Jf args))"""
    calls = []

    def stub(self, *a, **kw):
        ba = SOLVE_SIG.bind(self, *a, **kw)
        ba.apply_defaults()
        b = ba.arguments
        t, syms = solve_args_text(b)
        j = shadow_fn(len(calls)) if shadow_fn else (0.7, 0.01)
        calls.append(t)
        return (app('(fst (Jf %s))' % t, syms, j[0]), app('(snd (Jf %s))' % t, syms, j[1]))
    stub.calls = calls
    return stub


def make_perm_stub():
    def stub(self, temperature, component, initial_permeance=None):
        r = Reifier()
        t = r.num(temperature)
        idx = {'comp1': 1, 'comp2': 2}[component.name]
        p = pv.Permeance(value=1.0, units='kg/(m2*h*kPa)')
        p.value = app('(PmV %s %d)' % (t, idx), r.syms, {1: 0.05, 2: 0.0005}[idx])
        return p
    return stub


PERM_MODEL = '(fun T c => Ok (Build_Permeance N (PmV T (cname c)) KG))'


def make_pp_stub():
    import pyvaporation.mixtures.mixture as MX
    sig = inspect.signature(MX.get_partial_pressures)

    def stub(*a, **kw):
        ba = sig.bind(*a, **kw)
        ba.apply_defaults()
        b = ba.arguments
        r = Reifier()
        t = '%s %s %s' % (r.num(b['temperature']), r.composition(b['composition']), r.act(b['calculation_type']))
        return (app('(fst (PPf %s))' % t, r.syms, 30.0), app('(snd (PPf %s))' % t, r.syms, 20.0))
    return stub


PP_MODEL = '(fun T x ct => okpair (fun _ : unit => PPf T x ct) tt)'


class patch_attr:
    def __init__(self, obj, name, value):
        self.obj, self.name, self.value = obj, name, value

    def __enter__(self):
        self.old = getattr(self.obj, self.name)
        setattr(self.obj, self.name, self.value)

    def __exit__(self, *a):
        setattr(self.obj, self.name, self.old)


MODES = {'vac': (None, None), 'temp': ('Tp', None), 'press': (None, 'pp'), 'both': ('Tp', 'pp')}


def mode_vals(mode):
    tp, pp = MODES[mode]
    return (V('Tp', 280.0) if tp else None, V('pperm', 2.0) if pp else None)


def mode_text(mode):
    tp, pp = MODES[mode]
    return ('(Some Tp)' if tp else 'None', '(Some pperm)' if pp else 'None')


def cases():
    cs = []
    # ---- 1. the driving-force function, flat
    for mode in MODES:
        for ct in ('NRTL', 'UNIQUAC', 'Wilson'):
            for xb, yb in (('weight', 'weight'), ('molar', 'weight'), ('weight', 'molar')):
                if ct != 'NRTL' and (xb, yb) != ('weight', 'weight'):
                    continue
                def run(mode=mode, ct=ct, xb=xb, yb=yb):
                    m, _ = sym_mixture()
                    p = Pervaporation(dummy_membrane(), m)
                    x, _ = sym_composition('x', 0.3, xb)
                    y, _ = sym_composition('y', 0.9, yb)
                    tp, pp = mode_vals(mode)
                    return p.get_partial_fluxes_from_permeate_composition(
                        sym_permeance('P1', 0.05)[0], sym_permeance('P2', 0.0005)[0], y, x, V('T', 333.15),
                        permeate_temperature=tp, permeate_pressure=pp, calculation_type=ct)
                _, mt = sym_mixture()
                _, xt = sym_composition('x', 0.3, xb)
                _, yt = sym_composition('y', 0.9, yb)
                tpt, ppt = mode_text(mode)
                fa = '(Build_FluxArgs N (Build_Permeance N P1 KG) (Build_Permeance N P2 KG) %s %s T %s %s %s)' % (
                    yt, xt, tpt, ppt, act_text(ct))
                cs.append(Case('flux_%s_%s_%s%s' % (mode, ct, xb[0], yb[0]),
                               'fluxes_from_permeate N %s %s' % (mt, fa), run, pair,
                               alt_call='fluxes_from_permeate_gen N true false %s %s' % (mt, fa)))
    # positional call of the driving-force function (as a user would)
    def run_pos():
        m, _ = sym_mixture()
        p = Pervaporation(dummy_membrane(), m)
        x, _ = sym_composition('x', 0.3, 'weight')
        y, _ = sym_composition('y', 0.9, 'weight')
        return p.get_partial_fluxes_from_permeate_composition(
            sym_permeance('P1', 0.05)[0], sym_permeance('P2', 0.0005)[0], y, x, V('T', 333.15), V('Tp', 280.0), None, 'UNIQUAC')
    _, mt = sym_mixture()
    cs.append(Case('flux_positional', 'fluxes_from_permeate N %s (Build_FluxArgs N (Build_Permeance N P1 KG) (Build_Permeance N P2 KG) '
                   '(Build_Composition N y Weight) (Build_Composition N x Weight) T (Some Tp) None UNIQUAC)' % mt, run_pos, pair,
                   alt_call='fluxes_from_permeate_gen N true false %s (Build_FluxArgs N (Build_Permeance N P1 KG) (Build_Permeance N P2 KG) '
                   '(Build_Composition N y Weight) (Build_Composition N x Weight) T (Some Tp) None UNIQUAC)' % mt))

    # ---- 2. the solver loop with the driving-force evaluation abstract (Ff)
    loop_cfgs = [
        # name, precision shadow, shadows of successive Ff results, permeances given?
        ('it0', 1.5, [(0.7, 0.3)], True),                               # 1 >= precision is false: no iteration
        ('it1', 0.01, [(0.7, 0.3), (0.7, 0.3)], True),                  # y0=0.7 by shadow P*pf; see below
        ('it2', 0.01, [(0.6, 0.4), (0.6001, 0.3999), (0.6001, 0.3999)], True),
        ('it3', 0.01, [(0.2, 0.8), (0.5, 0.5), (0.5001, 0.4999), (0.5, 0.5)], True),
        ('bad_y1', 0.01, [(1.3, -0.3)], True),                          # validator rejects the first iterate
        ('it1_membrane', 0.01, [(0.7, 0.3), (0.7, 0.3)], False),
        ('it1_units', 0.01, [(0.7, 0.3), (0.7, 0.3)], 'units'),           # user-supplied permeances stated in SI / GPU
    ]
    for name, prec, shadows, given in loop_cfgs:
        for mode, ct, xb in (('temp', 'NRTL', 'weight'), ('press', 'UNIQUAC', 'molar')):
            if name != 'it2' and (mode, ct, xb) != ('temp', 'NRTL', 'weight'):
                continue
            info = {}

            def run(prec=prec, shadows=shadows, given=given, mode=mode, ct=ct, xb=xb, info=info):
                m, _ = sym_mixture()
                p = Pervaporation(dummy_membrane(), m)
                x, _ = sym_composition('x', 0.3, xb)
                tp, pp = mode_vals(mode)
                stub = make_flux_stub(shadows)
                info['stub'] = stub
                import pyvaporation.pervaporation.pervaporation as PVM
                with patch_attr(Pervaporation, 'get_partial_fluxes_from_permeate_composition', stub), \
                        patch_attr(PVM, 'get_partial_pressures', make_pp_stub()), \
                        patch_attr(pv.Membrane, 'get_permeance', make_perm_stub()):
                    return p.calculate_partial_fluxes(
                        feed_temperature=V('T', 333.15), composition=x, precision=V('prec', prec),
                        permeate_temperature=tp, permeate_pressure=pp,
                        first_component_permeance=sym_permeance('P1', 0.05, *(['SI'] if given == 'units' else []))[0] if given else None,
                        second_component_permeance=sym_permeance('P2', 0.0005, *(['GPU'] if given == 'units' else []))[0] if given else None,
                        calculation_type=ct)
            _, mt = sym_mixture()
            _, xt = sym_composition('x', 0.3, xb)
            tpt, ppt = mode_text(mode)
            sa = '(Build_SolveArgs N T %s prec %s %s %s %s %s)' % (
                xt, tpt, ppt, ('(Some (Build_Permeance N P1 %s))' % ('SI' if given == 'units' else 'KG')) if given else 'None',
                ('(Some (Build_Permeance N P2 %s))' % ('GPU' if given == 'units' else 'KG')) if given else 'None', act_text(ct))

            def call(spec='false', info=info, mt=mt, sa=sa):
                # loop entries observed = driving-force evaluations; the lemma holds for every cap above them
                fuel = 'fuel'
                for _ in range(len(info['stub'].calls) + 1):
                    fuel = '(S %s)' % fuel
                return 'solve_with N %s %s (okpair Ff) %s %s %s' % (fuel, PP_MODEL, mt, PERM_MODEL, sa)
            cs.append(Case('solve_%s_%s' % (name, mode), call, run, pair,
                           binders='(Ff : FluxArgs N -> num N * num N) (PmV : num N -> nat -> num N) '
                                   '(PPf : num N -> Composition N -> ActModel -> num N * num N) (fuel : nat)',
                           tactic='bridge_solver'))

    # ---- 3. the whole solver (driving force not stubbed): one iteration, every mode; rejection of both
    for mode in MODES:
        for ct in ('NRTL', 'UNIQUAC'):
            # (the permeate-temperature mode is covered compositionally: loop bridge with the driving force and
            #  the partial pressures abstract + their own flat bridges; the unstubbed term is too large to normalise)
            if mode == 'temp' or (ct == 'UNIQUAC' and mode != 'both'):
                continue
            def run(mode=mode, ct=ct):
                m, _ = sym_mixture()
                p = Pervaporation(dummy_membrane(), m)
                x, _ = sym_composition('x', 0.3, 'weight')
                tp, pp = mode_vals(mode)
                return p.calculate_partial_fluxes(
                    V('T', 333.15), x, V('prec', 0.9), tp, pp,
                    sym_permeance('P1', 0.05)[0], sym_permeance('P2', 0.0005)[0], ct)
            _, mt = sym_mixture()
            _, xt = sym_composition('x', 0.3, 'weight')
            tpt, ppt = mode_text(mode)
            sa = '(Build_SolveArgs N T %s prec %s %s (Some (Build_Permeance N P1 KG)) (Some (Build_Permeance N P2 KG)) %s)' % (
                xt, tpt, ppt, act_text(ct))
            cs.append(Case('solve_full_%s_%s' % (mode, ct),
                           'solve_with N (S (S fuel)) (fun T x ct => partial_pressures N T %s x ct) (fluxes_from_permeate N %s) %s %s %s' % (mt, mt, mt, PERM_MODEL, sa),
                           run, pair, binders='(PmV : num N -> nat -> num N) (fuel : nat)', tactic='bridge_solver',
                           alt_call='solve_with N (S (S fuel)) (fun T x ct => partial_pressures_gen N true T %s x ct) (fluxes_from_permeate_gen N true false %s) %s %s %s' % (mt, mt, mt, PERM_MODEL, sa)))

    # ---- 4. helpers: permeate composition / separation factor with the solver abstract (Jf)
    for helper in ('permcomp', 'sepfactor'):
        for ct in ('NRTL', 'UNIQUAC'):
            for xb in ('weight', 'molar'):
                for mode in ('temp', 'press'):
                    if (ct, xb, mode) not in (('NRTL', 'weight', 'temp'), ('UNIQUAC', 'molar', 'press'), ('UNIQUAC', 'weight', 'temp')):
                        continue
                    def run(helper=helper, ct=ct, xb=xb, mode=mode):
                        m, _ = sym_mixture()
                        p = Pervaporation(dummy_membrane(), m)
                        x, _ = sym_composition('x', 0.3, xb)
                        tp, pp = mode_vals(mode)
                        stub = make_solve_stub()
                        with patch_attr(Pervaporation, 'calculate_partial_fluxes', stub):
                            if helper == 'permcomp':
                                return p.calculate_permeate_composition(
                                    feed_temperature=V('T', 333.15), composition=x, precision=V('prec', 0.01),
                                    permeate_temperature=tp, permeate_pressure=pp, calculation_type=ct)
                            return p.calculate_separation_factor(
                                feed_temperature=V('T', 333.15), composition=x, permeate_temperature=tp,
                                permeate_pressure=pp, precision=V('prec', 0.01), calculation_type=ct)
                    _, mt = sym_mixture()
                    _, xt = sym_composition('x', 0.3, xb)
                    tpt, ppt = mode_text(mode)
                    sa = '(Build_SolveArgs N T %s prec %s %s None None %s)' % (xt, tpt, ppt, act_text(ct))
                    if helper == 'permcomp':
                        call = 'permeate_composition N (okpair Jf) %s' % sa
                        res = comp_result_text
                    else:
                        call = 'separation_factor N %s (okpair Jf) %s' % (mt, sa)
                        res = lambda em, r: em.ref(r)
                    cs.append(Case('%s_%s_%s_%s' % (helper, ct, xb, mode), call, run, res,
                                   binders='(Jf : SolveArgs N -> num N * num N)'))
    return cs


def cap_lemma():
    """observe the iteration cap: a driving-force stub whose shadow values alternate for ever"""
    import sym
    m, _ = sym_mixture()
    p = Pervaporation(dummy_membrane(), m)
    x, _ = sym_composition('x', 0.3, 'weight')
    count = [0]

    def stub(self, *a, **kw):
        count[0] += 1
        k = count[0]
        if k > 60000:
            raise RuntimeError('no iteration cap observed after 60000 evaluations')
        j = (0.3, 0.7) if k % 2 else (0.6, 0.4)
        return (Sym('var', ('J1',), j[0]), Sym('var', ('J2',), j[1]))
    outcome = 'none'
    sym.reset()
    sym.PC_LIMIT[0] = 400000        # the cap observation legitimately decides several comparisons per iteration
    with sym.patched(), patch_attr(Pervaporation, 'get_partial_fluxes_from_permeate_composition', stub):
        try:
            p.calculate_partial_fluxes(V('T', 333.15), x, V('prec', 1e-4), V('Tp', 280.0), None,
                                       sym_permeance('P1', 0.05)[0], sym_permeance('P2', 0.0005)[0], 'NRTL')
            outcome = 'returned'
        except ValueError:
            outcome = 'ValueError'
        except Exception as e:
            outcome = type(e).__name__
        except sym.TraceEscape as e:
            outcome = 'escape (%s)' % e
    sym.reset()
    sym.PC_LIMIT[0] = 4000
    if outcome != 'ValueError':
        return Case('solver_cap', None, None, None, raw_stmt='False',
                    note='no ValueError on a never-converging iteration: %s after %d evaluations' % (outcome, count[0]))
    return Case('solver_cap', None, None, None, raw_stmt='Nat.eqb solver_cap (Z.to_nat %d) = true' % count[0],
                note='ValueError after %d driving-force evaluations of a never-converging iteration' % count[0])


def main():
    return emit_family('solver', IMPORTS, cases() + [cap_lemma()], lambda: list(all_vars().keys()))


if __name__ == '__main__':
    for o in main():
        print(o['name'], o['status'], o.get('outcome'), len(o.get('pcs', [])), o.get('error', ''))
