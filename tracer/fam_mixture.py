"""Bridge cases: Composition, activity coefficients, partial pressures (mixture.py)."""
import pyvaporation as pv
from pyvaporation.mixtures.mixture import calculate_activity_coefficients, get_partial_pressures

from gen import Case, emit_family
from objs import V, all_vars, sym_mixture, sym_composition, comp_result_text, act_text

IMPORTS = ['Model.Component', 'Model.Mixture']


def pair(em, r):
    return '(%s, %s)' % (em.ref(r[0]), em.ref(r[1]))


def cases():
    cs = []
    # --- Composition constructor (validator)
    for nm, val in (('ok', 0.3), ('low', -0.25), ('high', 1.5), ('zero', 0.0), ('one', 1.0)):
        cs.append(Case('mk_comp_' + nm, 'mk_comp N x Weight',
                       (lambda val=val: pv.Composition(p=V('x', val), type='weight')),
                       comp_result_text))
    # --- conversions
    for ctype in ('weight', 'molar'):
        for fn in ('to_molar', 'to_weight'):
            def run(ctype=ctype, fn=fn):
                m, _ = sym_mixture()
                c, _ = sym_composition('x', 0.3, ctype)
                return getattr(c, fn)(m)
            _, mt = sym_mixture()
            _, ct = sym_composition('x', 0.3, ctype)
            cs.append(Case('%s_%s' % (fn, ctype), '%s N %s %s' % (fn, ct, mt), run, comp_result_text))
    # --- activity coefficients / partial pressures
    mixcfgs = [('n1', dict(nrtl='one')), ('n2', dict(nrtl='two')),
               ('nouq', dict(nrtl='one', uniquac=False)), ('nonrtl', dict(nrtl=None)),
               ('nouqc1', dict(uq1=False)), ('nouqc2', dict(uq2=False))]
    for mname, mk in mixcfgs:
        for ct in ('NRTL', 'UNIQUAC', 'Wilson'):
            for ctype in ('molar', 'weight'):
                if mname in ('n2', 'nouq', 'nonrtl', 'nouqc1', 'nouqc2') and ctype == 'weight':
                    continue
                def run(mk=mk, ct=ct, ctype=ctype):
                    m, _ = sym_mixture(**mk)
                    c, _ = sym_composition('x', 0.3, ctype)
                    r = calculate_activity_coefficients(V('T', 333.15), m, c, ct)
                    if r is None:
                        raise TypeError('calculate_activity_coefficients returned None')
                    return r
                _, mt = sym_mixture(**mk)
                _, cx = sym_composition('x', 0.3, ctype)
                cs.append(Case('act_%s_%s_%s' % (mname, ct, ctype),
                               'activity N T %s %s %s' % (mt, cx, act_text(ct)), run, pair,
                               alt_call='activity_gen N true T %s %s %s' % (mt, cx, act_text(ct))))
    # UNIQUAC end-point substitution
    for nm, val in (('x0', 0.0), ('x1', 1.0)):
        def run(val=val):
            m, _ = sym_mixture()
            c, _ = sym_composition('x', val, 'molar')
            return calculate_activity_coefficients(V('T', 333.15), m, c, 'UNIQUAC')
        _, mt = sym_mixture()
        _, cx = sym_composition('x', val, 'molar')
        cs.append(Case('act_uq_' + nm, 'activity N T %s %s UNIQUAC' % (mt, cx), run, pair))
    # partial pressures
    for vp1, vp2 in (('antoine', 'antoine'), ('frost', 'antoine'), ('antoine', 'frost'), ('antoine', 'other')):
        for ct in ('NRTL', 'UNIQUAC', 'Wilson'):
            for ctype in ('molar', 'weight'):
                if (vp1, vp2) != ('antoine', 'antoine') and (ct != 'NRTL' or ctype == 'molar'):
                    continue
                def run(vp1=vp1, vp2=vp2, ct=ct, ctype=ctype):
                    m, _ = sym_mixture(vp1=vp1, vp2=vp2)
                    c, _ = sym_composition('x', 0.3, ctype)
                    return get_partial_pressures(V('T', 333.15), m, c, ct)
                _, mt = sym_mixture(vp1=vp1, vp2=vp2)
                _, cx = sym_composition('x', 0.3, ctype)
                cs.append(Case('pp_%s_%s_%s_%s' % (vp1, vp2, ct, ctype),
                               'partial_pressures N T %s %s %s' % (mt, cx, act_text(ct)), run, pair,
                               alt_call='partial_pressures_gen N true T %s %s %s' % (mt, cx, act_text(ct))))
    return cs


def main():
    return emit_family('mixture', IMPORTS, cases(), lambda: list(all_vars().keys()))


if __name__ == '__main__':
    outs = main()
    for o in outs:
        print(o['name'], o['status'], o.get('outcome'), len(o.get('pcs', [])), o.get('error', ''))
