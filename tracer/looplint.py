"""Loop-shape lint (static, fail closed) for the explicit time-stepping loops of pervaporation.py.

The bridge lemmas tie the loop body to Model.Process.step for symbolic states at n = 1, 2 (3 in the thorough tier) and the
numeric correspondence executes whole trajectories; the induction over ALL step counts is done on the model.  What links the
two is that iteration k of the Python loop is the same function of (the state lists at index k, loop-invariant values) for
every k.  This lint checks the syntactic discipline that guarantees it:

  L1  the loop is `for step in range(len(time))` (or range(number_of_steps)) and `step` is never re-bound;
  L2  `step` occurs only as a subscript index, as `step` or `step + 1`;
  L3  no break / continue / while / nested for-statement / return inside the body (raise is allowed: error exits);
  L4  the state lists are only read by subscript and extended by `.append(...)`: no subscript assignment, no del,
      no insert / pop / extend / clear / sort / reverse inside the body;
  L5  no scalar is carried from one iteration to the next: every local name read in the body is either never assigned in
      the body (loop invariant) or assigned in the body before its first read;
  L6  a subscript `[step + 1]` of a list is read only after that list was appended to in the same iteration.

A violation of the discipline is reported as a broken obligation (`lint:<function>`): the proof for arbitrary n no longer
applies to the code as written, even if every n <= 3 bridge still holds."""
import ast
import os
import sys

MUTATORS = {'insert', 'pop', 'extend', 'clear', 'sort', 'reverse', 'remove', '__setitem__', '__delitem__'}


def _is_step(node, var):
    return isinstance(node, ast.Name) and node.id == var


def _is_step_plus_1(node, var):
    return (isinstance(node, ast.BinOp) and isinstance(node.op, ast.Add) and _is_step(node.left, var)
            and isinstance(node.right, ast.Constant) and node.right.value == 1)


def _index_of(sub):
    idx = sub.slice
    if isinstance(idx, ast.Index):       # python < 3.9
        idx = idx.value
    return idx


class BodyChecker(ast.NodeVisitor):
    def __init__(self, var, problems):
        self.var = var
        self.problems = problems
        self.ok_step_nodes = set()

    def bad(self, node, rule, msg):
        self.problems.append('%s line %d: %s' % (rule, getattr(node, 'lineno', 0), msg))

    def visit_Subscript(self, node):
        idx = _index_of(node)
        if _is_step(idx, self.var):
            self.ok_step_nodes.add(id(idx))
        elif _is_step_plus_1(idx, self.var):
            self.ok_step_nodes.add(id(idx.left))
        if isinstance(node.ctx, (ast.Store, ast.Del)):
            self.bad(node, 'L4', 'subscript assignment / deletion inside the loop body')
        self.generic_visit(node)

    def visit_Name(self, node):
        if node.id == self.var:
            if isinstance(node.ctx, ast.Store):
                self.bad(node, 'L1', 'the loop variable is re-bound')
            elif id(node) not in self.ok_step_nodes:
                self.bad(node, 'L2', 'the loop variable is used other than as the index [step] or [step + 1]')

    def visit_Break(self, node):
        self.bad(node, 'L3', 'break')

    def visit_Continue(self, node):
        self.bad(node, 'L3', 'continue')

    def visit_While(self, node):
        self.bad(node, 'L3', 'while loop inside the body')
        self.generic_visit(node)

    def visit_For(self, node):
        self.bad(node, 'L3', 'nested for statement')
        self.generic_visit(node)

    def visit_Return(self, node):
        self.bad(node, 'L3', 'return inside the body')

    def visit_Call(self, node):
        if isinstance(node.func, ast.Attribute) and node.func.attr in MUTATORS:
            self.bad(node, 'L4', 'list mutation .%s(...) inside the loop body' % node.func.attr)
        self.generic_visit(node)


def _names_assigned(stmts):
    out = set()
    for s in stmts:
        for n in ast.walk(s):
            if isinstance(n, ast.Name) and isinstance(n.ctx, ast.Store):
                out.add(n.id)
    return out


def _check_carried(body, var, problems):
    """L5 / L6 over the top-level statement sequence (conservative: a name assigned only inside a branch counts as
    assigned after that statement only if every branch assigns it)"""
    assigned_somewhere = _names_assigned(body)
    defined = set()
    appended = set()

    def definitely_assigns(stmt):
        if isinstance(stmt, (ast.Assign, ast.AugAssign, ast.AnnAssign)):
            tg = stmt.targets if isinstance(stmt, ast.Assign) else [stmt.target]
            return {n.id for t in tg for n in ast.walk(t) if isinstance(n, ast.Name) and isinstance(n.ctx, ast.Store)}
        if isinstance(stmt, ast.If):
            a = set.intersection(*[definitely_assigns(s) for s in stmt.body]) if False else None
            then = set().union(*[definitely_assigns(s) for s in stmt.body]) if stmt.body else set()
            els = set().union(*[definitely_assigns(s) for s in stmt.orelse]) if stmt.orelse else set()
            # a branch that always raises does not continue: its assignments do not matter
            if stmt.body and isinstance(stmt.body[-1], ast.Raise):
                return els if stmt.orelse else set()
            if stmt.orelse and isinstance(stmt.orelse[-1], ast.Raise):
                return then
            return then & els
        return set()

    def reads(stmt):
        out = []
        for n in ast.walk(stmt):
            if isinstance(n, ast.Name) and isinstance(n.ctx, ast.Load):
                out.append(n)
        return out

    def visit_seq(stmts, defined, appended):
        for stmt in stmts:
            if isinstance(stmt, ast.If):
                for n in reads(stmt.test):
                    if n.id in assigned_somewhere and n.id not in defined:
                        problems.append('L5 line %d: %r is read before it is assigned in this iteration (carried across iterations)' % (n.lineno, n.id))
                check_next(stmt.test, appended)
                d1, a1 = set(defined), set(appended)
                visit_seq(stmt.body, d1, a1)
                d2, a2 = set(defined), set(appended)
                visit_seq(stmt.orelse, d2, a2)
                defined |= definitely_assigns(stmt)
                if stmt.body and isinstance(stmt.body[-1], ast.Raise):
                    appended |= a2 if stmt.orelse else set()
                elif stmt.orelse and isinstance(stmt.orelse[-1], ast.Raise):
                    appended |= a1
                else:
                    appended |= (a1 & a2)
                continue
            if isinstance(stmt, ast.AugAssign) and isinstance(stmt.target, ast.Name):
                if stmt.target.id not in defined:
                    problems.append('L5 line %d: %r is updated in place across iterations' % (stmt.lineno, stmt.target.id))
            for n in reads(stmt):
                if n.id in assigned_somewhere and n.id not in defined and n.id != var:
                    problems.append('L5 line %d: %r is read before it is assigned in this iteration (carried across iterations)' % (n.lineno, n.id))
            check_next(stmt, appended)
            # appends performed by this statement
            for n in ast.walk(stmt):
                if (isinstance(n, ast.Call) and isinstance(n.func, ast.Attribute) and n.func.attr == 'append'
                        and isinstance(n.func.value, ast.Name)):
                    appended.add(n.func.value.id)
            defined |= definitely_assigns(stmt)

    def check_next(node, appended):
        for n in ast.walk(node):
            if isinstance(n, ast.Subscript) and _is_step_plus_1(_index_of(n), var):
                base = n.value
                if isinstance(base, ast.Name) and base.id not in appended:
                    problems.append('L6 line %d: %s[step + 1] is read before %s was appended to in this iteration' % (n.lineno, base.id, base.id))

    visit_seq(body, defined, appended)


def lint_source(path, class_name='Pervaporation'):
    """{function name: [problems]} for every method of the class that contains a step loop"""
    tree = ast.parse(open(path).read(), filename=path)
    res = {}
    for cls in [n for n in tree.body if isinstance(n, ast.ClassDef) and n.name == class_name]:
        for fn in [n for n in cls.body if isinstance(n, ast.FunctionDef)]:
            loops = [n for n in ast.walk(fn) if isinstance(n, ast.For) and isinstance(n.target, ast.Name) and n.target.id == 'step']
            for k, loop in enumerate(loops):
                problems = []
                it = loop.iter
                ok_iter = (isinstance(it, ast.Call) and isinstance(it.func, ast.Name) and it.func.id == 'range' and len(it.args) == 1 and (
                    (isinstance(it.args[0], ast.Call) and isinstance(it.args[0].func, ast.Name) and it.args[0].func.id == 'len'
                     and isinstance(it.args[0].args[0], ast.Name) and it.args[0].args[0].id == 'time')
                    or (isinstance(it.args[0], ast.Name) and it.args[0].id == 'number_of_steps')))
                if not ok_iter:
                    problems.append('L1 line %d: the loop does not run over range(len(time)) / range(number_of_steps)' % loop.lineno)
                if loop.orelse:
                    problems.append('L3 line %d: for ... else' % loop.lineno)
                chk = BodyChecker('step', problems)
                for stmt in loop.body:
                    chk.visit(stmt)
                _check_carried(loop.body, 'step', problems)
                res['%s#%d' % (fn.name, k) if len(loops) > 1 else fn.name] = problems
    return res


EXPECTED = ['ideal_isothermal_process', 'ideal_non_isothermal_process', 'non_ideal_isothermal_process', 'non_ideal_non_isothermal_process']


def run(repo='/repo'):
    path = os.path.join(repo, 'pyvaporation', 'pervaporation', 'pervaporation.py')
    res = lint_source(path)
    for name in EXPECTED:
        if not any(k.split('#')[0] == name for k in res):
            res[name] = ['L1: no `for step in ...` loop found in %s (the process model is no longer an explicit step loop)' % name]
    return res


if __name__ == '__main__':
    r = run(sys.argv[1] if len(sys.argv) > 1 else '/repo')
    bad = 0
    for k, v in sorted(r.items()):
        print(k, 'ok' if not v else 'PROBLEMS')
        for p in v:
            print('   ', p)
            bad += 1
    sys.exit(1 if bad else 0)
