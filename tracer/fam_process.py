"""Bridge cases: the four process models with the solver, the membrane and find_best_fit abstract."""
import os

import pyvaporation as pv
import pyvaporation.pervaporation.pervaporation as PVM
from pyvaporation.conditions import Conditions, TemperatureProgram
from pyvaporation.diffusion_curve import DiffusionCurve, DiffusionCurveSet
from pyvaporation.optimizer import PervaporationFunction
from pyvaporation.pervaporation import Pervaporation

from gen import Case, emit_family
from objs import V, all_vars, sym_mixture, sym_composition, act_text, Reifier, app, sym_permeance, ctype_text, units_text, fresh_str
from sym import TraceEscape, Sym
from fam_solver import make_solve_stub, make_perm_stub, patch_attr, PERM_MODEL, MODES, mode_vals, mode_text

IMPORTS = ['Model.Component', 'Model.Mixture', 'Model.Permeance', 'Model.Solver', 'Model.Process']
THOROUGH = os.environ.get('VERIF_TIER') == 'thorough'


def sym_program(kind, ncoef):
    coefs = [V('pc%d' % i, [300.0, 2.0, -0.5, 0.1][i]) for i in range(ncoef)]
    if kind == 'logarithmic':
        coefs = [V('pc%d' % i, [100.0, 20.0, 1.5, 0.1][i]) for i in range(ncoef)]
    tp = TemperatureProgram(coefficients=coefs, type=fresh_str(kind))
    txt = '(Some (Build_TProg N [%s] %s))' % ('; '.join('pc%d' % i for i in range(ncoef)),
                                             {'polynomial': 'Poly', 'exponential': 'Expo', 'logarithmic': 'Loga'}.get(kind, 'OtherProg'))
    return tp, txt


def sym_conditions(mode, xb='weight', prog=None):
    tp, pp = mode_vals(mode)
    x0, x0t = sym_composition('x0', 0.3, xb)
    if prog is None:
        pr, prt = None, 'None'
    else:
        pr, prt = sym_program(*prog)
    cd = Conditions(membrane_area=V('A', 0.05), initial_feed_temperature=V('T0', 333.15),
                    initial_feed_amount=V('m0', 10.0), initial_feed_composition=x0,
                    permeate_temperature=tp, permeate_pressure=pp, temperature_program=pr)
    tpt, ppt = mode_text(mode)
    from objs import watch
    watch(cd)
    return cd, '(Build_Conditions N A T0 m0 %s %s %s %s)' % (x0t, tpt, ppt, prt)


def perm_text(em, p):
    if not isinstance(p, pv.Permeance):
        raise TraceEscape('permeances entry is a %s' % type(p).__name__)
    return '(Build_Permeance N %s %s)' % (em.ref(p.value), units_text(p.units))


def comp_text(em, c):
    return '(Build_Composition N %s %s)' % (em.ref(c.p), ctype_text(c.type))


def rows_text(em, pm, n):
    series = [pm.time, pm.feed_mass, pm.feed_compositions, pm.feed_temperature, pm.permeances, pm.partial_fluxes,
              pm.permeate_composition, pm.feed_evaporation_heat, pm.permeate_condensation_heat,
              pm.permeate_temperature, pm.permeate_pressure]
    if any(len(s) != n for s in series):
        raise TraceEscape('series lengths %r differ from the requested number of steps %d' % ([len(s) for s in series], n))
    rows = []
    for k in range(n):
        qc = pm.permeate_condensation_heat[k]
        rows.append('(Build_PRow N %s %s %s %s (%s, %s) (%s, %s) %s %s %s)' % (
            em.ref(pm.time[k]), em.ref(pm.feed_mass[k]), comp_text(em, pm.feed_compositions[k]),
            em.ref(pm.feed_temperature[k]), perm_text(em, pm.permeances[k][0]), perm_text(em, pm.permeances[k][1]),
            em.ref(pm.partial_fluxes[k][0]), em.ref(pm.partial_fluxes[k][1]), comp_text(em, pm.permeate_composition[k]),
            em.ref(pm.feed_evaporation_heat[k]), 'None' if qc is None else '(Some %s)' % em.ref(qc)))
    return '[' + '; '.join(rows) + ']'


def collect_extra(pm):
    return pm


def shadowJ(k):
    return [(0.7, 0.01), (0.69, 0.011), (0.68, 0.012), (0.67, 0.013)][min(k, 3)]


def sym_fit(i, nb=1, na=1):
    al = V('f%dal' % i, 0.02 if i == 1 else 0.0004)
    a = [V('f%da%d' % (i, j), 0.5 - 0.3 * j) for j in range(na)]
    b = [V('f%db%d' % (i, j), 800.0 + 100 * j) for j in range(nb)]
    f = PervaporationFunction(n=na, m=nb - 1, alpha=al, a=a, b=b)
    txt = '(Build_PervFn N %d %d f%dal [%s] [%s])' % (na, nb - 1, i, '; '.join('f%da%d' % (i, j) for j in range(na)),
                                                    '; '.join('f%db%d' % (i, j) for j in range(nb)))
    return f, txt


def fit_text(em, f):
    return '(Build_PervFn N %d %d %s [%s] [%s])' % (f.n, f.m, em.ref(f.alpha), '; '.join(em.ref(x) for x in f.a),
                                                  '; '.join(em.ref(x) for x in f.b))


def sym_curve_set(m, ncurves, sameT=False, xb='weight', eqT=False):
    curves = []
    for c in range(ncurves):
        # eqT: distinct temperature leaves whose shadow values coincide (several curves measured at one temperature)
        Tc = V('T0', 333.15) if (sameT and c == 0) else V('Tc%d' % c, 313.15 + (0 if eqT else 20 * c))
        comps = []
        for j in range(2):
            cc = pv.Composition(p=0.5, type=fresh_str(xb if xb != 'mixed' else ('weight', 'molar')[j % 2]))   # 'mixed': every point its own basis
            cc.p = V('cx%d_%d' % (c, j), 0.2 + 0.3 * j)
            comps.append(cc)
        perms = [(sym_permeance('cp%d_%d_1' % (c, j), 0.03 + 0.01 * j)[0], sym_permeance('cp%d_%d_2' % (c, j), 0.0004)[0]) for j in range(2)]
        fl = [(V('cj%d_%d_1' % (c, j), 0.5), V('cj%d_%d_2' % (c, j), 0.01)) for j in range(2)]
        curves.append(DiffusionCurve(mixture=m, membrane_name='symmem', feed_temperature=Tc, feed_compositions=comps,
                                     partial_fluxes=fl, permeances=perms))
    from objs import watch
    return watch(DiffusionCurveSet(name='symset', diffusion_curves=curves))


def pf_call_stub(self, x, t):
    """PervaporationFunction.__call__ as a cut point: (pf_call N <fit> x t); bridged flat in the fit family"""
    r = Reifier()
    al = r.num(self.alpha)
    a = '; '.join(r.num(v) for v in self.a)
    b = '; '.join(r.num(v) for v in self.b)
    xt, tt = r.num(x), r.num(t)
    import math
    sh = lambda v: v.val if isinstance(v, Sym) else float(v)
    try:
        val = sh(self.alpha) * math.exp(sum(sh(self.a[i]) * sh(x) ** (i + 1) for i in range(len(self.a)))
                                        - sum(sh(self.b[i]) * sh(x) ** i for i in range(len(self.b))) / sh(t))
    except OverflowError:
        val = math.inf
    return app('(pf_call N (Build_PervFn N %d %d %s [%s] [%s]) %s %s)' % (self.n, self.m, al, a, b, xt, tt), r.syms, val)


def make_fbf_stub(log):
    def stub(data, include_zero=False, component_index=0, n=None, m=None):
        log.append({'n': n, 'm': m, 'iz': include_zero, 'idx': component_index})
        nb = 1 if m == 0 else 2
        return sym_fit(component_index + 1, nb=nb)[0]
    return stub


def make_ea_stub():
    def stub(self, component):
        idx = {'comp1': 1, 'comp2': 2}[component.name]
        return app('(EaV %d)' % idx, [], {1: 20000.0, 2: 40000.0}[idx])
    return stub


EA_MODEL = '(fun c => Ok (EaV (cname c)))'


def optnat(x):
    return 'None' if x is None else '(Some %d%%nat)' % x


def cases():
    cs = []
    ns = (1, 2, 3) if THOROUGH else (1, 2)
    # three-step bridges are proved by conversion of a term that grows with every step: measured 9 s / 0.6 GB (ideal
    # isothermal), 37 s / 1.1 GB (non-ideal isothermal), but 500-700 s / 6-8 GB (ideal non-isothermal) and > 30 min / 10 GB
    # (non-ideal non-isothermal).  The thorough tier therefore adds n = 3 for the isothermal loops only; the non-isothermal
    # loops keep n <= 2 + the loop-shape lint + executed trajectories of up to 200 steps.
    N3_IDEAL = {('iso', 'vac', 'weight', None), ('iso', 'temp', 'weight', None), ('iso', 'press', 'weight', None)}
    N3_NONIDEAL = {(True, 'multi', False, 'weight', None), (True, 'single_other', False, 'weight', None)}
    # ---------------- ideal processes
    ideal_cfgs = []
    for kind in ('iso', 'noniso'):
        for mode in ('vac', 'temp', 'press'):
            for xb in ('weight', 'molar'):
                for prog in (None, ('polynomial', 3), ('exponential', 2), ('logarithmic', 2)):
                    if kind == 'iso' and prog is not None:
                        continue
                    if xb == 'molar' and (mode != 'temp' or prog is not None):
                        continue
                    if prog is not None and mode != 'vac':
                        continue
                    ideal_cfgs.append((kind, mode, xb, prog))
    ideal_cfgs.append(('noniso', 'vac', 'weight', ('exponential', 1)))
    ideal_cfgs.append(('iso', 'both', 'weight', None))
    for kind, mode, xb, prog in ideal_cfgs:
        for n in ns:
            for ct in ('NRTL', 'UNIQUAC'):
                if ct == 'UNIQUAC' and not (mode == 'temp' and xb == 'weight' and prog is None):
                    continue
                if n == 3 and ((kind, mode, xb, prog) not in N3_IDEAL or ct != 'NRTL'):
                    continue
                def run(kind=kind, mode=mode, xb=xb, prog=prog, n=n, ct=ct):
                    m, _ = sym_mixture()
                    p = Pervaporation(pv.Membrane(name='symmem'), m)
                    cd, _ = sym_conditions(mode, xb, prog)
                    with patch_attr(Pervaporation, 'calculate_partial_fluxes', make_solve_stub(shadowJ)), \
                            patch_attr(pv.Membrane, 'get_permeance', make_perm_stub()):
                        if kind == 'iso':
                            return p.ideal_isothermal_process(number_of_steps=n, delta_hours=V('dt', 0.1), conditions=cd,
                                                              precision=V('prec', 5e-5), calculation_type=ct)
                        return p.ideal_non_isothermal_process(conditions=cd, number_of_steps=n, delta_hours=V('dt', 0.1),
                                                              precision=V('prec', 5e-5), calculation_type=ct)
                _, mt = sym_mixture()
                _, cdt = sym_conditions(mode, xb, prog)
                fn = 'ideal_isothermal' if kind == 'iso' else 'ideal_non_isothermal'
                pname = 'none' if prog is None else '%s%d' % (prog[0][:4], prog[1])
                cs.append(Case('proc_%s_%s_%s_%s_n%d_%s' % (kind, mode, xb[0], pname, n, ct),
                               '%s N %s %s %d dt prec %s (okpair Jf) %s' % (fn, mt, cdt, n, act_text(ct), PERM_MODEL),
                               run, (lambda em, pm, n=n: rows_text(em, pm, n)),
                               binders='(Jf : SolveArgs N -> num N * num N) (PmV : num N -> nat -> num N)',
                               tactic='bridge_process'))
    # guards: exhausted feed / non-positive temperature (shadow values drive the branches)
    for nm, kind, vals in (('exhaust', 'iso', dict(A=1000.0)), ('exhaust', 'noniso', dict(A=1000.0)),
                           ('coldT', 'noniso', dict(A=30.0, m0=2.0))):
        def run(kind=kind, vals=vals):
            m, _ = sym_mixture()
            p = Pervaporation(pv.Membrane(name='symmem'), m)
            cd, _ = sym_conditions('vac', 'weight', None)
            for k, v in vals.items():
                V(k, v)
            with patch_attr(Pervaporation, 'calculate_partial_fluxes', make_solve_stub(lambda k: (0.7, 0.01))), \
                    patch_attr(pv.Membrane, 'get_permeance', make_perm_stub()):
                try:
                    if kind == 'iso':
                        return p.ideal_isothermal_process(number_of_steps=2, delta_hours=V('dt', 1.0), conditions=cd,
                                                          precision=V('prec', 5e-5))
                    return p.ideal_non_isothermal_process(conditions=cd, number_of_steps=2, delta_hours=V('dt', 1.0),
                                                          precision=V('prec', 5e-5))
                finally:
                    V('A', 0.05); V('m0', 10.0); V('dt', 0.1)
        _, mt = sym_mixture()
        _, cdt = sym_conditions('vac', 'weight', None)
        fn = 'ideal_isothermal' if kind == 'iso' else 'ideal_non_isothermal'
        cs.append(Case('proc_%s_%s' % (nm, kind), '%s N %s %s 2 dt prec NRTL (okpair Jf) %s' % (fn, mt, cdt, PERM_MODEL),
                       run, (lambda em, pm: rows_text(em, pm, 2)),
                       binders='(Jf : SolveArgs N -> num N * num N) (PmV : num N -> nat -> num N)', tactic='bridge_process'))

    # ---------------- non-ideal processes
    ni_cfgs = []
    for iso in (True, False):
        for curves in ('multi', 'single_other', 'single_same'):
            for ip in (False, True):
                for xb in ('weight', 'molar'):
                    if xb == 'molar' and (curves != 'multi' or ip):
                        continue
                    if curves == 'single_same' and (ip or not iso):
                        if not (curves == 'single_same' and not ip):
                            continue
                    ni_cfgs.append((iso, curves, ip, xb))
    ni_cfgs = [c + (None,) for c in ni_cfgs] + [(True, 'multi_eq', False, 'weight', None), (False, 'multi_eq', False, 'weight', None)] + [(False, 'multi', False, 'weight', ('exponential', 2)), (False, 'multi', False, 'weight', ('logarithmic', 2)),
                                                 (False, 'single_other', False, 'weight', ('polynomial', 2))]
    for iso, curves, ip, xb, prog in ni_cfgs:
        eq_t = curves == 'multi_eq'          # two curves at one (shadow) temperature: still the multi-curve branch
        curves = 'multi' if eq_t else curves
        for n in ns:
            if eq_t and n != 1:
                continue
            if n == 3 and (iso, curves, ip, xb, prog) not in N3_NONIDEAL:
                continue
            mode = 'temp' if (iso and curves == 'multi') else 'vac'
            log = []

            def run(iso=iso, curves=curves, ip=ip, xb=xb, n=n, mode=mode, log=log, prog=prog, eq_t=eq_t):
                del log[:]
                m, _ = sym_mixture()
                p = Pervaporation(pv.Membrane(name='symmem'), m)
                cd, _ = sym_conditions(mode, xb, prog)
                cset = sym_curve_set(m, 2 if curves == 'multi' else 1, sameT=(curves == 'single_same'), xb=xb, eqT=eq_t)
                ipv = (sym_permeance('ip1', 0.06, 'SI')[0], sym_permeance('ip2', 0.0007, 'GPU')[0]) if ip else None
                with patch_attr(Pervaporation, 'calculate_partial_fluxes', make_solve_stub(shadowJ)), \
                        patch_attr(PVM, 'find_best_fit', make_fbf_stub(log)), \
                        patch_attr(PervaporationFunction, '__call__', pf_call_stub), \
                        patch_attr(pv.Membrane, 'calculate_activation_energy', make_ea_stub()):
                    f = p.non_ideal_isothermal_process if iso else p.non_ideal_non_isothermal_process
                    return f(conditions=cd, diffusion_curve_set=cset, number_of_steps=n, delta_hours=V('dt', 0.1),
                             precision=V('prec', 5e-5), calculation_type='NRTL', initial_permeances=ipv,
                             n_first=1, m_first=1, n_second=2, m_second=0, include_zero=True)
            _, mt = sym_mixture()
            _, cdt = sym_conditions(mode, xb, prog)
            nb = 2 if curves == 'multi' else 1
            single = 'None' if curves == 'multi' else ('(Some T0)' if curves == 'single_same' else '(Some Tc0)')
            ipt = '(Some (Build_Permeance N ip1 SI, Build_Permeance N ip2 GPU))' if ip else 'None'
            raw1 = sym_fit(1, nb=nb)[1]
            raw2 = sym_fit(2, nb=(nb if curves != 'multi' else 1))[1]
            ncur = 2 if curves == 'multi' else 1
            cxs = '[%s]' % '; '.join('Build_Composition N cx%d_%d %s' % (c, j, ctype_text(xb)) for c in range(ncur) for j in range(2))
            call = 'non_ideal_entry N %s %s %s %d dt prec NRTL (okpair Jf) %s %s %s %s %s %s' % (
                'true' if iso else 'false', mt, cdt, n, EA_MODEL, single, raw1, raw2, ipt, cxs)

            def result(em, pm, n=n, log=log, curves=curves):
                if pm.permeance_fits is None:
                    raise TraceEscape('permeance_fits missing')
                exp_single = curves != 'multi'
                want = [{'n': 1, 'm': 0 if exp_single else 1, 'iz': (not exp_single), 'idx': 0},
                        {'n': 2, 'm': 0, 'iz': (not exp_single), 'idx': 1}]
                if log != want:
                    raise TraceEscape('find_best_fit was requested with %r, the model expects %r' % (log, want))
                return '(%s, (%s, %s))' % (rows_text(em, pm, n), fit_text(em, pm.permeance_fits[0]), fit_text(em, pm.permeance_fits[1]))
            cs.append(Case('nonideal_%s_%s_%s_%s%s_n%d' % ('iso' if iso else 'noniso', curves + ('eqT' if eq_t else ''), 'ip' if ip else 'noip', xb[0], '' if prog is None else '_' + prog[0][:4], n),
                           call, run, result,
                           binders='(Jf : SolveArgs N -> num N * num N) (EaV : nat -> num N)', tactic='bridge_process'))
    return cs


def main():
    return emit_family('process', IMPORTS, cases(), lambda: list(all_vars().keys()), chunk=2)


if __name__ == '__main__':
    for o in main():
        print(o['name'], o['status'], o.get('outcome'), len(o.get('pcs', [])), o.get('error', '')[:300])
