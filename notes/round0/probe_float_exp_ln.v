From Coq Require Import ZArith List PrimFloat Uint63 FloatOps SpecFloat.
Import ListNotations.
Open Scope float_scope.
(* exp: x = k*ln2 + r, |r|<=ln2/2 ; Taylor deg 18 *)
Definition ln2 := 0x1.62e42fefa39efp-1.
Definition fround (x : float) : Z :=  (* nearest integer of x, |x| < 2^20 *)
  let y := x + 0x1.8p52 in  let d := y - 0x1.8p52 in
  (* d is integer-valued float *)
  match Prim2SF d with
  | SpecFloat.S754_finite s m e => if s then (- (Z.shiftl (Z.pos m) e))%Z else Z.shiftl (Z.pos m) e
  | _ => 0%Z end.
Fixpoint taylor (n : nat) (r acc : float) (k : float) : float :=
  match n with O => acc | S n' => taylor n' r (1 + acc * r / k) (k - 1) end.
Definition fexp (x : float) : float :=
  let kf := x / ln2 in
  let k := fround kf in
  let kfl := of_uint63 (of_Z (Z.abs k)) in let kfl := if (k <? 0)%Z then - kfl else kfl in
  let r := x - kfl * ln2 in
  let p := taylor 20 r 1 20 in
  ldexp p k.
Fixpoint atanh_ser (n : nat) (z2 : float) (k : float) (acc : float) : float :=
  match n with O => acc | S n' => atanh_ser n' z2 (k - 2) (1 / k + z2 * acc) end.
Definition fln (x : float) : float :=
  let (m, e) := frexp x in (* m in [0.5,1) *)
  let '(m, e) := if m <? 0x1.6a09e667f3bcdp-1 then (m * 2, (e - 1)%Z) else (m, e) in
  let z := (m - 1) / (m + 1) in
  let z2 := z * z in
  let s := atanh_ser 16 z2 33 (1/35) in
  2 * z * s + (of_uint63 (of_Z (Z.abs e)) * (if (e <? 0)%Z then -1 else 1)) * ln2.
Eval vm_compute in map fexp [0; 1; -1; 0.5; 10; -20.3; 2.302585092994046; 700].
Eval vm_compute in map fln [1; 2; 10; 0.5; 0.001; 1234.5678; 2.718281828459045].
