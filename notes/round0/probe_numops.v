From Coq Require Import Reals ZArith List PrimFloat Uint63 Lra.
Import ListNotations.
Record NumOps := { num : Type; add : num -> num -> num; mul : num -> num -> num; div : num -> num -> num;
  nexp : num -> num; lit : Z -> Z -> float -> num; leb : num -> num -> bool }.
Section M.
  Context (N : NumOps).
  Notation "a +. b" := (add N a b) (at level 50, left associativity).
  Notation "a *. b" := (mul N a b) (at level 40, left associativity).
  Notation "a /. b" := (div N a b) (at level 40, left associativity).
  Record Comp := { p : num N; is_w : bool }.
  Definition to_molar (m1 m2 : num N) (c : Comp) : Comp :=
    if is_w c then {| p := (p c /. m1) /. (p c /. m1 +. (lit N 1 0 1%float +. p c) /. m2); is_w := false |} else c.
  Definition clamp (x : num N) := if leb N (lit N 0 0 0%float) x then x else lit N 0 0 0%float.
End M.
Definition ROps : NumOps := {| num := R; add := Rplus; mul := Rmult; div := Rdiv; nexp := exp;
  lit := fun m e _ => (IZR m * powerRZ 10 e)%R; leb := fun a b => if Rle_dec a b then true else false |}.
Definition FOps : NumOps := {| num := float; add := PrimFloat.add; mul := PrimFloat.mul; div := PrimFloat.div; nexp := fun x => x;
  lit := fun _ _ f => f; leb := PrimFloat.leb |}.
Eval vm_compute in (p FOps (to_molar FOps 18.02%float 46.07%float (Build_Comp FOps 0x1.3333333333333p-2%float true))).
(* symbolic evaluation at abstract N *)
Lemma bridge N m1 m2 x : p N (to_molar N m1 m2 (Build_Comp _ x true)) =
  div N (div N x m1) (add N (div N x m1) (div N (add N (lit N 1 0 1%float) x) m2)).
Proof. vm_compute. reflexivity. Qed.
Print Assumptions bridge.
