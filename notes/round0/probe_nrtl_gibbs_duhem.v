From Coq Require Import Reals Lra.
From Coquelicot Require Import Coquelicot.
From Interval Require Import Tactic.
Open Scope R_scope.

Definition lng1 (t12 t21 G12 G21 x1 : R) : R :=
  let x2 := 1 - x1 in
  x2^2 * (t21 * (G21 / (x1 + x2 * G21))^2 + t12 * G12 / (x2 + x1 * G12)^2).
Definition lng2 (t12 t21 G12 G21 x1 : R) : R :=
  let x2 := 1 - x1 in
  x1^2 * (t12 * (G12 / (x2 + x1 * G12))^2 + t21 * G21 / (x1 + x2 * G21)^2).
Ltac nz := repeat match goal with
  | |- _ /\ _ => split
  | |- True => exact I
  | |- _ * _ <> 0 => apply Rmult_integral_contrapositive_currified
  | |- _ <> 0 => apply Rgt_not_eq; nra
  end.
Lemma GD t12 t21 G12 G21 x1 :
  0 < x1 < 1 -> 0 < G12 -> 0 < G21 ->
  x1 * Derive (lng1 t12 t21 G12 G21) x1 + (1 - x1) * Derive (lng2 t12 t21 G12 G21) x1 = 0.
Proof.
  intros Hx HG12 HG21.
  evar (l1 : R). assert (H1 : is_derive (lng1 t12 t21 G12 G21) x1 l1).
  { unfold lng1. auto_derive. nz. unfold l1. reflexivity. }
  evar (l2 : R). assert (H2 : is_derive (lng2 t12 t21 G12 G21) x1 l2).
  { unfold lng2. auto_derive. nz. unfold l2. reflexivity. }
  rewrite (is_derive_unique _ _ _ H1), (is_derive_unique _ _ _ H2).
  unfold l1, l2. field. nz.
Qed.
Print Assumptions GD.
