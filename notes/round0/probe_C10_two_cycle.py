import warnings; warnings.filterwarnings('ignore')
from pyvaporation import *
from pyvaporation.experiments import IdealExperiments
from pyvaporation.pervaporation.pervaporation import get_permeate_composition_from_fluxes
def it(mixname,ct,P1,P2,x,T,prec,n=12,**kw):
    mix=getattr(Mixtures,mixname); pv=Pervaporation(Membrane('m',IdealExperiments([])),mix)
    c=Composition(x,'weight')
    pp=get_partial_pressures(T,mix,c,ct)
    y=get_permeate_composition_from_fluxes((P1*pp[0],P2*pp[1]))
    ys=[y.p]
    for i in range(n):
        f=pv.get_partial_fluxes_from_permeate_composition(Permeance(P1),Permeance(P2),y,c,T,calculation_type=ct,**kw)
        y=get_permeate_composition_from_fluxes(f); ys.append(y.p)
    print(mixname,ct,ys[:4],'...',ys[-4:], 'fluxes',f, 'feed pp',pp)
it('MeOH_Toluene','NRTL',0.0003346236016244841,1.7459558097248052e-05,0.5050615090787841,320.5406190537834,1.17e-7,n=2000,permeate_temperature=317.28791322644236)
it('MeOH_Toluene','UNIQUAC',2.607885612750333e-05,4.159069765219003e-06,0.39626612612545964,292.6814783919061,1e-8,n=2000,permeate_temperature=214.87152349878107)
it('MeOH_DMC','UNIQUAC',0.0017158897803426355,5.434738620086075e-05,0.030976834734024808,356.01174074438075,7e-4,n=2001,permeate_temperature=131.44090481843625)
