import numpy, sys, warnings
from pyvaporation import *
from pyvaporation.mixtures.mixture import calculate_activity_coefficients
from pyvaporation.experiments import IdealExperiment, IdealExperiments
import copy
class Sym:
    cnt=0
    def __init__(s,op,args=(),val=None): s.op=op; s.args=args; s.val=val
    def _b(s,o,op,rev=False):
        if not isinstance(o,Sym): o=Sym('lit',(o,),float(o))
        a,b=(o,s) if rev else (s,o)
        import operator
        f={'add':operator.add,'sub':operator.sub,'mul':operator.mul,'div':operator.truediv,'pow':operator.pow}[op]
        return Sym(op,(a,b),f(a.val,b.val))
    def __add__(s,o): return s._b(o,'add')
    def __radd__(s,o): return s._b(o,'add',True)
    def __sub__(s,o): return s._b(o,'sub')
    def __rsub__(s,o): return s._b(o,'sub',True)
    def __mul__(s,o): return s._b(o,'mul')
    def __rmul__(s,o): return s._b(o,'mul',True)
    def __truediv__(s,o): return s._b(o,'div')
    def __rtruediv__(s,o): return s._b(o,'div',True)
    def __pow__(s,o): return s._b(o,'pow')
    def __rpow__(s,o): return s._b(o,'pow',True)
    def __neg__(s): return Sym('neg',(s,),-s.val)
    def __abs__(s): return Sym('abs',(s,),abs(s.val))
    def exp(s): return Sym('exp',(s,),numpy.exp(s.val))
    def log(s): return Sym('log',(s,),numpy.log(s.val))
    def _c(s,o,op):
        ov=o.val if isinstance(o,Sym) else o
        import operator
        r=getattr(operator,op)(s.val,ov); PC.append((op,s,o,r)); return r
    def __ge__(s,o): return s._c(o,'ge')
    def __le__(s,o): return s._c(o,'le')
    def __gt__(s,o): return s._c(o,'gt')
    def __lt__(s,o): return s._c(o,'lt')
    def __eq__(s,o): return s._c(o,'eq')
    def __ne__(s,o): return s._c(o,'ne')
    __hash__=object.__hash__
    def __float__(s): raise TypeError('escape')
    def show(s,d=0):
        if s.op=='var': return s.args[0]
        if s.op=='lit': return repr(s.args[0])
        return s.op+'('+','.join(a.show() for a in s.args)+')'
PC=[]
def V(n,v): return Sym('var',(n,),v)
mix=copy.deepcopy(Mixtures.H2O_EtOH)
mix.nrtl_params.g12=V('g12',5823.0); mix.nrtl_params.g21=V('g21',-633.0); mix.nrtl_params.alpha12=V('al',0.3)
mix.first_component.molecular_weight=V('M1',18.02); mix.second_component.molecular_weight=V('M2',46.07)
c=Composition(V('x',0.3),'weight')
g=calculate_activity_coefficients(V('T',333.0),mix,c,'NRTL')
print(type(g[0]), g[0].val)
print(g[0].show()[:600])
print(len(PC),[ (p[0],p[3]) for p in PC])
pp=get_partial_pressures(V('T',333.0),mix,c,'UNIQUAC')
print(pp[1].val, len(pp[1].show()))
mem=Membrane('m',IdealExperiments([IdealExperiment('a',V('T0',333.15),mix.first_component,Permeance(V('P1',0.05)),V('E1',20000.0)),IdealExperiment('b',V('T0b',333.15),mix.second_component,Permeance(V('P2',0.0005)),V('E2',50000.0))]))
pv=Pervaporation(mem,mix)
PC.clear()
f=pv.get_partial_fluxes_from_permeate_composition(Permeance(V('P1',0.05)),Permeance(V('P2',0.0005)),Composition(V('y',0.9),'weight'),c,V('T',333.0),permeate_pressure=V('pp',2.0))
print(f[0].val, f[0].show()[:300]); print([(p[0],p[3]) for p in PC])
con=Conditions(V('A',0.5),V('T0',333.15),V('m0',10.0),c,permeate_temperature=V('Tp',280.0))
pv.calculate_partial_fluxes=lambda **kw: (V('J1',0.7),V('J2',0.01))
pm=pv.ideal_non_isothermal_process(con,2,V('dt',0.1))
print(pm.feed_mass[1].show()); print(pm.feed_temperature[1].show()[:400]); print(pm.time[1].show())
