From Coq Require Import ZArith List PrimFloat Bool.
Import ListNotations.
Record NumOps := { num : Type; add : num -> num -> num; sub : num -> num -> num; mul : num -> num -> num; div : num -> num -> num;
  nabs : num -> num; lit : Z -> Z -> float -> num; leb : num -> num -> bool; ltb : num -> num -> bool }.
Inductive exn := ValueError | OutOfFuel.
Inductive res (A : Type) := Ok (a : A) | Err (e : exn).
Arguments Ok {A}. Arguments Err {A}.
Definition bind {A B} (r : res A) (f : A -> res B) : res B := match r with Ok a => f a | Err e => Err e end.
Section M.
  Context (N : NumOps).
  Record Comp := { p : num N }.
  Definition zero := lit N 0 0 0%float. Definition one := lit N 1 0 1%float.
  Definition mk_comp (x : num N) : res Comp := if leb N zero x && leb N x one then Ok {| p := x |} else Err ValueError.
  Definition comp_of (J : num N * num N) : res Comp := mk_comp (div N (fst J) (add N (add N zero (fst J)) (snd J))).
  (* permeate-pressure mode flux *)
  Definition flux (P1 P2 pf1 pf2 pp : num N) (y : Comp) : num N * num N :=
    (mul N P1 (sub N pf1 (mul N pp (p y))), mul N P2 (sub N pf2 (mul N pp (sub N one (p y))))).
  Definition nmax (a b : num N) := if ltb N a b then b else a.
  Fixpoint loop (fuel : nat) (P1 P2 pf1 pf2 pp prec : num N) (y : Comp) : res Comp :=
    match fuel with O => Err OutOfFuel | S f =>
      bind (comp_of (flux P1 P2 pf1 pf2 pp y)) (fun y' =>
        let d := nmax (nabs N (sub N (p y') (p y))) (nabs N (sub N (sub N one (p y')) (sub N one (p y)))) in
        if leb N prec d then loop f P1 P2 pf1 pf2 pp prec y' else Ok y') end.
  Definition solve fuel P1 P2 pf1 pf2 pp prec : res (num N * num N) :=
    bind (comp_of (mul N P1 pf1, mul N P2 pf2)) (fun y0 =>
      if leb N prec one then bind (loop fuel P1 P2 pf1 pf2 pp prec y0) (fun y => Ok (flux P1 P2 pf1 pf2 pp y))
      else Ok (flux P1 P2 pf1 pf2 pp y0)).
  Lemma mk_comp_ok x : leb N zero x = true -> leb N x one = true -> mk_comp x = Ok {| p := x |}.
  Proof. intros A B. unfold mk_comp. rewrite A, B. reflexivity. Qed.
End M.
Lemma if_true A (c : bool) (a b : A) : c = true -> (if c then a else b) = a. Proof. intros ->. reflexivity. Qed.
Lemma if_false A (c : bool) (a b : A) : c = false -> (if c then a else b) = b. Proof. intros ->. reflexivity. Qed.
(* a "trace" for the path: prec<=1, y0 valid, iteration 1: y1 valid, d1 >= prec, iteration 2: y2 valid, d2 < prec *)
Section Br.
  Context (N : NumOps) (P1 P2 pf1 pf2 pp prec : num N).
  Let y0 := div N (mul N P1 pf1) (add N (add N (zero N) (mul N P1 pf1)) (mul N P2 pf2)).
  Let F (y : num N) := flux N P1 P2 pf1 pf2 pp {| p := y |}.
  Let G (y : num N) := div N (fst (F y)) (add N (add N (zero N) (fst (F y))) (snd (F y))).
  Let y1 := G y0. Let y2 := G y1.
  Let d (a b : num N) := nmax N (nabs N (sub N a b)) (nabs N (sub N (sub N (one N) a) (sub N (one N) b))).
  Lemma br :
    leb N (zero N) y0 = true -> leb N y0 (one N) = true -> leb N prec (one N) = true ->
    leb N (zero N) y1 = true -> leb N y1 (one N) = true -> leb N prec (d y1 y0) = true ->
    leb N (zero N) y2 = true -> leb N y2 (one N) = true -> leb N prec (d y2 y1) = false ->
    solve N 2 P1 P2 pf1 pf2 pp prec = Ok (F y2).
  Proof.
    intros H1 H2 H3 H4 H5 H6 H7 H8 H9.
    unfold solve, comp_of.
    rewrite (mk_comp_ok N) by assumption. cbn [bind].
    rewrite if_true by assumption.
    do 2 (cbn [loop]; unfold comp_of; rewrite (mk_comp_ok N) by assumption; cbn [bind];
          first [rewrite if_true by assumption | rewrite if_false by assumption]).
    cbn [bind]. reflexivity.
  Qed.
End Br.
