import warnings, numpy as np, math; warnings.filterwarnings('ignore')
from pyvaporation import *
from pyvaporation.experiments import IdealExperiment, IdealExperiments
R=8.314462
H=Components.H2O; E=Components.EtOH
# C14
for (a,b) in [(u,v) for u in ['GPU','SI','kg/(m2*h*kPa)'] for v in ['GPU','SI','kg/(m2*h*kPa)']]:
    p=Permeance(2.5,a)
    try:
        q=p.convert(b,H); r=q.convert(a,H)
        print(a,'->',b,q.value, 'back',r.value)
    except Exception as e: print(a,b,'EXC',type(e).__name__,e)
for (a,b) in [('GPU','SI'),('SI','kg/(m2*h*kPa)'),('kg/(m2*h*kPa)','SI'),('kg/(m2*h*kPa)','GPU'),('foo','SI'),('SI','foo'),('foo','foo')]:
    try: print(a,b,'nocomp',Permeance(1.0,a).convert(b).value)
    except Exception as e: print(a,b,'nocomp EXC',type(e).__name__,e)
try: print(Permeance(1.0,'foo').convert('SI',H))
except Exception as e: print('foo->SI EXC',type(e).__name__)
print(Permeance(-1).value, Permeance(float('nan')).value)
# C12
def mem(exps): return Membrane('m',IdealExperiments(exps))
m=mem([IdealExperiment('a',300.0,H,Permeance(0.01),None),IdealExperiment('a',320.0,H,Permeance(0.01*math.exp(-30000/R*(1/320-1/300))),None),IdealExperiment('a',350.0,H,Permeance(0.01*math.exp(-30000/R*(1/350-1/300))),None)])
print('Ea',m.calculate_activation_energy(H))
for T in [290,300,309.9,310.1,335,336,400]:
    print(T,m.get_permeance(T,H).value, 0.01*math.exp(-30000/R*(1/T-1/300)))
# units in experiments not kg
m2=mem([IdealExperiment('a',300.0,H,Permeance(100,'GPU'),25000.0)])
print(m2.get_permeance(300.0,H), m2.get_permeance(310.0,H), m2.get_permeance(310.0,H,initial_permeance=Permeance(5.0)))
print('sel',m.get_ideal_selectivity(300.0,H,H,'molar'))
m3=mem([IdealExperiment('a',300.0,H,Permeance(0.02),25000.0),IdealExperiment('b',300.0,E,Permeance(0.001),45000.0)])
print(m3.get_ideal_selectivity(310.0,H,E,'weight'),m3.get_ideal_selectivity(310.0,H,E,'molar'), m3.get_ideal_selectivity(310.0,H,E,'weight')*E.molecular_weight/H.molecular_weight)
print(m3.get_estimated_pure_component_flux(310.0,H), m3.get_permeance(310.0,H).value*H.get_vapor_pressure(310.0))
try: m3.get_estimated_pure_component_flux(310.0,H,280.0,1.0)
except Exception as e: print('both EXC',type(e).__name__)
# mixed stated/unstated
m4=mem([IdealExperiment('a',300.0,H,Permeance(0.01),None),IdealExperiment('a',320.0,H,Permeance(0.02),40000.0)])
print(m4.get_permeance(305,H).value,m4.get_permeance(315,H).value, m4.calculate_activation_energy(H))
