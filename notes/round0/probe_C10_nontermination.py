import numpy as np, sys, random, warnings
warnings.filterwarnings('ignore')
from pyvaporation import *
from pyvaporation.experiments import IdealExperiment, IdealExperiments
class Cap(Exception): pass
def run(mixname, ct, seed, cap=20000):
    rnd=random.Random(seed)
    mix=getattr(Mixtures,mixname)
    mem=Membrane(name='m', ideal_experiments=IdealExperiments([]))
    pv=Pervaporation(mem,mix)
    cnt=[0]
    orig=pv.get_partial_fluxes_from_permeate_composition
    def wrapped(**kw):
        cnt[0]+=1
        if cnt[0]>cap: raise Cap()
        return orig(**kw)
    object.__setattr__(pv,'get_partial_fluxes_from_permeate_composition',wrapped)
    P1=10**rnd.uniform(-6,0); P2=10**rnd.uniform(-6,0)
    x=rnd.uniform(0.001,0.999); T=rnd.uniform(273,400)
    mode=rnd.choice(['T','p'])
    prec=10**rnd.uniform(-8,-3)
    kw={}
    if mode=='T': kw['permeate_temperature']=rnd.uniform(120,T)
    else: kw['permeate_pressure']=rnd.uniform(0,100)
    try:
        f=pv.calculate_partial_fluxes(T,Composition(x,'weight'),prec,first_component_permeance=Permeance(P1),second_component_permeance=Permeance(P2),calculation_type=ct,**kw)
        return ('ok',cnt[0],f)
    except Cap:
        return ('CAP',dict(P1=P1,P2=P2,x=x,T=T,prec=prec,**kw))
    except Exception as e:
        return ('exc',type(e).__name__,str(e)[:60])
from collections import Counter
for ct in ['NRTL','UNIQUAC']:
    c=Counter(); caps=[]; maxit=0
    for s in range(3000):
        mixname=['H2O_MeOH','H2O_EtOH','H2O_iPOH','H2O_AceticAcid','MeOH_Toluene','MeOH_MTBE','MeOH_DMC','EtOH_ETBE'][s%8]
        r=run(mixname,ct,s)
        c[r[0] if r[0]!='exc' else r[1]]+=1
        if r[0]=='CAP': caps.append((mixname,s,r[1]))
        if r[0]=='ok': maxit=max(maxit,r[1])
    print(ct,c,'maxit',maxit)
    for x in caps[:5]: print(x)
