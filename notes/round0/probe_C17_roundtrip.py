import warnings, numpy as np, math, copy, random, shutil; warnings.filterwarnings('ignore')
from pathlib import Path
from pyvaporation import *
from pyvaporation.experiments import IdealExperiment, IdealExperiments
mix=Mixtures.H2O_EtOH
H=Components.H2O; E=Components.EtOH
mem=Membrane('m',IdealExperiments([IdealExperiment('a',333.15,H,Permeance(0.05),20000.0),IdealExperiment('b',333.15,E,Permeance(0.0005),50000.0)]))
pv=Pervaporation(mem,mix)
con=Conditions(0.5,333.15,10,Composition(0.3,'molar'),permeate_temperature=280.0)
pm=pv.ideal_non_isothermal_process(con,4,0.1)
root=Path('/tmp/scratch/memdir')
for safe in [True,False]:
    pm2=copy.deepcopy(pm)
    pm2.save(root,safe)
    d=[p for p in (root/'results').iterdir()][0]
    print(sorted(x.name for x in d.iterdir()))
    l=ProcessModel.load(d,safe)
    print('time',list(l.time)==list(pm.time),'mass',np.allclose(l.feed_mass,pm.feed_mass,rtol=1e-12),'T',np.allclose(l.feed_temperature,pm.feed_temperature,rtol=1e-12))
    print('perm T',l.permeate_temperature,type(l.permeate_temperature),'orig',pm.permeate_temperature)
    print('perm P',l.permeate_pressure,'orig',pm.permeate_pressure)
    print('flux2',[a[1] for a in l.partial_fluxes],[float(a[1]) for a in pm.partial_fluxes])
    print('permeances',[(a[0].value,a[1].value,a[0].units) for a in l.permeances][:2],[(float(a[0].value),float(a[1].value)) for a in pm.permeances][:2])
    print('comp',[ (c.p,c.type) for c in l.feed_compositions][:2],[(float(c.p),c.type) for c in pm.feed_compositions][:2])
    print('pcomp',[ (c.p,c.type) for c in l.permeate_composition][:2],[(float(c.p),c.type) for c in pm.permeate_composition][:2])
    print('heats',list(l.feed_evaporation_heat)[:2],pm.feed_evaporation_heat[:2],list(l.permeate_condensation_heat)[:2],pm.permeate_condensation_heat[:2])
    print('ic',l.initial_conditions)
    print('fits',l.permeance_fits)
    shutil.rmtree(d)
# curve
dc=pv.ideal_diffusion_curve(333.15,[Composition(0.2,'molar'),Composition(0.4,'molar')],permeate_pressure=2.0)
dc.save(root/'c.csv')
s=DiffusionCurveSet.load(root/'c.csv')
l=s[0]
print([(c.p,c.type) for c in l.feed_compositions],[(c.to_weight(mix).p) for c in dc.feed_compositions])
print(l.partial_fluxes,dc.partial_fluxes)
print([(a.value,b.value) for a,b in l.permeances],[(a.value,b.value) for a,b in dc.permeances], l.permeate_pressure,l.permeate_temperature)
print(open(root/'c.csv').read())
