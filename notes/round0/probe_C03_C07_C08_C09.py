import numpy as np, sys, copy
from pathlib import Path
from pyvaporation import *
from pyvaporation.experiments import IdealExperiment, IdealExperiments
mix=Mixtures.H2O_EtOH
def mk_membrane(mix,P1=0.05,P2=0.0005,T=333.15,E1=20000,E2=50000):
    return Membrane(name='m', ideal_experiments=IdealExperiments([
        IdealExperiment('a',T,mix.first_component,Permeance(P1),E1),
        IdealExperiment('b',T,mix.second_component,Permeance(P2),E2)]))
mem=mk_membrane(mix)
pv=Pervaporation(mem,mix)
# C08: helper with UNIQUAC
c=Composition(0.3,'weight')
for ct in ['NRTL','UNIQUAC']:
    f=pv.calculate_partial_fluxes(333.15,c,5e-5,None,None,calculation_type=ct)
    y=pv.calculate_permeate_composition(333.15,c,calculation_type=ct)
    dc=pv.ideal_diffusion_curve(333.15,[c],calculation_type=ct)
    print(ct,'solver',f,'y from f',f[0]/sum(f),'helper y',y.p,'curve',dc.partial_fluxes[0])
# C07: sep factor with molar comp
cm=c.to_molar(mix)
print('sepfactor weight',pv.calculate_separation_factor(333.15,c),'molar',pv.calculate_separation_factor(333.15,cm))
dcw=pv.ideal_diffusion_curve(333.15,[c]); dcm=pv.ideal_diffusion_curve(333.15,[cm])
print('curve sf',dcw.get_separation_factor,dcm.get_separation_factor, dcw.partial_fluxes, dcm.partial_fluxes)
# C09: permeate pressure round trip
for mode in [dict(),dict(permeate_temperature=280.0),dict(permeate_pressure=3.0)]:
    dc=pv.ideal_diffusion_curve(333.15,[c],**mode)
    print(mode,'perm back',dc.permeances[0][0].value,dc.permeances[0][1].value,'orig',0.05,0.0005)
# C03 / C06 MW bug
con=Conditions(membrane_area=0.5,initial_feed_temperature=333.15,initial_feed_amount=10,initial_feed_composition=c,permeate_temperature=280.0)
iso=pv.ideal_isothermal_process(number_of_steps=3,delta_hours=0.1,conditions=con)
non=pv.ideal_non_isothermal_process(number_of_steps=3,delta_hours=0.1,conditions=con)
print('evap heat iso',iso.feed_evaporation_heat[0],'noniso',non.feed_evaporation_heat[0])
print('cond heat iso',iso.permeate_condensation_heat[0],'noniso',non.permeate_condensation_heat[0])
print('flux0',iso.partial_fluxes[0],non.partial_fluxes[0])
h1=mix.first_component.get_vaporisation_heat(333.15)/mix.first_component.molecular_weight*1000
h2=mix.second_component.get_vaporisation_heat(333.15)/mix.second_component.molecular_weight*1000
J=iso.partial_fluxes[0]
print('expected',h1*J[0]*0.5*0.1+h2*J[1]*0.5*0.1)
