From Coq Require Import Reals Lra.
From Coquelicot Require Import Coquelicot.
From Interval Require Import Tactic.
Open Scope R_scope.
Section U.
Variables (r1 r2 q1 q2 qi1 qi2 z t12 t21 : R).
Definition l (r q : R) := z / 2 * (r - q) - (r - 1).
Definition lng1 (x1 : R) : R :=
  let x2 := 1 - x1 in
  let phis := x1 * r1 + x2 * r2 in let phi1 := x1 * r1 / phis in let phi2 := x2 * r2 / phis in
  let ths := x1 * q1 + x2 * q2 in let th1 := x1 * q1 / ths in let th2 := x2 * q2 / ths in
  let tis := x1 * qi1 + x2 * qi2 in let ti1 := x1 * qi1 / tis in let ti2 := x2 * qi2 / tis in
  ln (phi1 / x1) + z / 2 * q1 * ln (th1 / phi1) + phi2 * (l r1 q1 - r1 / r2 * l r2 q2)
  - qi1 * ln (ti1 + ti2 * t21) + ti2 * qi1 * (t21 / (ti1 + ti2 * t21) - t12 / (ti2 + ti1 * t12)).
Definition lng2 (bug : bool) (x1 : R) : R :=
  let x2 := 1 - x1 in
  let phis := x1 * r1 + x2 * r2 in let phi1 := x1 * r1 / phis in let phi2 := x2 * r2 / phis in
  let ths := x1 * q1 + x2 * q2 in let th1 := x1 * q1 / ths in let th2 := x2 * q2 / ths in
  let tis := x1 * qi1 + x2 * qi2 in let ti1 := x1 * qi1 / tis in let ti2 := x2 * qi2 / tis in
  ln (phi2 / x2) + z / 2 * q2 * ln (th2 / phi2) + phi1 * (l r2 q2 - r2 / r1 * l r1 q1)
  - qi2 * ln (ti2 + ti1 * t12) + ti1 * qi2 *
   (if bug then (t12 / (ti2 + ti1 * t21) - t12 / (ti1 + ti2 * t12))
    else (t12 / (ti2 + ti1 * t12) - t21 / (ti1 + ti2 * t21))).
End U.
Ltac nz := repeat match goal with
  | |- _ /\ _ => split
  | |- True => exact I
  | |- _ * _ <> 0 => apply Rmult_integral_contrapositive_currified
  | |- _ <> 0 => apply Rgt_not_eq; nra
  | |- 0 < _ => nra
  end.
Ltac pos := repeat match goal with
  | |- _ /\ _ => split
  | |- True => exact I
  | |- _ <> 0 => apply Rgt_not_eq
  | |- _ > 0 => apply Rlt_gt
  | |- 0 < _ => lra
  | |- 0 < _ * _ => apply Rmult_lt_0_compat
  | |- 0 < / _ => apply Rinv_0_lt_compat
  | |- 0 < _ + _ => apply Rplus_lt_0_compat
  end.
Lemma GD r1 r2 q1 q2 qi1 qi2 z t12 t21 x1 :
  0 < x1 < 1 -> 0 < r1 -> 0 < r2 -> 0 < q1 -> 0 < q2 -> 0 < qi1 -> 0 < qi2 -> 0 < t12 -> 0 < t21 ->
  x1 * Derive (lng1 r1 r2 q1 q2 qi1 qi2 z t12 t21) x1 + (1 - x1) * Derive (lng2 r1 r2 q1 q2 qi1 qi2 z t12 t21 false) x1 = 0.
Proof.
  intros Hx Hr1 Hr2 Hq1 Hq2 Hqi1 Hqi2 Ht12 Ht21.
  evar (l1 : R). assert (H1 : is_derive (lng1 r1 r2 q1 q2 qi1 qi2 z t12 t21) x1 l1).
  { unfold lng1, l. auto_derive; [pos | unfold l1; reflexivity]. }
  evar (l2 : R). assert (H2 : is_derive (lng2 r1 r2 q1 q2 qi1 qi2 z t12 t21 false) x1 l2).
  { unfold lng2, l. auto_derive; [pos | unfold l2; reflexivity]. }
  rewrite (is_derive_unique _ _ _ H1), (is_derive_unique _ _ _ H2).
  unfold l1, l2. field. pos.
Qed.
Print Assumptions GD.
