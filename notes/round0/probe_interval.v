From Coq Require Import Reals Lra.
From Interval Require Import Tactic.
Open Scope R_scope.
Goal Rpower 10 (7.20389 + -1733.926 / (333.15 + -39.485)) > 19. Proof. interval. Qed.
Goal forall y, 0.30 <= y <= 0.31 -> 0.2 <= exp (- y) / (1 + y * exp (-2 * y)) <= 0.9. Proof. intros. interval with (i_bisect y). Qed.
Goal 10 - (exp (ln 10 * (7.20389 + -1733.926 / (333.15 + -39.485))) * 0.05 * 0.3) * 1000 * 1 < 0. Proof. interval. Qed.
