import numpy, sys, warnings, copy
exec(open(__import__('os').path.join(__import__('os').path.dirname(__import__('os').path.abspath(__file__)),'probe_tracer_sym.py')).read().split("PC=[]")[0])  # Sym class
PC=[]
def V(n,v): return Sym('var',(n,),v)
from pathlib import Path
import pyvaporation.pervaporation.pervaporation as PVM
from pyvaporation.optimizer import PervaporationFunction
# E: PervaporationFunction call
f=PervaporationFunction(n=2,m=1,alpha=V('al',0.01),a=[V('a0',0.5),V('a1',-0.2)],b=[V('b0',1000.0),V('b1',50.0)])
r=f(V('x',0.3),V('t',330.0)); print('pvf',r.val, r.show()[:200])
g=f*V('k',2.0); print(g.alpha.show(), g.b is f.b)
# B: membrane
mix=copy.deepcopy(Mixtures.H2O_EtOH); H=mix.first_component; E=mix.second_component
mem=Membrane('m',IdealExperiments([IdealExperiment('a',V('T1',313.15),H,Permeance(V('P1',0.05)),None),IdealExperiment('a',V('T2',333.15),H,Permeance(V('P2',0.08)),None),IdealExperiment('b',V('T3',313.15),E,Permeance(V('Q1',0.0005)),V('E2',50000.0))]))
PC.clear()
try:
    p=mem.get_permeance(V('T',320.0),H)
except Exception as e: print('EXC',type(e).__name__,e)
print([(c[0],c[3]) for c in PC])
# C: stub lstsq
def lstsq_stub(a,y,rcond=None):
    xs=[row[0] for row in a]; n=len(xs)
    sx=sum(xs); sy=sum(y); sxy=sum(xs[i]*y[i] for i in range(n)); sxx=sum(x*x for x in xs)
    slope=(n*sxy-sx*sy)/(n*sxx-sx*sx); icpt=(sy-slope*sx)/n
    return (numpy.array([slope,icpt],dtype=object),None,None,None)
numpy.linalg.lstsq=lstsq_stub
PC.clear()
p=mem.get_permeance(V('T',320.0),H); print('perm',p.value.val, len(p.value.show()), [(c[0],c[3]) for c in PC])
# D: non ideal process with find_best_fit stubbed
calls=[]
def fbf_stub(data,include_zero=False,component_index=0,n=None,m=None):
    calls.append((len(data),include_zero,component_index,n,m))
    i=component_index
    return PervaporationFunction(n=1,m=0,alpha=V(f'al{i}',0.01),a=[V(f'a{i}',0.5)],b=[V(f'b{i}',1000.0)])
PVM.find_best_fit=fbf_stub
pervap=Membrane.load(Path('/repo/tests/default_membranes/Pervap_4101'))
pervap.ideal_experiments=mem.ideal_experiments
pv=Pervaporation(pervap,mix)
pv.calculate_partial_fluxes=lambda **kw: (V('J1',0.7),V('J2',0.01))
con=Conditions(V('A',0.017),V('T0',360.0),V('m0',1.5),Composition(V('x0',0.1),'weight'),permeate_pressure=V('pp',0.0))
PC.clear()
pm=pv.non_ideal_non_isothermal_process(con,pervap.diffusion_curve_sets[0],2,V('dt',0.2))
print(calls); print('P[1]',pm.permeances[1][0].value.show()[:300]); print(len(PC),[(c[0],c[3]) for c in PC][:12])
print(pm.permeance_fits[0].alpha.show()[:200])
