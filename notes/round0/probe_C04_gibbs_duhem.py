import numpy as np, sys
sys.path.insert(0,'/repo')
from pyvaporation import *
from pyvaporation.mixtures.mixture import calculate_activity_coefficients
def gd(mix, T, x, ct, h=1e-6):
    def lg(x):
        g=calculate_activity_coefficients(T, mix, Composition(p=x,type='molar'), ct)
        return np.log(g[0]), np.log(g[1])
    a=lg(x+h); b=lg(x-h)
    d1=(a[0]-b[0])/(2*h); d2=(a[1]-b[1])/(2*h)
    return x*d1+(1-x)*d2
for name in ['H2O_MeOH','H2O_EtOH','H2O_iPOH','H2O_AceticAcid','MeOH_Toluene','MeOH_MTBE','MeOH_DMC','EtOH_ETBE']:
    m=getattr(Mixtures,name)
    for ct in ['NRTL','UNIQUAC']:
        r=[gd(m,330.0,x,ct) for x in (0.1,0.5,0.9)]
        g0=calculate_activity_coefficients(330.0,m,Composition(p=1.0,type='molar'),ct)
        g1=calculate_activity_coefficients(330.0,m,Composition(p=0.0,type='molar'),ct)
        print(name,ct,['%.2e'%v for v in r],'gamma1@x1=1',g0[0],'gamma2@x1=0',g1[1])
