import warnings, numpy as np, math, copy, random; warnings.filterwarnings('ignore')
from pathlib import Path
from pyvaporation import *
from pyvaporation.experiments import IdealExperiment, IdealExperiments
mix=Mixtures.H2O_EtOH
H=Components.H2O; E=Components.EtOH
mem=Membrane('m',IdealExperiments([IdealExperiment('a',333.15,H,Permeance(0.05),20000.0),IdealExperiment('b',333.15,E,Permeance(0.0005),50000.0)]))
pv=Pervaporation(mem,mix)
def adm(pm):
    ok=True
    for k in range(len(pm.time)):
        if not (pm.feed_mass[k]>0): ok=False
        if not (0<=pm.feed_compositions[k].p<=1): ok=False
        if not (pm.feed_temperature[k]>0 and math.isfinite(pm.feed_temperature[k])): ok=False
        if not all(math.isfinite(v) for v in pm.partial_fluxes[k]): ok=False
    return ok
for area in [1,5,20,50,100,300,1000]:
    for kind in ['iso','noniso']:
        con=Conditions(area,333.15,10,Composition(0.3,'weight'))
        try:
            pm=pv.ideal_isothermal_process(6,1.0,con) if kind=='iso' else pv.ideal_non_isothermal_process(con,6,1.0)
            print(area,kind,'returned admissible=',adm(pm),[round(float(m),3) for m in pm.feed_mass],[round(float(t),1) for t in pm.feed_temperature][:6],[round(float(c.p),3) for c in pm.feed_compositions])
        except Exception as e:
            print(area,kind,'EXC',type(e).__name__,str(e)[:50])
