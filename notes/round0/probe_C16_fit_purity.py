import warnings, numpy as np, math, copy; warnings.filterwarnings('ignore')
from pathlib import Path
from pyvaporation import *
from pyvaporation.optimizer.optimizer import Measurement
ms=Measurements([Measurement(x=0.1*i,t=300.0+10*(i%2),p=0.01*math.exp(0.5*i*0.1-1000/(300+10*(i%2)))) for i in range(1,9)])
n0=len(ms)
f=fit(ms,n=1,m=1,include_zero=True,component_index=0)
print('after fit include_zero len',len(ms),'was',n0)
f2=fit(ms,n=1,m=1,include_zero=True,component_index=0)
print('after 2nd',len(ms), f.alpha==f2.alpha, list(f.a)==list(f2.a))
ms2=Measurements([Measurement(x=0.1*i,t=300.0+10*(i%2),p=0.01*math.exp(0.5*i*0.1-1000/(300+10*(i%2)))) for i in range(1,9)])
g1=find_best_fit(ms2,n=1,m=1); g2=find_best_fit(ms2,n=1,m=1)
print('det',g1.alpha==g2.alpha, list(g1.a)==list(g2.a), list(g1.b)==list(g2.b), g1.n,g1.m)
def loss(fn,data): return sum((fn(d.x,d.t)-d.p)**2 for d in data)
for n in range(2):
    for m in range(2):
        print(n,m,loss(fit(ms2,n=n,m=m),ms2), 'best',loss(g1,ms2))
h=g1*2.0
print(h(0.3,310.0), 2*g1(0.3,310.0), h.a is g1.a, type(g1.a))
