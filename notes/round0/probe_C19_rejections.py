import warnings, numpy as np, math, copy; warnings.filterwarnings('ignore')
from pathlib import Path
from pyvaporation import *
from pyvaporation.experiments import IdealExperiment, IdealExperiments
mix=Mixtures.H2O_EtOH
H=Components.H2O; E=Components.EtOH
mem=Membrane('m',IdealExperiments([IdealExperiment('a',333.15,H,Permeance(0.05),20000.0),IdealExperiment('b',333.15,E,Permeance(0.0005),50000.0)]))
pv=Pervaporation(mem,mix)
c=Composition(0.3,'weight')
def tryit(name,f):
    try: r=f(); print(name,'-> returned',type(r).__name__)
    except Exception as e: print(name,'-> EXC',type(e).__name__,str(e)[:70])
both=dict(permeate_temperature=280.0,permeate_pressure=1.0)
con=Conditions(0.5,333.15,10,c,**both)
tryit('solver',lambda: pv.calculate_partial_fluxes(333.15,c,**both))
tryit('permcomp',lambda: pv.calculate_permeate_composition(333.15,c,**both))
tryit('sepfac',lambda: pv.calculate_separation_factor(333.15,c,**both))
tryit('idealcurve',lambda: pv.ideal_diffusion_curve(333.15,[c],**both))
tryit('ideal iso',lambda: pv.ideal_isothermal_process(3,0.1,con))
tryit('ideal noniso',lambda: pv.ideal_non_isothermal_process(con,3,0.1))
tryit('pure flux',lambda: mem.get_estimated_pure_component_flux(333.15,H,**both))
tryit('curve from fluxes',lambda: DiffusionCurve(mix,'m',333.15,[c],partial_fluxes=[(0.5,0.01)],**both))
tryit('curve from permeances (both)',lambda: DiffusionCurve(mix,'m',333.15,[c],permeances=[(Permeance(0.05),Permeance(0.0005))],**both))
tryit('curve neither',lambda: DiffusionCurve(mix,'m',333.15,[c]))
tryit('mixture no params',lambda: Mixture('x',H,E))
mu=Mixture('x',H,E,uniquac_params=mix.uniquac_params)
tryit('nrtl missing',lambda: get_partial_pressures(333.15,mu,c,'NRTL'))
mn=Mixture('x',H,E,nrtl_params=mix.nrtl_params)
tryit('uniquac missing',lambda: get_partial_pressures(333.15,mn,c,'UNIQUAC'))
tryit('unknown model',lambda: get_partial_pressures(333.15,mix,c,'FOO'))
H2=copy.deepcopy(H); H2.uniquac_constants=None
mc=Mixture('x',H2,E,uniquac_params=mix.uniquac_params)
tryit('uniquac consts missing',lambda: get_partial_pressures(333.15,mc,c,'UNIQUAC'))
m1=Membrane('m',IdealExperiments([IdealExperiment('a',333.15,H,Permeance(0.05),None)]))
tryit('one exp no Ea, same T',lambda: m1.get_permeance(333.15,H))
tryit('one exp no Ea, other T',lambda: m1.get_permeance(340,H))
tryit('Ea calc',lambda: m1.calculate_activation_energy(H))
# non-ideal with both
pervap=Membrane.load(Path('/repo/tests/default_membranes/Pervap_4101'))
pvp=Pervaporation(pervap,mix)
con2=Conditions(0.017,368.15,1.5,Composition(0.1,'weight'),**both)
tryit('nonideal iso',lambda: pvp.non_ideal_isothermal_process(con2,pervap.diffusion_curve_sets[0],3,0.2))
tryit('nonideal curve',lambda: pvp.non_ideal_diffusion_curve(pervap.diffusion_curve_sets[0],368.15,Composition(0.1,'weight'),0.01,3,**both))
print(len(pervap.diffusion_curve_sets), [len(s.diffusion_curves) for s in pervap.diffusion_curve_sets])
